"""
C18 -- Input files are accepted and runnable, or rejected with the dedicated error.

Parts of `run`:
  1. errors_fmt     translator table (lean/AtomicaModel/Generated/ErrorsFmt.lean, theorem `errors_wellformed`) + replay of malformed rows
  2. frameworks     generated valid frameworks and library files -> Lean rule model (`rules` requests) vs `ProjectFramework` reading
                    the real .xlsx; accepted => blank databook reads back => filled databook builds and runs; every catalogue
                    mutation (vlib/c18mut.py) applied to every accepted base, verdict predicted by catalogue and model
  3. books          databook / program book mutations (vlib/c18books.py) on library and generated bases (mode E)
Oracle everywhere: exception class on load; ability to build and run.
"""
import copy
import hashlib
import json
import logging
import multiprocessing as mp
import os
import re
import sys
import time
import traceback
import warnings
from pathlib import Path

import numpy as np

from vlib import core
from vlib import c18gen as G
from vlib import c18mut as MU
from vlib import c18books as BK
from vlib import c18errfmt as EF

warnings.simplefilter("ignore")

PROPERTY = "C18"
LEAN_MODS = ["AtomicaProofs.Properties.C18", "AtomicaProofs.Properties.C18Errors"]
THEOREMS = [
    "Atomica.C18.validate_iff_documented",
    "Atomica.C18.validate_error_kind",
    "Atomica.C18.accepted_gives_WF",
    "Atomica.C18.accepted_idsNodup",
    "Atomica.C18.cascade_nested_sound",
    "Atomica.C18.acyclicB_iff_rank",
    "Atomica.C18.checkCodeNames_iff",
    "Atomica.C18.timed_current_weaker",
    "Atomica.C18.timed_current_differs",
    "Atomica.C18.timedVarying_sound",
    "Atomica.C18.timedVarying_iff",
    "Atomica.C18.timedVarying_complete",
    "Atomica.C18.timedVarying_reported",
    "Atomica.C18.errors_wellformed",
]
TRUSTED = [
    "abstraction of a framework spec into the rule model's FrameworkAbs (harness/vlib/c18gen.py `abstract`: defaults of _sanitize_*, function dependencies by Python `ast`)",
    "pandas/openpyxl parsing, dataframe sanitation, message construction: reached only by the mutation stream (not modelled)",
    "mutation catalogue verdicts (harness/vlib/c18mut.py, c18books.py): each is cross-checked against the Lean rule model where the model applies",
    "junction duration-group assignment (_assign_junction_duration_groups) and the Plots sheet are outside the rule model",
]
RULE = ("frameworks: seeded structured generator (1-2 population types, sources/sinks/junction chains/residual links, duration groups -- the timed parameter sometimes a constant function of a databook parameter --, derivative/aggregated/flow functions, "
        "optional sheets and columns absent or blank) + library and test-suite framework files; every base x every applicable single-rule mutation of the catalogue; "
        "databooks/progbooks: library pairs and generated pairs x book mutations. non-trivial = a mutated case whose catalogue verdict is 'reject', or a base/accept case "
        "with a junction, a timed parameter, two population types or a flow/aggregation function")
EXPECTED_BRANCHES = ["base.generated.accept", "base.library.accept", "chain.ok", "mut.reject.dedicated", "mut.accept.ok", "rule.match", "db.reject.dedicated", "db.accept.ok",
                     "pb.reject.dedicated", "errors_fmt.rows", "timedVarying.rejected", "timedConstant.accepted_runs"]
ASSUMPTIONS = ["a 'valid number' filling of a generated databook = mutually consistent compartment sizes, rates 0.1-0.5, durations 2, proportions 0.5 (vlib/c18gen.fill_databook)"]

DEDICATED = {"framework": {"InvalidFramework", "InvalidCascade"}, "databook": {"InvalidDatabook"}, "progbook": {"InvalidProgramBook"}}
GEN_DIR = core.LEAN / "AtomicaModel" / "Generated"

# implementation message -> RuleId of the model (for the "same rule, same order" comparison)
RULE_MSG = [
    ("compFlags", r"can only be one of Sink, Source, or Junction"),
    ("compSwSourceSink", r"is a source or a sink, but has a nonzero setup weight"),
    ("compSwNoData", r'^Compartment ".*" has a nonzero setup weight'),
    ("compDefaultNoPage", r'^Compartment ".*" has no databook page but has a default value'),
    ("compSourceSinkPage", r"is a source or a sink, but has a databook page"),
    ("compCalibrate", r'^Compartment ".*" is marked as being eligible for calibration'),
    ("compPopType", r'^Compartment ".*" has population type'),
    ("characSwNoData", r'^Characteristic ".*" has a nonzero setup weight'),
    ("characDefaultNoPage", r'^Characteristic ".*" has no databook page but has a default value'),
    ("denomPopType|componentPopType", r'^In Characteristic ".*", included (compartment|characteristic) ".*" does not have a matching population type'),
    ("denomNoPage", r"is being used for initialization, but the denominator"),
    ("denomHasDenom", r"as a denominator\. However"),
    ("denomUndefined", r'denominator ".*" was not recognized'),
    ("characCalibrate", r'^Characteristic ".*" is marked as being eligible for calibration'),
    ("characPopType", r'^Characteristic ".*" has population type'),
    ("componentDenominator", r"which has a denominator\. Only compartments and characteristics without a denominator can be summed"),
    ("componentUndefined", r'^In Characteristic ".*", included component ".*" was not recognized'),
    ("interPopType", r'^Interaction ".*" has population type'),
    ("matPopType", r"^Transition matrix has population type"),
    ("matCompUndefined", r"appears in the matrix on the Transitions sheet, but it was not defined"),
    ("matCompPopType", r'^Compartment ".*" belongs to pop type'),
    ("linkParUndefined", r"appears in the transition matrix but not on the Parameters page"),
    ("linkParPopType", r'^Parameter ".*" belongs to pop type'),
    ("timedTwo", r"A compartment can only have one timed outflow"),
    ("timedFromSpecial", r"timed outflows cannot be applied to source, sink, or junction"),
    ("timedSameGroup", r"Flushing into the same duration group is not permitted"),
    ("parPopType", r'^Parameter ".*" has population type'),
    ("derivNoFunction", r'is marked "is derivative" but it does not have a parameter function'),
    ("derivNoPage", r'is marked "is derivative" but it does not have a databook page'),
    ("tsProportion", r"is in proportion units, therefore it cannot have a timescale"),
    ("tsNonPositive", r"timescales must be >0"),
    ("timedFormat", r"timed transition so the format needs to be"),
    ("timedDerivative", r"timed transition so it cannot be a derivative"),
    ("timedTargetable", r"timed transition so it cannot be targeted"),
    ("noFunctionNoPage", r"does not have a function OR a databook page"),
    ("functionNotString", r"has not been specified as a string"),
    ("depFlowAgg", r"but the function contains a population aggregation"),
    ("depFlowTransition", r"also governs a flow rate"),
    ("depFlowParUndefined", r"This requires a parameter called"),
    ("depCrossPop", r"All cross-population interactions must take place"),
    ("depFlowNotTransition", r"Flow rates are only associated with transition parameters"),
    ("depFlowCompUndefined", r"This requires a (source|destination) compartment called"),
    ("depInteractionNoAgg", r"includes the Interaction"),
    ("depInteractionTo", r"the 'to' population type in the interaction must match"),
    ("depInteractionFrom", r"belong to the 'from' population type"),
    ("depInteractionDirected", r"which crosses population types"),
    ("depSelfRef", r"has a parameter function that refers to itself"),
    ("depUndefined", r'depends on a quantity ".*", but no Compartment'),
    ("aggFirstArg", r"aggregates the quantity"),
    ("transFormat", r"is a transition parameter,? so (it needs to have a format|format)"),
    ("parTwiceFromComp", r"cannot be associated with more than one transition from the same compartment"),
    ("outflowFromSink", r'has an outflow from Compartment ".*" which is a sink'),
    ("sourceNotNumber", r'so it needs to be in "number" units'),
    ("junctionNotProportion", r'so it must be in "proportion" units'),
    ("proportionNotJunction", r"all of its outflows must be from junction compartments"),
    ("multiSource", r"outflow from more than one source compartment"),
    ("sourceShared", r"therefore it cannot be associated with any other transitions"),
    ("inflowToSource", r'has an inflow to Compartment ".*" which is a source'),
    ("numberTargetable", r"is targetable and in number units"),
    ("timedVarying", r"drives a timed transition so its value cannot vary over time"),
    ("cyclic", r"Circular dependencies in parameters were found"),
    ("nameSymbol", r"cannot contain any of these reserved symbols"),
    ("nameKeyword", r'Requested code name ".*" is a reserved keyword'),
    ("nameDuplicate", r"Duplicate code name"),
    ("displayDuplicate", r"Duplicate display name"),
    ("cascadeDuplicate", r'A cascade with name ".*" was already read in'),
    ("cascadeKeyword", r"Requested cascade name"),
    ("cascadeNameCode", r"cannot have the same name as a compartment"),
    ("cascadeNameDisplay", r"cannot have the same display name"),
    ("stageKeyword", r"Requested cascade stage name"),
    ("cascadeEmpty", r"no constituents were provided"),
    ("cascadeUndefined", r'^In cascade ".*", stage ".*" - the included component'),
    ("cascadeStageDenominator", r"which has a denominator - cascade stages must be numbers"),
    ("cascadeStageDuplicate", r"more than once after expanding characteristics"),
    ("residualTwo", r"has more than one residual"),
    ("cascadePopTypes", r"(includes compartments from more than one population type|characteristics spanning population types)"),
    ("cascadeNotNested", r"is not properly nested"),
]
RULE_MSG = [(a, re.compile(b, re.S)) for a, b in RULE_MSG]
OUTSIDE_MODEL = re.compile(r"has inputs and outputs to multiple duration groups|Plots|An error was detected on the|Mandatory index column|A required column")


def impl_rule(msg: str):
    for rule, rx in RULE_MSG:
        if rx.search(msg):
            return rule
    return None


# ----------------------------------------------------------------------------------------------
# 0. translator
# ----------------------------------------------------------------------------------------------
def translate(ctx):
    rows, unknown = EF.table(core.REPO)
    ctx.extra["errors_fmt"] = {"rows": len(rows), "unknown": [list(u) for u in unknown], "malformed": [list(r) for r in rows if not EF.wellformed(r)]}
    src = EF.lean_source(rows)
    GEN_DIR.mkdir(parents=True, exist_ok=True)
    f = GEN_DIR / "ErrorsFmt.lean"
    if not f.exists() or f.read_text() != src:
        f.write_text(src)
    ctx._errfmt_rows = rows


# ----------------------------------------------------------------------------------------------
# evaluation of the implementation (worker side)
# ----------------------------------------------------------------------------------------------
def _quiet():
    import atomica as at

    at.logger.setLevel(logging.CRITICAL)
    logging.getLogger("atomica").setLevel(logging.CRITICAL)
    warnings.simplefilter("ignore")
    sys.setrecursionlimit(1500)
    try:
        import faulthandler
        import signal

        faulthandler.register(signal.SIGUSR1, all_threads=True)  # `kill -USR1 <pid>` prints the stack of a worker
    except Exception:
        pass


def describe(e: BaseException) -> dict:
    tb = traceback.extract_tb(e.__traceback__)
    frames = [x for x in tb if "atomica" in x.filename.replace("\\", "/").split("/")[-2:][0] or "/atomica/" in x.filename]
    where = ""
    if frames:
        fr = frames[-1]
        where = "%s:%s" % (Path(fr.filename).name, fr.name)
    return {"outcome": type(e).__name__, "where": where, "line": frames[-1].lineno if frames else None, "msg": str(e)[:400]}


class Hang(BaseException):
    """a reader that neither accepts nor rejects within the time limit (BaseException: must not be caught by `except Exception`)"""


def _alarm(signum, frame):
    raise Hang("no verdict within the time limit")


def eval_framework(task: dict) -> dict:
    """Read the framework of `task` with the real reader; optionally continue with the accept chain."""
    import signal

    old = signal.signal(signal.SIGALRM, _alarm)
    signal.alarm(int(task.get("limit", os.environ.get("C18_LIMIT", 120))))
    try:
        return _eval_framework(task)
    except Hang as e:
        return {"outcome": "Hang", "where": "", "msg": str(e), "chain": None, "t": float(task.get("limit", 120))}
    finally:
        signal.alarm(0)
        signal.signal(signal.SIGALRM, old)


def _eval_framework(task: dict) -> dict:
    import atomica as at

    _quiet()
    out = {"outcome": "accept", "where": "", "msg": "", "chain": None}
    t0 = time.time()
    try:
        if task.get("path"):
            fw = at.ProjectFramework(task["path"])
        else:
            fw = at.ProjectFramework(G.to_xlsx(task["spec"]))
    except RecursionError as e:
        out.update(describe(e))
        out["msg"] = "maximum recursion depth exceeded"
    except Exception as e:  # noqa
        out.update(describe(e))
    if out["outcome"] == "accept" and task.get("chain"):
        try:
            if task["chain"] == "blank":
                data = at.ProjectData.new(fw, np.array([2000.0, 2001.0]), pops=G.pops_for(fw, 1), transfers=0)
                d2 = at.ProjectData.from_spreadsheet(data.to_spreadsheet(), fw)
                assert set(d2.tdve) == set(data.tdve), "blank databook does not read back"
            elif task["chain"] == "databook":
                proj = at.Project(framework=fw, databook=task["databook"], do_run=False)
                proj.settings.update_time_vector(end=proj.settings.sim_start + 2.0)
                proj.run_sim()
            else:
                G.run_chain(fw)
            out["chain"] = "ok"
        except G.ChainFailure as e:
            d = describe(e.exc)
            out["chain"] = {"stage": e.stage, **d}
        except Exception as e:  # noqa
            out["chain"] = {"stage": task["chain"], **describe(e)}
    out["t"] = round(time.time() - t0, 3)
    return out


def _load_book_base(base: dict):
    """(fw, project-with-databook, ProjectData, databook spreadsheet, progbook spreadsheet | None)"""
    import atomica as at
    import sciris as sc

    if base["kind"] == "library":
        lib = at.LIBRARY_PATH
        fw = at.ProjectFramework(lib / f"{base['name']}_framework.xlsx")
        data = at.ProjectData.from_spreadsheet(lib / f"{base['name']}_databook.xlsx", fw)
        ss = data.to_spreadsheet()
        pbp = lib / f"{base['name']}_progbook.xlsx"
        pbs = sc.Spreadsheet(pbp) if pbp.exists() else None
    else:
        fw = at.ProjectFramework(G.to_xlsx(base["spec"]))
        data = at.ProjectData.new(fw, np.array([2000.0, 2001.0, 2002.0]), pops=G.pops_for(fw, 2), transfers=1)
        data = at.ProjectData.from_spreadsheet(data.to_spreadsheet(), fw)
        G.fill_databook(fw, data)
        ss = data.to_spreadsheet()
        data = at.ProjectData.from_spreadsheet(ss, fw)
        pbs = None
    return fw, data, ss, pbs


def _limited(fn):
    """run one book evaluation under the same time limit as a framework evaluation"""
    import functools
    import signal

    @functools.wraps(fn)
    def wrapped(*a, **k):
        old = signal.signal(signal.SIGALRM, _alarm)
        signal.alarm(int(os.environ.get("C18_LIMIT", 120)))
        try:
            return fn(*a, **k)
        except Hang as e:
            return {"outcome": "Hang", "where": "", "msg": str(e)}
        finally:
            signal.alarm(0)
            signal.signal(signal.SIGALRM, old)

    return wrapped


@_limited
def _try_databook(fw, ss, run=True):
    import atomica as at

    try:
        proj = at.Project(framework=fw, databook=ss, do_run=False)
        if run:
            proj.settings.update_time_vector(end=proj.settings.sim_start + 1.0)
            proj.run_sim()
        return {"outcome": "accept", "where": "", "msg": ""}
    except Exception as e:  # noqa
        res = describe(e)
    # the same content handed over as a ProjectData OBJECT (Project(databook=data)) must be refused as well: validation is not a property of the file reader
    try:
        d = at.ProjectData.from_spreadsheet(ss, fw)
    except Exception:  # noqa
        return res
    try:
        at.Project(framework=fw, databook=d, do_run=False)
    except Exception:  # noqa
        return res
    return {"outcome": "accept", "where": "Project(databook=<ProjectData object>)", "msg": f"refused as a spreadsheet ({res['outcome']}: {res['msg'][:80]}) but accepted when the same content is passed as a ProjectData object"}


@_limited
def _try_progbook(proj0, ss, run=True):
    import atomica as at
    import sciris as sc

    try:
        proj = sc.dcp(proj0)
        ps = proj.load_progbook(ss)
        if run:
            proj.settings.update_time_vector(end=proj.settings.sim_start + 2.0)
            proj.run_sim(proj.parsets[0], ps, at.ProgramInstructions(start_year=proj.settings.sim_start + 1.0))
        return {"outcome": "accept", "where": "", "msg": ""}
    except Exception as e:  # noqa
        return describe(e)


def eval_books(task: dict) -> list:
    """All databook (and progbook) mutations of one base.  Returns a list of result dicts."""
    import random

    import atomica as at

    _quiet()
    base = task["base"]
    res = []
    try:
        fw, data, ss, pbs = _load_book_base(base)
    except Exception as e:  # noqa
        return [{"book": "base", "mutation": "none", "expect": "accept", "applied": True, **describe(e)}]
    r0 = _try_databook(fw, ss)
    res.append({"book": "databook", "mutation": "none", "expect": "accept", "applied": True, **r0})
    if r0["outcome"] != "accept":
        return res
    for e in BK.DB_CATALOGUE:
        if task.get("only") and e["id"] not in task["only"]:
            continue
        r = random.Random(task["seed"] * 7919 + int(hashlib.sha256(e["id"].encode()).hexdigest()[:6], 16))
        wb = BK.flatten(ss)
        try:
            applied = e["fn"](wb, BK.Ctx(fw, data, r))
        except Exception as ex:  # noqa
            res.append({"book": "databook", "mutation": e["id"], "expect": e["expect"], "applied": False, "outcome": "mutation-error", "where": "", "msg": repr(ex)[:200]})
            continue
        if not applied:
            res.append({"book": "databook", "mutation": e["id"], "expect": e["expect"], "applied": False, "outcome": "n/a", "where": "", "msg": ""})
            continue
        res.append({"book": "databook", "mutation": e["id"], "expect": e["expect"], "applied": True, **_try_databook(fw, BK.unflatten(wb))})
    if pbs is not None and task.get("progbook", True):
        proj0 = at.Project(framework=fw, databook=ss, do_run=False)
        r0 = _try_progbook(proj0, pbs)
        res.append({"book": "progbook", "mutation": "none", "expect": "accept", "applied": True, **r0})
        if r0["outcome"] == "accept":
            for e in BK.PB_CATALOGUE:
                if task.get("only") and e["id"] not in task["only"]:
                    continue
                r = random.Random(task["seed"] * 104729 + int(hashlib.sha256(e["id"].encode()).hexdigest()[:6], 16))
                wb = BK.flatten(pbs)
                try:
                    applied = e["fn"](wb, BK.Ctx(fw, data, r))
                except Exception as ex:  # noqa
                    res.append({"book": "progbook", "mutation": e["id"], "expect": e["expect"], "applied": False, "outcome": "mutation-error", "where": "", "msg": repr(ex)[:200]})
                    continue
                if not applied:
                    res.append({"book": "progbook", "mutation": e["id"], "expect": e["expect"], "applied": False, "outcome": "n/a", "where": "", "msg": ""})
                    continue
                res.append({"book": "progbook", "mutation": e["id"], "expect": e["expect"], "applied": True, **_try_progbook(proj0, BK.unflatten(wb))})
    return res


def pmap(fn, tasks, nproc):
    if not tasks:
        return []
    if nproc <= 1 or len(tasks) < 4:
        return [fn(t) for t in tasks]
    with mp.get_context("fork").Pool(nproc) as pool:
        return pool.map(fn, tasks, chunksize=max(1, min(8, len(tasks) // (nproc * 4) or 1)))


# ----------------------------------------------------------------------------------------------
# recording
# ----------------------------------------------------------------------------------------------
class Rec:
    """caps the number of recorded violations per key (every occurrence is still counted)"""

    def __init__(self, ctx):
        self.ctx = ctx
        self.n = {}

    def violation(self, key, what, replay):
        k = json.dumps(key, sort_keys=True)
        self.n[k] = self.n.get(k, 0) + 1
        self.ctx.count("violation." + key.get("api", "?") + "." + str(key.get("mutation", key.get("line", ""))))
        self.ctx.disagreements_checked += 1
        if self.n[k] <= 2:
            self.ctx.violation(key, what, replay)


def spec_features(spec) -> bool:
    i = MU.Info(spec)
    if len(i.pts) > 1 or i.of_kind("junction"):
        return True
    if any(i.timed(p) for p in i.pars):
        return True
    return any(isinstance(p.get("function"), str) and (":" in p["function"] or p["function"].startswith(("SRC_", "TGT_"))) for p in spec["pars"])


def fw_script(spec_json_path="<replay file>"):
    return ("import json, atomica as at; from vlib import c18gen as G  # PYTHONPATH=harness\n"
            f"spec = json.load(open('{spec_json_path}'))['replay']['spec']\n"
            "at.ProjectFramework(G.to_xlsx(spec))   # must raise InvalidFramework/InvalidCascade or load and run (G.run_chain)")


# ----------------------------------------------------------------------------------------------
# 1. errors_fmt
# ----------------------------------------------------------------------------------------------
SINK_SPEC = {
    "poptypes": None, "pages": None, "cascades": None,
    "comps": [{"code": "sus", "display": "Susceptible", "source": "n", "sink": "n", "junction": "n", "page": "sv", "default": None},
              {"code": "born", "display": "Births", "source": "y", "sink": "n", "junction": "n", "page": None, "default": None},
              {"code": "dead", "display": "Dead", "source": "n", "sink": "y", "junction": "n", "page": None, "default": None}],
    "characs": [{"code": "alive", "display": "Alive", "components": "sus", "denominator": None, "page": None, "default": None}],
    "pars": [{"code": "mort", "display": "Death rate", "format": "rate", "page": "pp", "default": 0.1, "function": None},
             {"code": "back", "display": "Resurrection rate", "format": "rate", "page": "pp", "default": 0.1, "function": None}],
    "transitions": [{"poptype": None, "comps": ["sus", "born", "dead"], "cells": [["sus", "dead", "mort"], ["dead", "sus", "back"]]}],
}


def errfmt_replay_spec(line_text: str):
    s = copy.deepcopy(SINK_SPEC)
    if "which is a source" in line_text:
        s["transitions"][0]["cells"] = [["sus", "dead", "mort"], ["sus", "born", "back"]]
    return s


def run_errors(ctx, rec):
    rows = getattr(ctx, "_errfmt_rows", None)
    if rows is None:
        rows, _ = EF.table(core.REPO)
    ctx.count("errors_fmt.rows", len(rows))
    for row in rows:
        ok = EF.wellformed(row)
        ctx.case({"api": "errors_fmt", "file": row[0], "line": row[1]}, nontrivial=row[4] >= 2, sample=None)
        if row[0] == "framework.py" and row[2] == "InvalidFramework" and row[4] >= 2:
            # the row of the translator table that carries the message of rule `timedVarying` (message -> rule: RULE_MSG)
            src_line = (core.REPO / "atomica" / row[0]).read_text().split("\n")[row[1] - 1]
            if impl_rule(src_line) == "timedVarying":
                ctx.count("errors_fmt.row.timedVarying" + ("" if ok else ".malformed"))
        if ok:
            continue
        (f, ln, cls, kind, ph, sup, par) = row
        text = (core.REPO / "atomica" / f).read_text().split("\n")[ln - 1].strip()
        key = {"api": "errors_fmt", "file": f, "line": ln}
        replay = {"kind": "errors_fmt", "row": list(row), "source": text}
        what = f"{f}:{ln} `{text[:160]}`: {ph} placeholder(s), {sup} argument(s) supplied, argument tuple parenthesised={par}"
        if f == "framework.py" and ("which is a sink" in text or "which is a source" in text):
            spec = errfmt_replay_spec(text)
            r = eval_framework({"spec": spec})
            replay.update({"spec": spec, "observed": r, "script": fw_script()})
            what += f"; replay (outflow from a sink / inflow to a source) raises {r['outcome']}: {r['msg'][:80]}"
            if r["outcome"] in DEDICATED["framework"]:
                # the table says malformed but the replay is fine: translator/implementation disagreement, not a violation
                ctx.brk("correspondence", "errors_fmt row malformed but the replay raised the dedicated error", row=list(row))
                continue
        rec.violation(key, what, replay)


# ----------------------------------------------------------------------------------------------
# 2. frameworks
# ----------------------------------------------------------------------------------------------
def library_frameworks():
    import atomica as at

    lib = sorted(at.LIBRARY_PATH.glob("*_framework.xlsx")) + sorted(at.LIBRARY_PATH.glob("framework_template*.xlsx"))
    tests = sorted((core.REPO / "tests").glob("*framework*.xlsx"))
    return lib, tests


def model_verdicts(ctx, specs):
    """abstract + drive; returns list of (verdict str | None, reply dict)"""
    lines, idx = [], []
    for k, s in enumerate(specs):
        if s is None:
            continue
        try:
            lines.append(G.abstract(s))
            idx.append(k)
        except Exception:
            ctx.count("model.unsupported_spec")
    reps = core.drive(lines) if lines else []
    out = [None] * len(specs)
    for k, rep in zip(idx, reps):
        toks = rep.split()
        if not toks or toks[0].startswith("err") and not toks[0].startswith("err:"):
            ctx.brk("correspondence", "driver rejected a rules request", reply=rep[:200])
            continue
        d = {"verdict": toks[0]}
        for t in toks[1:]:
            if "=" in t:
                a, b2 = t.split("=", 1)
                d[a] = b2
        out[k] = d
    return out


def run_frameworks(ctx, rec, nproc):
    import random

    import atomica as at

    lib_files, test_files = library_frameworks()
    r = ctx.rng
    # ---- bases
    n_gen = ctx.n(6, 45)
    gen_seeds = [ctx.seed * 100003 + k for k in range(n_gen)]
    bases = []
    for sd in gen_seeds:
        bases.append({"name": f"gen{sd}", "origin": "generated", "spec": G.gen_valid(random.Random(sd)), "path": None})
    files = lib_files + test_files
    if ctx.quick:
        small = [f for f in files if f.stat().st_size < 40000]
        files = r.sample(lib_files, 3) + r.sample([f for f in test_files if f in small] or test_files, 3)
    for f in files:
        try:
            spec = MU.spec_from_xlsx(f)
        except Exception as e:  # noqa
            ctx.count("library.spec_unreadable")
            ctx.notes.append(f"spec_from_xlsx failed for {f.name}: {e!r}"[:200])
            spec = None
        bases.append({"name": f.name, "origin": "library", "spec": spec, "path": str(f)})

    # ---- base verdicts: model
    def representable(spec):
        """a matrix with a repeated column label cannot be expressed as a spec (cells are addressed by label)"""
        return spec is not None and all(len(set(t["comps"])) == len(t["comps"]) for t in spec.get("transitions", []))

    for b in bases:
        if b["spec"] is not None and not representable(b["spec"]):
            ctx.count("library.not_representable")
            b["spec"] = None
    mv = model_verdicts(ctx, [b["spec"] for b in bases])
    # ---- base verdicts: implementation (original file and regenerated spec), with the accept chain
    tasks = []
    for b in bases:
        if b["origin"] == "generated":
            tasks.append({"spec": b["spec"], "chain": "full"})
        else:
            db_path = Path(b["path"].replace("_framework.xlsx", "_databook.xlsx"))
            tasks.append({"path": b["path"], "chain": "databook" if (db_path.exists() and db_path != Path(b["path"])) else "blank", "databook": str(db_path)})
    t0 = time.time()
    res = pmap(eval_framework, tasks, nproc)
    ctx.extra["t_bases_s"] = round(time.time() - t0, 1)
    usable = []
    for b, m, ro in zip(bases, mv, res):
        key_base = {"api": "ProjectFramework", "mutation": "none", "base": b["origin"]}
        nontriv = b["spec"] is not None and spec_features(b["spec"])
        ctx.case({"base": b["name"]}, nontrivial=bool(nontriv), sample={"base": b["name"], "model": m and m["verdict"], "impl": ro["outcome"]})
        ctx.traces += 1
        expect_ok = (m is None) or m["verdict"] == "ok"
        if m is not None:
            ctx.hyp_checked += 1
            ctx.hyp_held += int(m.get("wf") == "1")
            if m.get("wf") != "1":
                ctx.brk("correspondence", "matrix representation invariant (matricesWF) fails on a real framework", base=b["name"])
        if b["origin"] == "generated" and not expect_ok:
            ctx.brk("correspondence", f"generator produced a framework the rule model rejects: {m['verdict']}", seed=b["name"])
            continue
        replay = {"kind": "framework", "base": b["name"], "mutation": "none", "expect": "accept" if expect_ok else "reject", "spec": b["spec"] if b["origin"] == "generated" else None, "path": b["path"],
                  "observed": ro, "script": fw_script() if b["origin"] == "generated" else f"import atomica as at; at.ProjectFramework('{b['path']}')"}
        if expect_ok:
            if ro["outcome"] == "accept":
                ctx.count(f"base.{b['origin']}.accept")
                if ro["chain"] == "ok":
                    ctx.count("chain.ok")
                    if b["origin"] == "generated" and any(p.get("timed") == "y" and isinstance(p.get("function"), str) for p in b["spec"]["pars"]):
                        ctx.count("timedConstant.generated_base_runs")
                elif ro["chain"] is not None:
                    ch = ro["chain"]
                    rec.violation({"api": "accepted-framework-chain", "mutation": "none", "stage": ch["stage"], "outcome": ch["outcome"], "where": ch["where"]},
                                  f"framework {b['name']} is accepted but the chain blank databook -> read back -> fill -> build -> run fails at {ch['stage']}: {ch['outcome']}: {ch['msg'][:200]}", replay)
                    if ch["stage"] in ("run_sim", "databook", "Project", "filled.validate"):
                        pass
                if b["spec"] is not None:
                    usable.append(b)
            elif ro["outcome"] in DEDICATED["framework"] and OUTSIDE_MODEL.search(ro["msg"]) and b["origin"] == "library":
                ctx.count("outside_model.reject")
            else:
                kind = "rejected-valid" if ro["outcome"] in DEDICATED["framework"] else ro["outcome"]
                rec.violation({**key_base, "outcome": kind, "where": ro["where"]},
                              f"valid framework {b['name']} (rule model: ok) is not accepted: {ro['outcome']} at {ro['where']}: {ro['msg'][:200]}", replay)
        else:
            # a library/test file that the model rejects (the bad-cascade fixtures...): the reader must reject it with a dedicated class
            if ro["outcome"] in DEDICATED["framework"]:
                ctx.count("base.library.reject.dedicated")
                _compare_rule(ctx, m, ro, None, b["name"])
            elif ro["outcome"] == "accept":
                rec.violation({**key_base, "outcome": "accepted", "rule": m["verdict"]}, f"framework file {b['name']} breaks rule {m['verdict']} but is accepted", replay)
            else:
                rec.violation({**key_base, "outcome": ro["outcome"], "where": ro["where"]}, f"framework file {b['name']} breaks rule {m['verdict']}; reader raised {ro['outcome']} at {ro['where']}: {ro['msg'][:160]}", replay)

    # a library base is only mutated if its regenerated (unmutated) spec behaves like the original file
    lib_usable = [b for b in usable if b["origin"] == "library"]
    regen = pmap(eval_framework, [{"spec": b["spec"], "chain": None} for b in lib_usable], nproc)
    for b, ro in zip(lib_usable, regen):
        if ro["outcome"] != "accept":
            usable.remove(b)
            ctx.count("library.regen_differs")
            ctx.notes.append(f"regenerated {b['name']} is not accepted ({ro['outcome']}: {ro['msg'][:100]}); not used as a mutation base")
    ctx.count("base.usable_for_mutation", len(usable))
    ctx.count("base.blocked", len(bases) - len(usable))

    # ---- mutations
    cases = []
    for b in usable:
        cat = MU.CATALOGUE
        if ctx.quick and b["origin"] == "library":
            cat = r.sample(MU.CATALOGUE, 36)
        for e in cat:
            if e.get("sparse") and int(hashlib.sha256((b["name"] + e["id"]).encode()).hexdigest()[:4], 16) % (6 if ctx.quick else 2):
                continue  # per-value entries (each keyword, each symbol): every value on some base, not on every base
            rr = random.Random(int(hashlib.sha256((b["name"] + e["id"] + str(ctx.seed)).encode()).hexdigest()[:8], 16))
            m = MU.apply(e, b["spec"], rr)
            if m is None:
                ctx.count("mut.not_applicable")
                continue
            cases.append((b, e, m))
    mvs = model_verdicts(ctx, [m if e["model"] else None for (_, e, m) in cases])
    chain_budget = ctx.n(40, 600)
    tasks = []
    for (b, e, m) in cases:
        want_chain = False
        if e["expect"] == "accept" and e["runs"] and b["origin"] == "generated" and (chain_budget > 0 or e["id"] == "timed.constant_function"):
            want_chain = True  # (a timed parameter with a constant function must always be shown to build and run)
            chain_budget -= 1
        tasks.append({"spec": m, "chain": "full" if want_chain else None})
    t0 = time.time()
    res = pmap(eval_framework, tasks, nproc)
    ctx.extra["t_mutations_s"] = round(time.time() - t0, 1)
    recheck = []
    for (b, e, m), mvd, ro in zip(cases, mvs, res):
        mid = e["id"]
        key = {"api": "ProjectFramework", "mutation": mid}
        ctx.case({"base": b["name"], "mutation": mid}, nontrivial=(e["expect"] == "reject") or spec_features(m), sample=None)
        ctx.traces += 1
        replay = {"kind": "framework", "base": b["name"], "mutation": mid, "expect": e["expect"], "rule": e["rule"], "cls": e["cls"], "spec": m, "observed": ro, "script": fw_script()}
        # catalogue vs model
        if e["model"] and mvd is not None:
            exp = "ok" if e["expect"] == "accept" else "err:" + str(e["rule"])
            if e["rule"] is None and e["expect"] == "reject":
                pass
            elif mvd["verdict"] != exp:
                ctx.brk("correspondence", f"catalogue verdict {exp} but rule model says {mvd['verdict']} for mutation {mid}", base=b["name"], mutation=mid)
                continue
            else:
                ctx.count("model.catalogue_agree")
            if mvd.get("timedCurrent") and mvd["verdict"] == "err:timedSameGroup":
                ctx.count("timed.current_" + ("rejects" if mvd["timedCurrent"].startswith("err") else "accepts"))
        if e["expect"] == "reject":
            if ro["outcome"] in DEDICATED["framework"]:
                ctx.count("mut.reject.dedicated")
                if e["rule"] == "timedVarying" and impl_rule(ro["msg"]) == "timedVarying":
                    ctx.count("timedVarying.rejected")
                if e["rule"]:
                    _compare_rule(ctx, {"verdict": "err:" + e["rule"]}, ro, mid, b["name"])
            elif ro["outcome"] == "accept":
                recheck.append((b, e, m, replay))
            else:
                rec.violation({**key, "outcome": ro["outcome"], "where": ro["where"]},
                              f"mutation {mid} of {b['name']} (expected {e['cls']}{', rule ' + e['rule'] if e['rule'] else ''}) raised {ro['outcome']} at {ro['where']}: {ro['msg'][:160]}", replay)
        else:
            if ro["outcome"] == "accept":
                ctx.count("mut.accept.ok")
                if ro["chain"] == "ok":
                    ctx.count("chain.ok")
                    if mid == "timed.constant_function":
                        ctx.count("timedConstant.accepted_runs")
                elif ro["chain"] is not None:
                    ch = ro["chain"]
                    rec.violation({"api": "accepted-framework-chain", "mutation": mid, "stage": ch["stage"], "outcome": ch["outcome"], "where": ch["where"]},
                                  f"mutation {mid} of {b['name']} keeps the framework valid and it is accepted, but the chain fails at {ch['stage']}: {ch['outcome']}: {ch['msg'][:160]}", replay)
            elif ro["outcome"] in DEDICATED["framework"] and OUTSIDE_MODEL.search(ro["msg"]) and "duration groups" in ro["msg"]:
                ctx.count("outside_model.junction_groups")
            else:
                kind = "rejected-valid" if ro["outcome"] in DEDICATED["framework"] else ro["outcome"]
                rec.violation({**key, "outcome": kind, "where": ro["where"]},
                              f"mutation {mid} of {b['name']} keeps the framework valid (catalogue and rule model) but the reader raised {ro['outcome']} at {ro['where']}: {ro['msg'][:160]}", replay)
    # silently accepted: does it at least run?  (evidence for the report; the acceptance itself is the violation)
    tasks = [{"spec": m, "chain": "full"} for (b, e, m, _) in recheck[: ctx.n(40, 400)]]
    res = pmap(eval_framework, tasks, nproc)
    for (b, e, m, replay), ro in zip(recheck, res + [None] * (len(recheck) - len(res))):
        mid = e["id"]
        runs = ""
        if ro is not None and ro["chain"] is not None:
            runs = "; it then builds and runs" if ro["chain"] == "ok" else f"; then fails at {ro['chain']['stage']} with {ro['chain']['outcome']}: {ro['chain']['msg'][:100]}"
            replay = {**replay, "chain": ro["chain"]}
        rec.violation({"api": "ProjectFramework", "mutation": mid, "outcome": "accepted"},
                      f"mutation {mid} of {b['name']} breaks a documented rule ({e['rule'] or 'catalogue'}) but the framework is silently accepted{runs}", replay)


ORDER_OK = {
    # a mutation can break a later rule of the same file as well; these pairs are order effects, not disagreements
    ("initSourceSink", "cascadeNotNested"), ("characCyclic", "cascadeNotNested"), ("compFlags", "compSwSourceSink"),
}


def _compare_rule(ctx, m, ro, mid, base):
    ir = impl_rule(ro["msg"])
    if ir is None:
        ctx.count("rule.unmapped")
        um = ctx.extra.setdefault("unmapped_messages", {})
        k = re.sub(r'"[^"]*"', '"…"', ro["msg"])[:90]
        um[k] = um.get(k, 0) + 1
        return
    want = m["verdict"].split(":", 1)[1] if ":" in m["verdict"] else m["verdict"]
    if want in ir.split("|"):
        ctx.count("rule.match")
    elif (want, ir) in ORDER_OK:
        ctx.count("rule.order_effect")
    else:
        ctx.count("rule.differs")
        ctx.brk("correspondence", f"rule model reports {want}, implementation reports {ir} ({ro['msg'][:120]})", mutation=mid, base=base)


# ----------------------------------------------------------------------------------------------
# 3. databooks and program books
# ----------------------------------------------------------------------------------------------
LIB_BOOKS = ["sir", "udt", "tb_simple", "usdt", "hypertension", "diabetes", "cervicalcancer", "hiv", "tb", "udt_dyn", "hiv_dyn", "tb_simple_dyn", "hypertension_dyn", "combined", "service", "dt", "sir_vaccine"]


def run_books(ctx, rec, nproc):
    import random

    r = ctx.rng
    names = LIB_BOOKS if not ctx.quick else r.sample(LIB_BOOKS[:7], 2) + r.sample(LIB_BOOKS[7:], 1)
    tasks = [{"base": {"kind": "library", "name": n}, "seed": ctx.seed, "progbook": True} for n in names]
    for k in range(ctx.n(2, 12)):
        sd = ctx.seed * 100003 + 5000 + k
        tasks.append({"base": {"kind": "generated", "name": f"gen{sd}", "spec": G.gen_valid(random.Random(sd))}, "seed": ctx.seed + k, "progbook": False})
    t0 = time.time()
    allres = pmap(eval_books, tasks, nproc)
    ctx.extra["t_books_s"] = round(time.time() - t0, 1)
    for task, results in zip(tasks, allres):
        bname = task["base"]["name"]
        for x in results:
            book = x["book"]
            short = {"databook": "db", "progbook": "pb", "base": "db"}[book]
            api = {"databook": "Project.load_databook", "progbook": "Project.load_progbook", "base": "book-base"}[book]
            key = {"api": api, "mutation": x["mutation"]}
            replay = {"kind": "book", "book": book, "base": task["base"] if task["base"]["kind"] == "generated" else {"kind": "library", "name": bname}, "seed": task["seed"], "mutation": x["mutation"], "expect": x["expect"],
                      "observed": {k: x[k] for k in ("outcome", "where", "msg")}}
            if not x["applied"]:
                ctx.count(f"{short}.not_applicable" if x["outcome"] == "n/a" else f"{short}.mutation_error")
                if x["outcome"] == "mutation-error":
                    ctx.notes.append(f"{book} mutation {x['mutation']} on {bname} raised {x['msg']}"[:200])
                continue
            ctx.case({"base": bname, "book": book, "mutation": x["mutation"]}, nontrivial=x["expect"] == "reject", sample=None)
            ctx.traces += 1
            ded = DEDICATED["databook" if book != "progbook" else "progbook"]
            if x["expect"] == "reject":
                if x["outcome"] in ded:
                    ctx.count(f"{short}.reject.dedicated")
                elif x["outcome"] == "accept":
                    rec.violation({**key, "outcome": "accepted"}, f"{book} mutation {x['mutation']} of {bname} breaks a documented rule but the file is accepted and the model runs", replay)
                else:
                    rec.violation({**key, "outcome": x["outcome"], "where": x["where"]}, f"{book} mutation {x['mutation']} of {bname} (expected {sorted(ded)[0]}) raised {x['outcome']} at {x['where']}: {x['msg'][:160]}", replay)
            else:
                if x["outcome"] == "accept":
                    ctx.count(f"{short}.accept.ok")
                else:
                    kind = "rejected-valid" if x["outcome"] in ded else x["outcome"]
                    rec.violation({**key, "outcome": kind, "where": x["where"]}, f"valid {book} ({x['mutation']} of {bname}) is not accepted/runnable: {x['outcome']} at {x['where']}: {x['msg'][:160]}", replay)


# ----------------------------------------------------------------------------------------------
def probe_popname_collision(ctx, rec):
    """A population whose code name is also the code name of a framework quantity -- with or WITHOUT a databook page -- must be refused with the dedicated error.
    Built through the public API (rename_pop on a filled library databook, exported and read back), so that nothing else in the file is wrong."""
    import atomica as at
    import sciris as sc

    for name in (["udt", "tb_simple"] if ctx.quick else ["udt", "tb_simple", "hypertension", "usdt", "hiv"]):
        try:
            P = at.demo(name, do_run=False)
        except Exception:
            continue
        fw = P.framework
        groups = {"with-page": [], "without-page": []}
        for df in (fw.comps, fw.characs, fw.pars):
            for c in df.index:
                if len(str(c)) > 1:
                    groups["without-page" if BK._isna(df.at[c, "databook page"]) else "with-page"].append(c)
        for kind, cands in groups.items():
            if not cands:
                continue
            code = ctx.rng.choice(sorted(cands))
            d = sc.dcp(P.data)
            old = list(d.pops.keys())[0]
            try:
                d.rename_pop(old, code, d.pops[old]["label"])
                ss = d.to_spreadsheet()
            except Exception as e:
                ro = describe(e)
            else:
                ro = _try_databook(fw, ss, run=False)
            ctx.count("popname." + kind)
            ctx.case({"probe": "population-code-name-collision", "demo": name, "kind": kind}, nontrivial=True)
            key = {"api": "ProjectData", "mutation": "population.renamed_to_code_name." + kind}
            replay = {"kind": "popname", "demo": name, "code": code, "old": old}
            if ro["outcome"] == "accept":
                rec.violation({**key, "outcome": "accepted"}, f"{name}: population {old!r} renamed to {code!r}, the code name of a framework quantity {kind.replace('-', ' a databook ')}: the databook is accepted (population names must differ from every framework code name)", replay)
            elif ro["outcome"] not in DEDICATED["databook"]:
                rec.violation({**key, "outcome": ro["outcome"], "where": ro["where"]}, f"{name}: population renamed to the framework code name {code!r}: raised {ro['outcome']} at {ro['where']}: {ro['msg'][:160]}", replay)


def run(ctx):
    import atomica as at  # noqa

    _quiet()
    nproc = max(1, min(14, (os.cpu_count() or 2) - 2))
    rec = Rec(ctx)
    run_errors(ctx, rec)
    run_frameworks(ctx, rec, nproc)
    run_books(ctx, rec, nproc)
    probe_popname_collision(ctx, rec)
    ctx.extra["breaks_sample"] = [{k: (v if k != "log_tail" else v[-300:]) for k, v in b.items()} for b in ctx.breaks[:12]]
    ctx.extra["violation_keys"] = sorted(rec.n.items(), key=lambda kv: -kv[1])[:80]
    ctx.exhaustive = False


def replay(ctx, data):
    """Re-evaluate one recorded failing input on the current tree.  Exit code 1 if the implementation still fails the property."""
    import random

    _quiet()
    rp = data["replay"]
    kind = rp.get("kind")
    if kind == "errors_fmt":
        rows, _ = EF.table(core.REPO)
        bad = [r2 for r2 in rows if not EF.wellformed(r2)]
        print("malformed rows now:", bad)
        if rp.get("spec"):
            ro = eval_framework({"spec": rp["spec"]})
            print("replay framework:", ro["outcome"], ro["where"], ro["msg"][:200])
            return 0 if (ro["outcome"] in DEDICATED["framework"] and not bad) else 1
        return 1 if bad else 0
    if kind == "popname":
        import atomica as at
        import sciris as sc

        P = at.demo(rp["demo"], do_run=False)
        d = sc.dcp(P.data)
        try:
            d.rename_pop(rp["old"], rp["code"], d.pops[rp["old"]]["label"])
            ro = _try_databook(P.framework, d.to_spreadsheet(), run=False)
        except Exception as e:
            ro = describe(e)
        print("replay:", ro)
        return 0 if ro["outcome"] in DEDICATED["databook"] else 1
    if kind == "framework":
        task = {"spec": rp["spec"], "chain": "full"} if rp.get("spec") else {"path": rp["path"], "chain": "blank"}
        ro = eval_framework(task)
        print("expect:", rp["expect"], "| observed:", ro["outcome"], ro["where"], ro["msg"][:300], "| chain:", ro["chain"])
        if rp.get("spec") and rp.get("mutation") not in (None, "none"):
            try:
                print("model:", core.drive([G.abstract(rp["spec"])]))
            except Exception as e:  # noqa
                print("model: not applicable", repr(e)[:100])
        if rp["expect"] == "reject":
            return 0 if ro["outcome"] in DEDICATED["framework"] else 1
        return 0 if (ro["outcome"] == "accept" and ro["chain"] == "ok") else 1
    if kind == "book":
        only = None if rp["mutation"] == "none" else [rp["mutation"]]
        res = eval_books({"base": rp["base"], "seed": rp["seed"], "progbook": rp["book"] == "progbook", "only": only or ["<none>"]})
        bad = 0
        for x in res:
            if x["mutation"] != rp["mutation"] or x["book"] != rp["book"]:
                if x["mutation"] == "none" and x["outcome"] != "accept":
                    print("base (valid framework and book) not accepted:", x)
                    bad += 1
                continue
            print(x)
            ded = DEDICATED["databook" if rp["book"] != "progbook" else "progbook"]
            good = (x["outcome"] in ded) if rp["expect"] == "reject" else (x["outcome"] == "accept")
            bad += 0 if good else 1
        return 1 if bad else 0
    print(json.dumps(data, indent=1)[:3000])
    return 0


if __name__ == "__main__":
    core.main(sys.modules[__name__])
