"""
C15: projects for the optimisation / calibration problems.

* generated: a small SIR-like framework built without Excel (compartments sus/inf/rec + sink dead, characteristic
  alive, probabilities foi/recr/dr), 1-3 populations, a databook with time-specific data for some compartments and a
  ProgramSet with 2-4 programs acting on recr / foi.  Every number comes from the case spec (a plain dict) so that a
  case replays exactly.
* library: at.demo(<name>) for the library models that load in this environment.
"""
from __future__ import annotations

import functools
import logging

import numpy as np

LIB_QUICK = ["udt", "usdt", "hiv", "tb_simple"]
LIB_THOROUGH = ["udt", "usdt", "hiv", "tb_simple", "hypertension", "hypertension_dyn", "hiv_dyn", "tb_simple_dyn", "diabetes", "cervicalcancer", "tb"]


def _df(records, columns):
    import pandas as pd

    return pd.DataFrame.from_records(records, columns=columns).astype(object)


@functools.lru_cache(maxsize=None)
def gen_framework():
    import atomica as at
    import pandas as pd

    fw = at.ProjectFramework()
    fw.sheets["about"] = [_df([("gen", "generated SIR")], ["name", "description"])]
    fw.sheets["databook pages"] = [_df([("dp", "Data")], ["datasheet code name", "datasheet title"])]
    comps = [
        ("sus", "Susceptible", "n", "n", "n", "dp", 100, None),
        ("inf", "Infected", "n", "n", "n", "dp", 10, None),
        ("rec", "Recovered", "n", "n", "n", "dp", 0, None),
        ("dead", "Dead", "n", "y", "n", None, None, None),
    ]
    fw.sheets["compartments"] = [_df(comps, ["code name", "display name", "is source", "is sink", "is junction", "databook page", "default value", "duration group"])]
    characs = [("alive", "Alive", "sus,inf,rec", None, None, None), ("everinf", "Ever infected", "inf,rec", None, None, None)]
    fw.sheets["characteristics"] = [_df(characs, ["code name", "display name", "components", "denominator", "databook page", "default value"])]
    pars = [
        ("foi", "Force of infection", "probability", None, 0.1, 0, 1, "dp", "y", None),
        ("recr", "Recovery rate", "probability", None, 0.2, 0, 1, "dp", "y", None),
        ("dr", "Death rate", "probability", None, 0.05, 0, 1, "dp", "y", None),
    ]
    fw.sheets["parameters"] = [_df(pars, ["code name", "display name", "format", "function", "default value", "minimum value", "maximum value", "databook page", "targetable", "timescale"])]
    names = ["sus", "inf", "rec", "dead"]
    T = pd.DataFrame(None, index=names, columns=names, dtype=object)
    T.loc["sus", "inf"] = "foi"
    T.loc["inf", "rec"] = "recr"
    T.loc["inf", "dead"] = "dr"
    T = T.reset_index().rename(columns={"index": "Transition matrix"}).astype(object)
    fw.sheets["transitions"] = [T]
    fw._validate()
    return fw


def gen_model_spec(rng) -> dict:
    """all random choices of a generated project, as plain data"""
    npops = rng.choice([1, 2, 2, 3])
    pops = ["aa", "bb", "cc"][:npops]
    dt = rng.choice([1.0, 0.5, 0.25, 0.2])
    start = 2015.0
    end = rng.choice([2021.0, 2022.0, 2024.0])
    if dt == 0.2:
        # a step that is not a binary fraction, and end years for which (end - start)/dt evaluates a few ulp above an integer: re-assigning the end year
        # (what calibrate and run_optimization do when they restore the settings) must give the same grid again
        end = rng.choice([2021.2, 2021.4, 2022.0])
    data_end = rng.choice([2018, 2019, 2020])
    spec = {"kind": "gen", "pops": pops, "dt": dt, "start": start, "end": end, "data_years": list(range(2015, data_end + 1)), "pop": {}, "progs": {}, "covouts": []}
    for p in pops:
        sus0 = rng.choice([500.0, 1000.0, 2000.0])
        inf0 = rng.choice([20.0, 50.0, 100.0])
        foi = rng.choice([0.05, 0.1, 0.15])
        recr = rng.choice([0.1, 0.2, 0.3])
        dr = rng.choice([0.02, 0.05])
        # "observed" infections: a noisy trend; some populations have no time data for some quantities
        inf_data = {str(y): round(inf0 * (1 + 0.25 * (y - 2015)) * rng.choice([0.8, 1.0, 1.3]), 3) for y in spec["data_years"]} if rng.random() < 0.85 else {"2015": inf0}
        rec_data = {str(y): round(inf0 * 0.2 * (y - 2015) * rng.choice([0.5, 1.0, 2.0]), 3) for y in spec["data_years"]} if rng.random() < 0.6 else {"2015": 0.0}
        if rng.random() < 0.4:
            inf_data[str(int(end) + 3)] = inf0 * 2.0  # a data point after the end of the simulation (must be ignored)
        spec["pop"][p] = {"sus": {"2015": sus0}, "inf": inf_data, "rec": rec_data, "foi": foi, "recr": recr, "dr": dr}
    nprog = rng.choice([2, 3, 3, 4])
    for i in range(nprog):
        name = f"p{i + 1}"
        spec["progs"][name] = {
            "target_pops": pops if rng.random() < 0.7 else [rng.choice(pops)],
            "target_comps": ["inf"] if i % 2 == 0 else ["sus"],
            "spend": [rng.choice([0.0, 50.0, 100.0, 200.0, 400.0]), rng.choice([50.0, 100.0, 300.0])],
            "unit_cost": rng.choice([1.0, 2.0, 5.0]),
        }
        # every third program carries a capacity constraint below what its spending would buy (decided from the name and spending, so the random stream is unchanged)
        d_ = spec["progs"][name]
        if (i + int(d_["spend"][1])) % 3 == 0:
            d_["capacity"] = 0.25 * d_["spend"][1] / d_["unit_cost"]
    for p in pops:
        treat = {n: rng.choice([0.4, 0.6, 0.9]) for n, d in spec["progs"].items() if d["target_comps"] == ["inf"] and p in d["target_pops"]}
        prev = {n: rng.choice([0.01, 0.03, 0.06]) for n, d in spec["progs"].items() if d["target_comps"] == ["sus"] and p in d["target_pops"]}
        if treat:
            spec["covouts"].append(["recr", p, treat, spec["pop"][p]["recr"]])
        if prev:
            spec["covouts"].append(["foi", p, prev, spec["pop"][p]["foi"]])
    return spec


def build_generated(spec: dict):
    import atomica as at

    fw = gen_framework()
    pops = {p: p.upper() for p in spec["pops"]}
    D = at.ProjectData.new(fw, np.array(spec["data_years"], dtype=float), pops=pops, transfers=0)
    for p, d in spec["pop"].items():
        for q in ("sus", "inf", "rec"):
            for y, v in d[q].items():
                D.tdve[q].ts[p].insert(float(y), float(v))
        for q in ("foi", "recr", "dr"):
            D.tdve[q].ts[p].assumption = float(d[q])
    P = at.Project(framework=fw, databook=D, do_run=False, sim_start=spec["start"], sim_end=spec["end"], sim_dt=spec["dt"])
    pg = at.ProgramSet.new(tvec=np.array([2015.0, 2018.0]), progs={n: n.upper() for n in spec["progs"]}, framework=fw, data=D)
    for n, d in spec["progs"].items():
        prog = pg.programs[n]
        prog.target_pops = list(d["target_pops"])
        prog.target_comps = list(d["target_comps"])
        prog.spend_data = at.TimeSeries([2015.0, 2018.0], [float(x) for x in d["spend"]], units="$/year")
        prog.unit_cost = at.TimeSeries([2015.0], [float(d["unit_cost"])], units="$/person/year")
        prog.capacity_constraint = at.TimeSeries(units="people/year")
        if d.get("capacity") is not None:   # a constraint that actually limits the coverage reached with the spending above
            prog.capacity_constraint = at.TimeSeries([2015.0], [float(d["capacity"])], units="people/year")
        prog.saturation = at.TimeSeries(units="N.A.")
    for par, pop, progs, baseline in spec["covouts"]:
        pg.covouts[(par, pop)] = at.programs.Covout(par, pop, dict(progs), baseline=baseline)
    pg.validate()
    pg.name = "default"
    P.progsets.append(pg)
    return P


@functools.lru_cache(maxsize=None)
def _lib_pickled(name: str):
    import pickle

    import atomica as at

    lvl = at.logger.level
    at.logger.setLevel(logging.ERROR)
    try:
        P = at.demo(name, do_run=False)
    finally:
        at.logger.setLevel(lvl)
    return pickle.dumps(P)


def build_library(name: str):
    import pickle

    return pickle.loads(_lib_pickled(name))


def build_project(mspec: dict):
    if mspec["kind"] == "gen":
        return build_generated(mspec)
    P = build_library(mspec["name"])
    if "end" in mspec:
        P.settings.update_time_vector(end=mspec["end"])
    return P
