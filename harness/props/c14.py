"""
C14 -- Constrained allocations meet the total and every bound, or are rejected.

Correspondence (mode A) of atomica/optimization.py with lean/AtomicaModel/Alloc.lean, SLSQP being an oracle:
`scipy.optimize.minimize` is wrapped so that its answer is recorded and handed to the Lean driver.

  part 1  `constrain_sum_bounded`  direct calls                       <-> `constrain spec|cur`
  part 2  generated optimisations (plain / paired / package adjustments, TotalSpendConstraint):
          `Optimization.get_hard_constraints`                        <-> `hardcon`
          `SpendingPackageAdjustment.update_instructions`            <-> `package update`
          `SpendingPackageAdjustment.set_total_spend`                <-> `package settotal`
          `Optimization.constrain_instructions` (per constrained year) <-> `constrain year`
  part 3  the real `optimize()` on a stub model: order of events     <-> `hardcon trace`, end-to-end oracle

The implementation is compared with BOTH variants of the model:
  * `cur`  (the code as it is): must agree everywhere -- shows the model is faithful;
  * `spec` (the property): every disagreement is examined with the direct oracle (the property's own predicate evaluated
    on what the implementation returned) and reported as a violation with a specific key when the oracle fails.
"""
import copy
import math
import zlib
import os
import random
import sys
from fractions import Fraction

import numpy as np

from vlib import core
from vlib.core import q, unq

PROPERTY = "C14"
LEAN_MODS = ["AtomicaProofs.Properties.C14"]
THEOREMS = [
    "Atomica.C14.constrain_post",
    "Atomica.C14.constrain_current_post",
    "Atomica.C14.constrain_post_1e6_partial",
    "Atomica.C14.constrain_gap",
    "Atomica.C14.constrain_idempotent",
    "Atomica.C14.constrain_current_idempotent",
    "Atomica.C14.constrain_idempotent_zero",
    "Atomica.C14.s_zero",
    "Atomica.C14.constrain_signals",
    "Atomica.C14.constrain_solver_failure",
    "Atomica.C14.precheck_exact",
    "Atomica.C14.hard_feasible",
    "Atomica.C14.hard_reports",
    "Atomica.C14.hard_bounds_sum",
    "Atomica.C14.package_shares",
    "Atomica.C14.set_total_sum",
    "Atomica.C14.set_total_keeps_shares",
    "Atomica.C14.set_total_share_bounds",
    "Atomica.C14.set_total_current_gap",
    "Atomica.C14.set_total_current_eq",
    "Atomica.C14.constrain_year_post",
    "Atomica.C14.constrain_year_current_gap",
    "Atomica.C14.hard_reports_first",
]
TRUSTED = [
    "SLSQP (scipy.optimize.minimize) is an oracle: its recorded answer (success flag, x) is an input of the model; whether a feasible proposal is ever wrongly rejected is not modelled",
    "harness flattening of Adjustment objects into model entries (year, item, rel, lower, upper, current spend) and of a constrained year into items",
    "bounds on returned floats are checked with a slack of 1e-12 relative (lb/s*s need not round back to lb); sums with the property's 1e-6 relative",
    "part 3 runs the real optimize()/ASD with atomica.optimization.Model replaced by a stub (the demo projects do not load in this environment); ProgramSet.get_alloc is a stub reading the instructions",
    "lower bounds are finite (spending); upper bounds finite or +inf; overlapping adjustments on one program in one year are outside the modelled domain (the code's own comment calls it unsupported)",
]
ASSUMPTIONS = ["proposals are non-negative spending vectors; totals >= 0; 0 <= lb <= ub <= inf; at most one adjustment reaches a program in a year"]
RULE = (
    "part 1: random constrain_sum_bounded calls over regimes (wide/bounded/boundary-total/infeasible/all-zero/single-nonzero/already-satisfying/"
    "equal-bounds/s=0/tiny-lower-bound), 1-10 programs, scales 1e-3..1e9, integer/dyadic/float values; part 2: random optimisations "
    "(1-10 programs, 1-3 years, plain abs/rel, paired, package adjustments, explicit/implicit totals, budget factors) x random proposals; "
    "non-trivial = the solver was reached, or a tie/boundary/zero regime, or a package/paired adjustment or several years are involved"
)
EXPECTED_BRANCHES = [
    "constrain.early", "constrain.solver", "constrain.failed", "constrain.zero_total", "constrain.already_satisfying",
    "constrain.all_zero", "constrain.single_nonzero", "constrain.equal_bounds", "constrain.inf_bounds", "constrain.n1", "constrain.n10",
    "hard.ok", "hard.unresolvable_min", "hard.unresolvable_max", "hard.rel", "hard.budget_factor", "hard.multi_year",
    "year.plain", "year.package", "year.paired", "package.update", "package.settotal", "trace.full", "trace.unresolvable",
]

TOL = 1e-6          # the property's relative tolerance on the total
SLACK = 1e-12       # float slack on bounds / on the tolerance itself
K_SUM = {"api": "constrain_sum_bounded", "case": "sum-off-by-more-than-1e-6"}
K_ZERO = {"api": "constrain_sum_bounded", "case": "s=0"}
K_PKG = {"api": "SpendingPackageAdjustment.set_total_spend", "case": "zero-current-total"}
K_NAN = {"api": "Adjustable.get_hard_bounds", "case": "rel-inf-bound-times-zero-spend"}


# ------------------------------------------------------------------------------------------------
# instrumentation of the implementation
# ------------------------------------------------------------------------------------------------
class Rec:
    """Wraps scipy.optimize.minimize and atomica.optimization.constrain_sum_bounded (recording only)."""

    installed = False
    solver_calls = []
    csb_calls = []

    @classmethod
    def install(cls):
        if cls.installed:
            return
        import scipy.optimize as so
        import atomica.optimization as ao

        cls.orig_min = so.minimize
        cls.orig_csb = ao.constrain_sum_bounded

        def minimize(fun, x0, *a, **k):
            res = cls.orig_min(fun, x0, *a, **k)
            cls.solver_calls.append({"x0": np.array(x0, dtype=float).tolist(), "success": bool(res["success"]), "x": np.array(res["x"], dtype=float).tolist(),
                                     "status": int(res.get("status", -1)), "nit": int(res.get("nit", -1))})
            return res

        def csb(x, s, lb, ub):
            n0 = len(cls.solver_calls)
            rec = {"x": np.array(x, dtype=float).tolist(), "s": float(s), "lb": np.array(lb, dtype=float).tolist(), "ub": np.array(ub, dtype=float).tolist()}
            cls.csb_calls.append(rec)
            try:
                y = cls.orig_csb(x, s, lb, ub)
                rec["outcome"] = ["ok", np.array(y, dtype=float).tolist()]
                return y
            except BaseException as e:
                rec["outcome"] = classify_exc(e)
                raise
            finally:
                rec["solver"] = cls.solver_calls[n0] if len(cls.solver_calls) > n0 else None

        so.minimize = minimize
        ao.constrain_sum_bounded = csb
        cls.csb = staticmethod(csb)
        cls.installed = True

    @classmethod
    def reset(cls):
        cls.solver_calls.clear()
        cls.csb_calls.clear()


def classify_exc(e):
    import atomica.optimization as ao

    if isinstance(e, ao.FailedConstraint):
        return ["failed"]
    if isinstance(e, AssertionError):
        return ["assert", str(e)[:120]]
    return ["other", type(e).__name__, str(e)[:120]]


def call_csb(x, s, lb, ub):
    """One recorded call of the real constrain_sum_bounded."""
    Rec.install()
    Rec.reset()
    old = np.seterr(all="ignore")
    try:
        try:
            Rec.csb(np.array(x, dtype=float), float(s), np.array(lb, dtype=float), np.array(ub, dtype=float))
        except BaseException:
            pass
    finally:
        np.seterr(**old)
    return copy.deepcopy(Rec.csb_calls[0])


# ------------------------------------------------------------------------------------------------
# wire format
# ------------------------------------------------------------------------------------------------
def qs(v):
    return " ".join(q(a) for a in v)


def solver_tokens(sol):
    if sol is None:
        return "0"
    return f"1 {1 if sol['success'] else 0} " + qs(sol["x"])


def constrain_line(variant, rec):
    n = len(rec["x"])
    return f"constrain {variant} {n} {q(rec['s'])} {qs(rec['x'])} {qs(rec['lb'])} {qs(rec['ub'])} {solver_tokens(rec['solver'])}"


def has_nan(rec):
    return any(isinstance(v, float) and math.isnan(v) for v in [rec["s"]] + rec["x"] + rec["lb"] + rec["ub"]) or any(v == -math.inf for v in rec["lb"]) or any(math.isinf(v) for v in rec["x"] + [rec["s"]])


def parse_result(rep):
    """model reply -> (class, branch, [Fraction])"""
    t = rep.split()
    if t[0] == "ok":
        return "ok", t[1], [unq(a) for a in t[2:]]
    if t[0] in ("failed", "assert", "need-solver"):
        return t[0], None, None
    return "err", rep, None


# ------------------------------------------------------------------------------------------------
# exact helpers (Fractions) for the ambiguity tests and the direct oracle
# ------------------------------------------------------------------------------------------------
def F(x):
    return Fraction(x) if not (isinstance(x, float) and math.isinf(x)) else None


def early_margin(rec):
    """relative distance of the early-return test from flipping (exact arithmetic); None if not applicable"""
    s = F(rec["s"])
    if not s:
        return None
    xs = [F(v) for v in rec["x"]]
    sx = sum(xs)
    d = sx if sx != 0 else 1
    m = None
    for xi, l, u in zip(xs, rec["lb"], rec["ub"]):
        xh = xi / d
        for b in (F(l), F(u)):
            if b is None:
                continue
            bs = b / s
            ref = max(abs(xh), abs(bs))
            r = abs(xh - bs) / ref if ref else Fraction(0)
            m = r if m is None or r < m else m
    return float(m) if m is not None else None


def final_margin(rec, y, variant):
    s = Fraction(rec["s"])
    tot = sum(Fraction(v) for v in y)
    thr = Fraction(1, 10**6) * abs(s) if variant == "spec" else Fraction(1, 10**8) + Fraction(1, 10**5) * abs(s)
    return float(abs(abs(tot - s) - thr) / (abs(s) if s else 1))


def float_sum_exact(y):
    return sum(Fraction(v) for v in y)


# ------------------------------------------------------------------------------------------------
# part 1: constrain_sum_bounded
# ------------------------------------------------------------------------------------------------
REGIMES = ["wide", "bounded", "bounded", "boundary", "infeasible", "allzero", "single", "satisfying", "satisfying_float", "equal", "szero", "tinylb", "bounded_int"]


def gen_value(r, scale, style):
    if style == "int":
        return float(r.randint(0, 20)) * scale
    if style == "dyadic":
        return r.randint(0, 64) / 8.0 * scale
    return r.random() * scale * 10


def gen_constrain(r):
    regime = r.choice(REGIMES)
    n = r.choice([1, 2, 2, 3, 3, 4, 5, 6, 8, 10])
    style = r.choice(["int", "dyadic", "float", "float"])
    scale = r.choice([1.0, 1.0, 1.0, 1e-3, 1e3, 1e6, 1e9]) if style != "int" else r.choice([1.0, 1.0, 100.0, 1e6])
    x = [gen_value(r, scale, style) * r.choice([0, 1, 1, 1]) for _ in range(n)]
    lb = [0.0] * n
    ub = [math.inf] * n
    if regime in ("bounded", "bounded_int", "boundary", "infeasible", "equal", "tinylb", "satisfying", "satisfying_float"):
        for i in range(n):
            lb[i] = gen_value(r, scale, style) * r.choice([0, 0, 0.25, 0.5])
            w = gen_value(r, scale, style) * r.choice([0.5, 1, 2])
            ub[i] = math.inf if r.random() < 0.3 else lb[i] + w
    if regime == "equal":
        for i in range(n):
            if r.random() < 0.6:
                if math.isinf(ub[i]):
                    ub[i] = lb[i] + scale
                lb[i] = ub[i]
    lo = math.fsum(lb)
    hi = math.fsum(u for u in ub)
    hi_f = hi if math.isfinite(hi) else lo + scale * 10 * n
    u = r.random()
    s = lo + (hi_f - lo) * u
    if regime == "wide":
        s = gen_value(r, scale, style) * n + (scale if style != "int" else scale)
    elif regime == "boundary":
        s = r.choice([lo, hi_f]) if math.isfinite(hi) else lo
    elif regime == "infeasible":
        s = lo * r.choice([0.5, 0.9, 0.999999]) if (r.random() < 0.5 and lo > 0) else (hi * r.choice([1.000001, 1.1, 2.0]) if math.isfinite(hi) and hi > 0 else lo * 0.5)
    elif regime == "allzero":
        x = [0.0] * n
        if r.random() < 0.5:
            for i in range(n):
                lb[i] = 0.0
                ub[i] = math.inf if r.random() < 0.5 else gen_value(r, scale, style) + scale
            s = min(gen_value(r, scale, style) + scale, sum(ub) if all(map(math.isfinite, ub)) else math.inf)
    elif regime == "single":
        x = [0.0] * n
        x[r.randrange(n)] = gen_value(r, scale, style) + scale
        if r.random() < 0.5:
            j = r.randrange(n)
            ub[j] = gen_value(r, scale, style) + scale
    elif regime in ("satisfying", "satisfying_float"):
        x = []
        for i in range(n):
            top = ub[i] if math.isfinite(ub[i]) else lb[i] + 10 * scale
            c = r.choice(["lo", "hi", "mid", "mid"])
            x.append(lb[i] if c == "lo" else top if c == "hi" else lb[i] + (top - lb[i]) * (r.randint(0, 8) / 8 if style != "float" else r.random()))
        s = math.fsum(x) if regime == "satisfying" else float(np.array(x).sum())
    elif regime == "szero":
        s = 0.0
        if r.random() < 0.7:
            x = [0.0] * n
        if r.random() < 0.7:
            lb = [0.0] * n
    elif regime == "tinylb":
        x = [gen_value(r, scale, style) + scale for _ in range(n)]
        s = math.fsum(x) * r.choice([1.0, 1.0, 2.0])
        for i in range(n):
            lb[i] = 0.0
            ub[i] = math.inf
        for j in r.sample(range(n), r.randint(1, min(n, 3)) if n > 1 else 1):
            if n > 1:
                x[j] = 0.0
                lb[j] = s * 10 ** r.uniform(-9, -4.5)
        if all(v == 0 for v in x):
            x[0] = scale
    if s < 0 or not math.isfinite(s):
        s = scale
    if s == 0 and regime != "szero":
        s = scale
    return regime, x, s, lb, ub


def batch_constrain(args):
    """worker: generate `count` cases from `seed`, run the real code, return records"""
    seed, count = args
    import logging
    import atomica  # noqa

    atomica.logger.setLevel(logging.CRITICAL)
    r = random.Random(seed)
    out = []
    for _ in range(count):
        regime, x, s, lb, ub = gen_constrain(r)
        rec = call_csb(x, s, lb, ub)
        rec["regime"] = regime
        out.append(rec)
    return out


def oracle_constrain(ctx, rec, where="constrain_sum_bounded"):
    """The property evaluated directly on what the implementation did with one call.  Returns list of (key, what)."""
    bad = []
    s = rec["s"]
    x, lb, ub = rec["x"], rec["lb"], rec["ub"]
    out = rec["outcome"]
    n = len(x)
    feasible_as_is = all(l <= xi <= u for xi, l, u in zip(x, lb, ub)) and float_sum_exact(x) == Fraction(s)
    if out[0] == "other":
        key = K_ZERO if s == 0 else {"api": "constrain_sum_bounded", "case": "unexpected-exception", "type": out[1]}
        bad.append((key, f"{where}: raised {out[1]}: {out[2]} (neither an allocation nor FailedConstraint/AssertionError)"))
        return bad
    if s == 0:
        ctx.count("constrain.zero_total")
        zero_ok = all(l <= 0 <= u for l, u in zip(lb, ub))
        if out[0] == "ok":
            y = out[1]
            if not all(v == 0 for v in y) or not zero_ok:
                bad.append((K_ZERO, f"{where}: total 0 returned {y}"))
        elif out[0] == "assert" or (out[0] == "failed" and zero_ok and feasible_as_is):
            bad.append((K_ZERO, f"{where}(x={x}, s=0, lb={lb}, ub={ub}) -> {out[0]} ({out[1] if len(out) > 1 else ''}): division by the total; "
                        + ("the proposal already satisfies the constraints and must be returned unchanged" if feasible_as_is else "the total 0 is " + ("satisfiable by the zero allocation" if zero_ok else "unsatisfiable but the signal is an AssertionError on NaN"))))
        return bad
    if out[0] != "ok":
        if feasible_as_is:
            bad.append(({"api": "constrain_sum_bounded", "case": "satisfying-allocation-rejected"}, f"{where}: x={x} already sums to s={s} within the bounds but was rejected ({out[0]})"))
        return bad
    y = out[1]
    if len(y) != n or not all(math.isfinite(v) for v in y):
        bad.append(({"api": "constrain_sum_bounded", "case": "non-finite-result"}, f"{where}: returned {y}"))
        return bad
    tot = float_sum_exact(y)
    rel = abs(tot - Fraction(s)) / Fraction(s)
    if rel > Fraction(TOL) * (1 + Fraction(SLACK)) + Fraction(SLACK):
        # within what the code's own assertion accepts (numpy.isclose: 1e-8 + 1e-5*s) it is the known tolerance gap; beyond, something else
        key = K_SUM if abs(tot - Fraction(s)) <= Fraction(1, 10**8) + Fraction(1, 10**5) * Fraction(s) * (1 + Fraction(SLACK)) else {"api": "constrain_sum_bounded", "case": "sum-off-by-more-than-1e-5"}
        bad.append((key, f"{where}(x={x}, s={s}, lb={lb}, ub={ub}) returned {y}: sum {float(tot)!r} is off by {float(rel):.3e} relative (> 1e-6; the code accepts 1e-5, its `tolerance = 1e-6` is unused)"))
    for i, (v, l, u) in enumerate(zip(y, lb, ub)):
        sl = SLACK * max(abs(s), abs(l), abs(u) if math.isfinite(u) else 0.0)
        if v < l - sl or v > u + sl:
            bad.append(({"api": "constrain_sum_bounded", "case": "bound-violated"}, f"{where}: y[{i}]={v!r} outside [{l!r}, {u!r}] (x={x}, s={s})"))
            break
        if v < l or v > u:
            ctx.count("constrain.bound_rounding_dust")
    if feasible_as_is:
        ctx.count("constrain.already_satisfying")
        if not all(abs(v - xi) <= 1e-11 * max(abs(s), abs(xi)) for v, xi in zip(y, x)):
            bad.append(({"api": "constrain_sum_bounded", "case": "satisfying-allocation-changed"}, f"{where}: x={x} already satisfies the constraints but {y} was returned"))
    return bad


def values_close(model_vals, impl_vals, scale):
    return len(model_vals) == len(impl_vals) and all(core.close(m, v, scale=scale, rtol=1e-11) for m, v in zip(model_vals, impl_vals))


def verdict(ctx, where, agree, amb, viol, impl_desc, reps, replay):
    """Common policy.  The implementation must agree with the specification-shaped model.  If it does not, but it
    agrees with the model of the code as it is, that is a known departure of the code from the property and the direct
    oracle must have flagged it (violation); anything else is a correspondence break."""
    if agree["spec"]:
        ctx.count("agree.spec")
        return True
    ctx.disagreements_checked += 1
    if amb:
        ctx.ambiguous += 1
        ctx.count("ambiguous." + amb)
        return True
    if agree["cur"] and viol:
        ctx.count("departure." + viol[0][0]["case"])
        return False
    if viol:
        ctx.count("departure_unmodelled." + viol[0][0]["case"])
    ctx.brk("correspondence", f"{where}: implementation {impl_desc} vs model[spec] {reps['spec'][:140]} / model[cur] {reps['cur'][:140]}"
            + ("; follows the current-code model but the direct oracle finds no violation" if agree["cur"] else ""), replay=replay)
    return False


def compare_constrain(ctx, rec, rep_cur, rep_spec, where="constrain_sum_bounded", extra=None):
    """Compare one recorded call with both model variants; run the direct oracle.  Returns True if it agreed with the specification."""
    out = rec["outcome"]
    s = rec["s"]
    replay = {"kind": "constrain", "x": rec["x"], "s": s, "lb": rec["lb"], "ub": rec["ub"], "solver": rec["solver"], "impl": out, "model_cur": rep_cur, "model_spec": rep_spec,
              "script": f"import numpy as np; from atomica.optimization import constrain_sum_bounded as c; y=c(np.array({rec['x']}), {s!r}, np.array({rec['lb']}), np.array({rec['ub']})); print(y, y.sum(), abs(y.sum()-{s!r})/{s!r})".replace("inf", "np.inf")}
    if extra:
        replay.update(extra)
    viol = oracle_constrain(ctx, rec, where)
    for key, what in viol:
        ctx.violation(key, what, replay)
    impl_cls = out[0]
    reached = rec["solver"] is not None
    agree, amb = {}, None
    reps = {"cur": rep_cur, "spec": rep_spec}
    for variant, rep in reps.items():
        cls, branch, vals = parse_result(rep)
        ok = False
        if cls == "err":
            ctx.brk("correspondence", f"{where}: driver error {rep}", replay=replay)
            return False
        if cls == "ok" and impl_cls == "ok":
            ok = values_close(vals, out[1], s) and ((branch == "solver") == reached)
        elif cls == "failed":
            ok = impl_cls == "failed"
        elif cls == "assert":
            # either rejection signal is accepted for the specification; the current-code model must match exactly
            ok = impl_cls == "assert" if variant == "cur" else impl_cls in ("assert", "failed")
        agree[variant] = ok
        if ok or variant != "spec":
            continue
        # ambiguity: a branch decision within rounding of its threshold
        em = early_margin(rec)
        if (cls == "need-solver" and not reached) or (cls == "ok" and branch == "early" and reached) or (cls == "ok" and impl_cls == "ok" and (branch == "solver") != reached):
            if em is not None and em < 1e-12:
                amb = f"early_test.model_{cls}.impl_{impl_cls}"
        if amb is None and reached and rec["solver"]["success"] and impl_cls in ("ok", "assert", "failed") and cls in ("ok", "assert") and s:
            y = out[1] if impl_cls == "ok" else ([float(v) for v in vals] if vals is not None else None)
            if y is not None and final_margin(rec, y, "spec") < 2e-12:
                amb = f"final_test.model_{cls}.impl_{impl_cls}"
    return verdict(ctx, where, agree, amb, viol, str(out[:1] + [out[1][:4] if impl_cls == "ok" else out[1:]])[:200], reps, replay)


def run_constrain(ctx):
    total = ctx.n(2500, 50000)
    nb = 1 if ctx.quick else 32
    seeds = [(ctx.rng.getrandbits(31), total // nb) for _ in range(nb)]
    if ctx.quick:
        recs = [rec for a in seeds for rec in batch_constrain(a)]
    else:
        import multiprocessing as mp

        with mp.get_context("fork").Pool(min(16, nb)) as pool:
            recs = [rec for part in pool.map(batch_constrain, seeds) for rec in part]
    # a few fixed cases: the kernel-checked witnesses, replayed on the implementation
    fixed = [
        ("witness_gap", [0.0, 600.0, 400.0], 1000.0, [0.005, 0.0, 0.0], [math.inf] * 3),
        ("witness_szero", [0.0, 0.0], 0.0, [0.0, 0.0], [math.inf, math.inf]),
        ("witness_idem", [1.0, 2.0, 3.0], 6.0, [0.0, 0.0, 0.0], [math.inf] * 3),
        ("witness_zero_prop", [0.0, 0.0], 10.0, [0.0, 0.0], [math.inf] * 2),
    ]
    for k_, (name, x, s, lb, ub) in enumerate(fixed):
        rec = call_csb(x, s, lb, ub)
        rec["regime"] = name
        recs.insert(k_, rec)
    usable = [r for r in recs if not has_nan(r)]
    lines = []
    for rec in usable:
        lines.append(constrain_line("cur", rec))
        lines.append(constrain_line("spec", rec))
    reps = core.drive(lines)
    worst = 0.0
    for k, rec in enumerate(usable):
        rep_cur, rep_spec = reps[2 * k], reps[2 * k + 1]
        n = len(rec["x"])
        reached = rec["solver"] is not None
        out = rec["outcome"]
        ctx.count("constrain." + ("early" if out[0] == "ok" and not reached else "solver" if out[0] == "ok" else out[0]))
        ctx.count("regime." + rec["regime"])
        if n == 1:
            ctx.count("constrain.n1")
        if n == 10:
            ctx.count("constrain.n10")
        if all(v == 0 for v in rec["x"]):
            ctx.count("constrain.all_zero")
        if sum(1 for v in rec["x"] if v != 0) == 1 and n > 1:
            ctx.count("constrain.single_nonzero")
        if any(l == u for l, u in zip(rec["lb"], rec["ub"])):
            ctx.count("constrain.equal_bounds")
        if any(math.isinf(u) for u in rec["ub"]):
            ctx.count("constrain.inf_bounds")
        if reached and not rec["solver"]["success"]:
            ctx.count("solver.reported_failure")
        # theorem hypotheses on the real input: s >= 0, lb <= ub
        ctx.hyp_checked += 1
        if rec["s"] >= 0 and all(l <= u for l, u in zip(rec["lb"], rec["ub"])):
            ctx.hyp_held += 1
        if out[0] == "assert" and rec["s"] > 0:
            ctx.count("constrain.assert_positive_total")
        if out[0] == "ok" and rec["s"]:
            worst = max(worst, float(abs(float_sum_exact(out[1]) - Fraction(rec["s"])) / Fraction(rec["s"])))
        nontrivial = reached or rec["regime"] not in ("wide",)
        ctx.case({"x": rec["x"], "s": rec["s"], "lb": rec["lb"], "ub": rec["ub"]}, nontrivial, sample={"x": rec["x"][:4], "s": rec["s"], "lb": rec["lb"][:4], "ub": [str(u) for u in rec["ub"][:4]], "impl": out[0]})
        if compare_constrain(ctx, rec, rep_cur, rep_spec):
            ctx.traces += 1
    ctx.extra["constrain_worst_relative_sum_error_returned"] = worst
    ctx.extra["constrain_cases_skipped_nonfinite_input"] = len(recs) - len(usable)


# ------------------------------------------------------------------------------------------------
# part 2: generated optimisations
# ------------------------------------------------------------------------------------------------
class StubProgset:
    """stands for ProgramSet.get_alloc: the spending of every program at time t, read from the instructions"""

    def get_alloc(self, t, instructions):
        return {k: [v.get(t) if v.get(t) is not None else float(v.interpolate(t)[0])] for k, v in instructions.alloc.items()}


def gen_scenario(r):
    k = r.choice([1, 2, 3, 3, 4, 5, 6, 8, 10])
    progs = [f"P{i}" for i in range(k)]
    years = sorted(r.sample([2020, 2021, 2023, 2025], r.choice([1, 1, 2, 3])))
    style = r.choice(["int", "dyadic", "float"])
    scale = r.choice([1.0, 100.0, 1e6]) if style != "float" else r.choice([1.0, 1e3, 1e6])
    zero_all = r.random() < 0.06
    alloc = {}
    for p in progs:
        alloc[p] = {}
        z = zero_all or r.random() < 0.12
        for t in years:
            alloc[p][str(t)] = 0.0 if z else gen_value(r, scale, style) + (scale if r.random() < 0.7 else 0.0)
    adjs = []
    free = list(progs)
    r.shuffle(free)
    pk = 0
    while free:
        kind = r.choice(["plain", "plain", "plain", "paired", "package"])
        if kind == "paired" and len(free) >= 2 and len(years) >= 2:
            a, b = free.pop(), free.pop()
            t0, t1 = sorted(r.sample(years, 2))
            adjs.append({"kind": "paired", "progs": [a, b], "t": [t0, t1]})
        elif kind == "package" and len(free) >= 2:
            m = min(len(free), r.choice([2, 2, 3]))
            mem = [free.pop() for _ in range(m)]
            t = r.choice(years)
            spends = [alloc[p][str(t)] for p in mem]
            tot = math.fsum(spends)
            props = [s_ / tot for s_ in spends] if tot else [1.0 / m] * m
            mode = r.choice(["none", "props", "props", "fix"])
            a = {"kind": "package", "name": f"pkg{pk}", "t": t, "progs": mem, "min_props": None, "max_props": None, "min_total": None, "max_total": None, "fix_props": mode == "fix"}
            pk += 1
            if mode == "props":
                a["min_props"] = [p_ * r.choice([0, 0.5, 1.0]) for p_ in props]
                a["max_props"] = [min(1.0, p_ * r.choice([1.0, 1.5, 3.0]) + r.choice([0, 0.1])) for p_ in props]
                if sum(a["max_props"]) < 1:
                    a["max_props"] = [1.0] * m
            tm = r.choice(["fixed", "range", "range", "lower0", "upinf"])
            if tm == "range":
                a["min_total"] = tot * r.choice([0.5, 0.8, 1.0])
                a["max_total"] = tot * r.choice([1.0, 1.5, 2.0]) + (scale if r.random() < 0.3 else 0.0)
            elif tm == "lower0":
                a["min_total"] = 0.0
                a["max_total"] = tot * 2 + scale
            elif tm == "upinf":
                a["min_total"] = tot * 0.5
                a["max_total"] = math.inf
            adjs.append(a)
        else:
            p = free.pop()
            ts = sorted(r.sample(years, r.randint(1, len(years))))
            limit = r.choice(["abs", "abs", "rel"])
            lower, upper = [], []
            for t in ts:
                v = alloc[p][str(t)]
                if limit == "abs":
                    c = r.choice(["default", "box", "tight", "equal", "lowonly"])
                    lo, hi = {"default": (0.0, math.inf), "box": (v * r.choice([0, 0.5]), v * r.choice([1.5, 2, 4]) + r.choice([0, scale])), "tight": (v * 0.9, v * 1.1),
                              "equal": (v, v), "lowonly": (v * r.choice([0.25, 0.5, 1.0]), math.inf)}[c]
                else:
                    lo, hi = r.choice([(0.5, 2.0), (0.0, 1.5), (1.0, 1.0), (0.25, math.inf), (0.0, math.inf), (0.9, 1.1)])
                lower.append(lo)
                upper.append(hi)
            adjs.append({"kind": "plain", "prog": p, "t": ts, "limit": limit, "lower": lower, "upper": upper})
        if len(adjs) >= 1 and r.random() < 0.15:
            break  # leave some programs without adjustments
    # the constraint
    adj_years = sorted({t for a in adjs for t in (a["t"] if isinstance(a["t"], list) else [a["t"]]) if not (a["kind"] == "package")} |
                       {a["t"] for a in adjs if a["kind"] == "package"})
    con = {"t": None, "total": None, "bf": 1.0}
    mode = r.choice(["default", "default", "bf", "years", "explicit", "explicit_bad"])
    if mode == "bf":
        con["bf"] = r.choice([0.5, 0.8, 1.0, 1.25, 2.0, 5.0])
    elif mode in ("years", "explicit", "explicit_bad"):
        ts = sorted(r.sample(adj_years, r.randint(1, len(adj_years))))
        if r.random() < 0.04:
            ts = ts + [2030]  # a year without adjustments: must be refused
        con["t"] = ts
        con["bf"] = r.choice([1.0, 1.0, 0.5, 2.0]) if r.random() < 0.7 else [r.choice([0.5, 1.0, 2.0]) for _ in ts]
        if mode != "years":
            tot = []
            for t in ts:
                base = math.fsum(alloc[p].get(str(t), 0.0) for p in progs)
                f = r.choice([None, 1.0, 0.9, 1.5, 0.5]) if mode == "explicit" else r.choice([0.01, 50.0, None])
                tot.append(None if f is None else (base * f if base else scale * f))
            con["total"] = tot
        if len(ts) >= 2 and zlib.crc32(repr((ts, con["bf"], con["total"])).encode()) % 3 == 0:
            # the constraint years need not be listed in ascending order; totals and budget factors belong to the year at the same position
            con["t"] = ts[::-1]
            if isinstance(con["bf"], list):
                con["bf"] = con["bf"][::-1]
            if con["total"] is not None:
                con["total"] = con["total"][::-1]
    return {"progs": progs, "years": years, "alloc": alloc, "adjs": adjs, "con": con, "scale": scale}


def build(sc_):
    """scenario dict -> real atomica objects"""
    import atomica as at
    from atomica.utils import TimeSeries
    import atomica.optimization as ao

    alloc = {p: TimeSeries(t=[int(t) for t in sorted(d, key=int)], vals=[d[t] for t in sorted(d, key=int)]) for p, d in sc_["alloc"].items()}
    ins = at.ProgramInstructions(start_year=min(sc_["years"]), alloc=alloc)
    adjs = []
    for a in sc_["adjs"]:
        if a["kind"] == "plain":
            adjs.append(ao.SpendingAdjustment(a["prog"], a["t"], a["limit"], list(a["lower"]), list(a["upper"])))
        elif a["kind"] == "paired":
            adjs.append(ao.PairedLinearSpendingAdjustment(list(a["progs"]), list(a["t"])))
        else:
            spends = np.array([sc_["alloc"][p][str(a["t"])] for p in a["progs"]])
            adjs.append(ao.SpendingPackageAdjustment(a["name"], a["t"], list(a["progs"]), spends, min_props=a["min_props"], max_props=a["max_props"],
                                                     min_total_spend=a["min_total"], max_total_spend=a["max_total"], fix_props=a["fix_props"]))
    c = sc_["con"]
    con = ao.TotalSpendConstraint(total_spend=c["total"], t=c["t"], budget_factor=c["bf"])
    return ins, adjs, con


def item_index(sc_, name):
    if name in sc_["progs"]:
        return sc_["progs"].index(name)
    return 100 + int(name[3:])


def pkg_adjust_total(sc_, a):
    spends = [sc_["alloc"][p][str(a["t"])] for p in a["progs"]]
    tot = float(np.array(spends).sum())
    mn = tot if a["min_total"] is None else a["min_total"]
    mx = tot if a["max_total"] is None else a["max_total"]
    return not (mn == tot and mn == mx), mn, mx, tot


def hard_line(sc_, i2):
    """flatten the adjustments into model entries (cur = spending after the initial values were applied)"""
    ents = []
    for a in sc_["adjs"]:
        if a["kind"] == "plain":
            for t, lo, hi in zip(a["t"], a["lower"], a["upper"]):
                ents.append((t, item_index(sc_, a["prog"]), 1 if a["limit"] == "rel" else 0, lo, hi, i2.alloc[a["prog"]].get(t)))
        elif a["kind"] == "paired":
            for t in a["t"]:
                for p in a["progs"]:
                    ents.append((t, item_index(sc_, p), 0, 0.0, math.inf, i2.alloc[p].get(t)))
        else:
            adj, mn, mx, tot = pkg_adjust_total(sc_, a)
            if adj:
                ents.append((a["t"], item_index(sc_, a["name"]), 0, mn, mx, tot))
    c = sc_["con"]
    years = c["t"] or []
    totals = c["total"] or []
    bf = c["bf"] if isinstance(c["bf"], list) else [c["bf"]]
    parts = ["hardcon", str(len(years))] + [str(t) for t in years] + [str(len(totals))] + ["none" if v is None else q(v) for v in totals] + [str(len(bf))] + [q(v) for v in bf]
    parts.append(str(len(ents)))
    for e in ents:
        parts += [str(e[0]), str(e[1]), str(e[2]), q(e[3]), q(e[4]), q(e[5])]
    return " ".join(parts), ents


def parse_hard(rep):
    t = rep.split()
    if t[0] == "err":
        return "err", t[1:]
    n = int(t[1])
    pos = 2
    out = {}
    for _ in range(n):
        assert t[pos] == "year"
        yr = int(t[pos + 1])
        total = unq(t[pos + 2])
        k = int(t[pos + 3])
        pos += 4
        b = {}
        for _ in range(k):
            b[int(t[pos])] = (unq(t[pos + 1]), unq(t[pos + 2]))
            pos += 3
        out[yr] = (total, b)
    return "ok", out


def snapshot(ins):
    return {p: {t: v for t, v in zip(ts.t, ts.vals)} for p, ts in ins.alloc.items()}


def gen_proposals(r, x0, xmin, xmax, scale, count):
    n = len(x0)
    props = [list(map(float, x0))]
    if n == 0:
        return props
    for _ in range(count - 1):
        mode = r.choice(["rand", "rand", "rand", "zero", "single", "edges", "near0"])
        v = []
        for j in range(n):
            lo = xmin[j] if math.isfinite(xmin[j]) else -scale
            hi = xmax[j] if math.isfinite(xmax[j]) else max(lo, x0[j], scale) * 3 + scale
            if not (lo <= hi):
                lo, hi = min(lo, hi), max(lo, hi)
            if mode == "rand":
                c = lo + (hi - lo) * r.random()
            elif mode == "edges":
                c = r.choice([lo, hi, x0[j]])
            elif mode == "near0":
                c = lo + (hi - lo) * r.choice([0.0, 1e-9, 1e-6, 1e-3])
            else:
                c = max(lo, 0.0) if lo <= 0 <= hi or lo > 0 else hi
            v.append(float(c))
        if mode == "single":
            j = r.randrange(n)
            lo = xmin[j] if math.isfinite(xmin[j]) else 0.0
            hi = xmax[j] if math.isfinite(xmax[j]) else max(x0[j], scale) * 3
            v[j] = float(lo + (hi - lo) * (0.5 + 0.5 * r.random()))
        props.append(v)
    return props


def run_scenario(sc_, proposals=None, rseed=0, nprop=4):
    """Run one generated optimisation on the real code.  Returns a picklable record (no comparison here)."""
    import sciris as sc
    import atomica.optimization as ao

    Rec.install()
    Rec.reset()
    rec = {"scenario": sc_, "stage": "build", "events": []}
    old = np.seterr(all="ignore")
    try:
        try:
            ins, adjs, con = build(sc_)
        except AssertionError as e:
            rec["build_error"] = ["assert", str(e)[:160]]
            return rec
        opt = ao.Optimization(adjustments=adjs, measurables=[], constraints=[con])
        rec["stage"] = "init"
        try:
            x0, xmin, xmax = opt.get_initialization(StubProgset(), ins)
        except ao.InvalidInitialConditions as e:
            rec["init_error"] = str(e)[:160]
            return rec
        rec["x0"], rec["xmin"], rec["xmax"] = x0.tolist(), xmin.tolist(), xmax.tolist()
        rec["adjust_total"] = {a.name: bool(a.adjust_total_spend) for a in adjs if isinstance(a, ao.SpendingPackageAdjustment)}
        # state the hard constraints are extracted from
        i2 = sc.dcp(ins)
        Rec.reset()
        try:
            opt.update_instructions(x0, i2)
        except BaseException as e:
            rec["init_update_error"] = classify_exc(e)
            return rec
        rec["hard_line"], rec["entries"] = hard_line(sc_, i2)
        rec["stage"] = "hard"
        Rec.reset()
        try:
            hcs = opt.get_hard_constraints(x0, ins)
        except ao.UnresolvableConstraint as e:
            rec["hard"] = ["unresolvable", str(e)]
            return rec
        except Exception as e:
            rec["hard"] = ["exception", type(e).__name__, str(e)[:200]]
            return rec
        hc = hcs[0]
        order = {int(t): list(hc["programs"][t]) for t in hc["initial_total_spend"]}
        rec["hard"] = ["ok", {int(t): float(np.ravel(v)[0]) for t, v in hc["initial_total_spend"].items()},
                       {int(t): {name: [float(b[0]), float(b[1])] for name, b in d.items()} for t, d in hc["bounds"].items()}, order]
        if any(math.isnan(b[0]) or math.isnan(b[1]) for d in rec["hard"][2].values() for b in d.values()):
            rec["nan_bounds"] = True
        # proposals
        rec["stage"] = "proposals"
        r = random.Random(rseed)
        if proposals is None:
            proposals = gen_proposals(r, x0.tolist(), xmin.tolist(), xmax.tolist(), sc_["scale"], nprop)
        rec["proposals"] = []
        for xv in proposals:
            pr = {"x": xv}
            rec["proposals"].append(pr)
            i3 = sc.dcp(ins)
            Rec.reset()
            try:
                opt.update_instructions(np.array(xv), i3)
                pr["update"] = ["ok"]
            except BaseException as e:
                pr["update"] = classify_exc(e)
            pr["update_calls"] = copy.deepcopy(Rec.csb_calls)
            pr["pre"] = snapshot(i3)
            if pr["update"][0] != "ok":
                continue
            Rec.reset()
            try:
                pen = opt.constrain_instructions(i3, hcs)
                pr["constrain"] = ["ok", float(pen)]
            except BaseException as e:
                pr["constrain"] = classify_exc(e)
            pr["calls"] = copy.deepcopy(Rec.csb_calls)
            pr["post"] = snapshot(i3)
        return rec
    finally:
        np.seterr(**old)


def batch_scenarios(args):
    seed, count, nprop = args
    import logging
    import atomica  # noqa

    atomica.logger.setLevel(logging.CRITICAL)
    r = random.Random(seed)
    out = []
    for _ in range(count):
        sc_ = gen_scenario(r)
        out.append(run_scenario(sc_, None, r.getrandbits(31), nprop))
    return out


def initial_props(sc_, a):
    spends = [sc_["alloc"][p][str(a["t"])] for p in a["progs"]]
    tot = float(np.array(spends).sum())
    return [s_ / tot for s_ in spends] if tot else [1.0 / len(spends)] * len(spends)


def pkg_by_name(sc_):
    return {a["name"]: a for a in sc_["adjs"] if a["kind"] == "package"}


def year_line(variant, sc_, total, order, bounds, pre, t, solver):
    pk = pkg_by_name(sc_)
    parts = ["constrain", "year", variant, q(total), str(len(order))]
    for name in order:
        lo, hi = bounds[name]
        if name in pk:
            a = pk[name]
            mem = [pre[p][t] for p in a["progs"]]
            w = initial_props(sc_, a)
            parts += ["1", str(len(mem)), q(lo), q(hi)] + [q(v) for v in mem] + [q(v) for v in w]
        else:
            parts += ["0", "1", q(lo), q(hi), q(pre[name][t]), "1"]
    parts.append(solver_tokens(solver))
    return " ".join(parts)


def parse_year(rep):
    t = rep.split()
    if t[0] != "ok":
        return t[0], None, None
    pos = 2
    items = []
    while pos < len(t):
        m = int(t[pos])
        items.append([unq(a) for a in t[pos + 1:pos + 1 + m]])
        pos += 1 + m
    return "ok", t[1], items


def pkg_plan(sc_, xv):
    """(package, fractions handed to constrain_sum_bounded, nominal package total) for every package, from a proposal vector"""
    out = []
    pos = 0
    for a in sc_["adjs"]:
        if a["kind"] == "plain":
            pos += len(a["t"])
        elif a["kind"] == "paired":
            pos += 1
        else:
            m = len(a["progs"])
            adj, mn, mx, tot = pkg_adjust_total(sc_, a)
            if a["fix_props"]:
                fr = initial_props(sc_, a)
            else:
                fr = list(xv[pos:pos + m])
                pos += m
            T = tot
            if adj:
                T = xv[pos]
                pos += 1
            out.append((a, fr, T))
    return out


def check_pkg_update(ctx, rec, data, rep_cur, rep_spec):
    """SpendingPackageAdjustment.update_instructions <-> `package update`, and the property's own predicate on the members"""
    pr, j, a, fr, T, mn, mx, call = data
    ctx.count("package.update")
    t = a["t"]
    mem = [pr["pre"][p][t] for p in a["progs"]]
    failed_here = pr["update"][0] != "ok" and j == len(pr["update_calls"]) - 1
    out = [pr["update"][0]] if failed_here else ["ok", mem]
    replay = scen_replay(rec, proposal=pr["x"], package=a["name"], fracs=fr, total=T, members_after=mem, call=call, model_cur=rep_cur, model_spec=rep_spec)
    ctx.case({"pkgupdate": [fr, T, mn, mx]}, nontrivial=(call is not None and call["solver"] is not None) or a["min_props"] is not None or a["fix_props"] or T == 0)
    viol = []
    if call is not None:
        # the raw projection of the fractions
        for key, what in oracle_constrain(ctx, call, where=f"SpendingPackageAdjustment({a['name']}).update_instructions -> constrain_sum_bounded"):
            viol.append((key, what))
        if [float(v) for v in call["x"]] != [float(v) for v in fr] or call["s"] != 1:
            ctx.brk("correspondence", f"package {a['name']}: constrain_sum_bounded was handed {call['x']} (s={call['s']}), expected the proposal's fractions {fr}", replay=replay)
            return
    if out[0] == "ok":
        # the property: every member's share of the package total within its proportion limits, members add up to the total
        sl = 1e-11 * max(abs(T), 1e-300)
        for i, (v, lo, hi) in enumerate(zip(mem, mn, mx)):
            if v < lo * T - sl or v > hi * T + sl:
                viol.append(({"api": "SpendingPackageAdjustment.update_instructions", "case": "share-outside-proportion-limits"},
                             f"package {a['name']}: member {a['progs'][i]} = {v!r} is {v / T if T else float('nan')!r} of the package total {T!r}, limits [{lo}, {hi}]"))
                break
        tot = float(sum(Fraction(v) for v in mem))
        if abs(tot - T) > (TOL * (1 + SLACK)) * abs(T) + SLACK * abs(T) and not any(k_ == K_SUM for k_, _ in viol):
            viol.append((K_SUM if abs(tot - T) <= (1.01e-5 + 1e-8) * abs(T) else {"api": "SpendingPackageAdjustment.update_instructions", "case": "package-total-not-met"},
                         f"package {a['name']}: members {mem} add up to {tot!r}, package total {T!r}"))
    for key, what in viol:
        ctx.violation(key, what, replay)
    agree = {}
    for variant, rep in (("cur", rep_cur), ("spec", rep_spec)):
        cls, branch, vals = parse_result(rep)
        if cls == "ok" and out[0] == "ok":
            agree[variant] = values_close(vals, mem, max(abs(T), 1e-300))
        elif cls == "failed":
            agree[variant] = out[0] == "failed"
        elif cls == "assert":
            agree[variant] = out[0] == "assert" if variant == "cur" else out[0] in ("assert", "failed")
        else:
            agree[variant] = False
    amb = None
    if not agree["spec"] and call is not None:
        em = early_margin(call)
        if em is not None and em < 1e-12:
            amb = "package.early_test"
    if not agree["spec"] and call is None and parse_result(rep_spec)[0] == "need-solver":
        # the implementation returned early, the exact model wants the solver: only acceptable at a tie
        em = early_margin({"x": fr, "s": 1.0, "lb": mn, "ub": mx})
        if em is not None and em < 1e-12:
            amb = "package.early_test"
    if verdict(ctx, f"package {a['name']} update_instructions", agree, amb, viol, str(out)[:160], {"cur": rep_cur, "spec": rep_spec}, replay):
        ctx.traces += 1


def check_scenarios(ctx, recs):
    """compare the recorded behaviour of the scenarios with the model; direct oracles"""
    lines = []
    plan = []  # (kind, rec, data, idx of first line)

    def add(kind, rec, data, ls):
        plan.append((kind, rec, data, len(lines)))
        lines.extend(ls)

    for rec in recs:
        sc_ = rec["scenario"]
        if "hard_line" in rec:
            add("hard", rec, None, [rec["hard_line"]])
        if rec.get("hard", [None])[0] != "ok" or rec.get("nan_bounds"):
            continue
        totals, bounds, order = rec["hard"][1], rec["hard"][2], rec["hard"][3]
        for pr in rec.get("proposals", []):
            # package updates inside update_instructions: one constrain_sum_bounded call per package, in adjustment order
            for j, (a, fr, T) in enumerate(pkg_plan(sc_, pr["x"])):
                if pr["update"][0] != "ok" and j >= len(pr["update_calls"]):
                    break  # not reached: an earlier package raised
                call = pr["update_calls"][j] if j < len(pr["update_calls"]) else None
                m = len(a["progs"])
                mn = a["min_props"] or [0.0] * m
                mx = a["max_props"] or [1.0] * m
                sol = solver_tokens(call["solver"] if call else None)
                ls = [f"package update {v} {m} {q(T)} {qs(fr)} {qs(mn)} {qs(mx)} {sol}" for v in ("cur", "spec")]
                add("pkgupdate", rec, (pr, j, a, fr, T, mn, mx, call), ls)
            if pr["update"][0] != "ok":
                continue
            for k, call in enumerate(pr["calls"]):
                t = list(totals)[k]
                sol = call["solver"]
                ls = [year_line(v, sc_, totals[t], order[t], bounds[t], pr["pre"], t, sol) for v in ("cur", "spec")]
                add("year", rec, (pr, k, t, call), ls)
    reps = core.drive(lines) if lines else []

    for kind, rec, data, i0 in plan:
        sc_ = rec["scenario"]
        if kind == "hard":
            check_hard(ctx, rec, reps[i0])
        elif kind == "pkgupdate":
            check_pkg_update(ctx, rec, data, reps[i0], reps[i0 + 1])
        else:
            check_year(ctx, rec, data, reps[i0], reps[i0 + 1])
    for rec in recs:
        scenario_oracle(ctx, rec)


def scen_replay(rec, **kw):
    d = {"kind": "scenario", "scenario": rec["scenario"], "proposals": [p["x"] for p in rec.get("proposals", [])]}
    d.update(kw)
    return d


def item_name(sc_, idx):
    return sc_["progs"][idx] if idx < 100 else f"pkg{idx - 100}"


def spec_bounds(rec):
    """bounds every program / package must respect, from the scenario as specified (not from the implementation's record)"""
    sc_ = rec["scenario"]
    out = {}
    for (t, idx, rel, lo, hi, cur) in rec["entries"]:
        out.setdefault(t, {})[item_name(sc_, idx)] = (cur * lo if rel else lo, (math.inf if math.isinf(hi) else cur * hi) if rel else hi)
    return out


def spec_year(rec, t):
    """(total, sum of lower bounds, sum of upper bounds or None) of year t as specified, exact; None if t is not constrained"""
    sc_ = rec["scenario"]
    c = sc_["con"]
    es = [e for e in rec["entries"] if e[0] == t]
    if not es or (c["t"] and t not in c["t"]):
        return None
    seen, base = set(), Fraction(0)
    for e in es:
        if e[1] not in seen:
            seen.add(e[1])
            base += Fraction(e[5])
    idx = c["t"].index(t) if c["t"] else None
    if idx is not None and c["total"] and c["total"][idx] is not None:
        base = Fraction(c["total"][idx])
    bf = c["bf"][idx] if isinstance(c["bf"], list) else c["bf"]
    lo = sum((Fraction(e[5]) * Fraction(e[3]) if e[2] else Fraction(e[3])) for e in es)
    hi = None if any(math.isinf(e[4]) for e in es) else sum((Fraction(e[5]) * Fraction(e[4]) if e[2] else Fraction(e[4])) for e in es)
    return base * Fraction(bf), lo, hi


def check_hard(ctx, rec, rep):
    sc_ = rec["scenario"]
    hard = rec["hard"]
    cls, data = parse_hard(rep)
    c = sc_["con"]
    if any(a["kind"] == "plain" and a["limit"] == "rel" for a in sc_["adjs"]):
        ctx.count("hard.rel")
    if c["bf"] != 1.0:
        ctx.count("hard.budget_factor")
    replay = scen_replay(rec, impl_hard=hard, model=rep)

    def near_tie():
        # totals within rounding of the sum of lower / upper bounds: `>` and `<` may go either way in floats --
        # unless every number involved is a small dyadic rational, for which the float sums and products are exact
        ents = rec["entries"]
        nums = [v for e in ents for v in (e[3], e[4], e[5]) if math.isfinite(v)] + [v for v in (c["total"] or []) if v is not None] + (c["bf"] if isinstance(c["bf"], list) else [c["bf"]])
        if all(Fraction(v).denominator <= 64 and abs(v) < 2 ** 20 for v in nums):
            return False
        for t in {e[0] for e in ents}:
            sy = spec_year(rec, t)
            if sy is None or not sy[0]:
                continue
            tot, lo, hi = sy
            if abs(lo - tot) / abs(tot) < 1e-12 or (hi is not None and abs(hi - tot) / abs(tot) < 1e-12):
                return True
        return False

    if rec.get("nan_bounds"):
        bad = {t: d for t, d in hard[2].items() if any(math.isnan(b[0]) or math.isnan(b[1]) for b in d.values())}
        ctx.count("hard.nan_bound")
        ctx.violation(K_NAN, f"get_hard_constraint returned NaN bounds {bad}: a relative bound with an infinite multiplier on a program whose initial spend is 0 (0*inf); "
                      "the feasibility pre-check passes (comparisons with NaN are False) and every later constrain_sum_bounded call fails its assertion", replay)
        return
    if hard[0] == "ok":
        ctx.count("hard.ok")
        if len(hard[1]) > 1:
            ctx.count("hard.multi_year")
        agree = cls == "ok" and set(data) == set(hard[1])
        if agree:
            for t, tot in hard[1].items():
                mt, mb = data[t]
                if not core.close(mt, tot, scale=tot, rtol=1e-11):
                    agree = False
                ib = {item_index(sc_, name): b for name, b in hard[2][t].items()}
                if set(ib) != set(mb):
                    agree = False
                    continue
                for it, (lo, hi) in ib.items():
                    if not core.close(mb[it][0], lo, scale=max(abs(tot), abs(lo)), rtol=1e-11) or not core.close(mb[it][1], hi, scale=max(abs(tot), abs(hi) if math.isfinite(hi) else 0.0), rtol=1e-11):
                        agree = False
        # direct oracle: the year's required total and every bound are the ones specified (total from the initial instructions or given
        # explicitly, times the budget factor; relative bounds times the initial spend); what is let through is satisfiable
        sb = spec_bounds(rec)
        for t, tot in hard[1].items():
            sy = spec_year(rec, t)
            if sy is None:
                ctx.violation({"api": "TotalSpendConstraint.get_hard_constraint", "case": "unrequested-year-constrained"}, f"year {t} constrained, constraint years {c['t']}", replay)
                continue
            if not core.close(sy[0], tot, scale=tot, rtol=1e-11):
                ctx.violation({"api": "TotalSpendConstraint.get_hard_constraint", "case": "wrong-required-total"}, f"year {t}: required total recorded as {tot!r}, specified {float(sy[0])!r} (budget factor {c['bf']}, explicit totals {c['total']})", replay)
            for name, (lo_, hi_) in hard[2][t].items():
                e = sb.get(t, {}).get(name)
                if e is None or abs(e[0] - lo_) > 1e-11 * max(abs(lo_), abs(tot)) or (e[1] != hi_ and abs(e[1] - hi_) > 1e-11 * max(abs(hi_), abs(tot))):
                    ctx.violation({"api": "TotalSpendConstraint.get_hard_constraint", "case": "wrong-bounds"}, f"year {t}: bounds of {name} recorded as ({lo_}, {hi_}), specified {e}", replay)
                    break
            if (sy[1] > sy[0] or (sy[2] is not None and sy[2] < sy[0])) and not near_tie():
                ctx.violation({"api": "TotalSpendConstraint.get_hard_constraint", "case": "impossible-constraint-not-reported"},
                              f"year {t}: specified total {float(sy[0])} outside [{float(sy[1])}, {float(sy[2]) if sy[2] is not None else 'inf'}] but no UnresolvableConstraint was raised", replay)
        for t, tot in hard[1].items():
            lo = sum(Fraction(b[0]) for b in hard[2][t].values())
            his = [b[1] for b in hard[2][t].values()]
            hi = sum(Fraction(h) for h in his) if all(math.isfinite(h) for h in his) else None
            ctx.hyp_checked += 1
            if all(b[0] <= b[1] for b in hard[2][t].values()):
                ctx.hyp_held += 1
            sl = Fraction(SLACK) * abs(Fraction(tot))
            if lo > Fraction(tot) + sl or (hi is not None and hi < Fraction(tot) - sl):
                ctx.violation({"api": "TotalSpendConstraint.get_hard_constraint", "case": "impossible-constraint-not-reported"},
                              f"year {t}: total {tot} outside [{float(lo)}, {float(hi) if hi is not None else 'inf'}] but no UnresolvableConstraint was raised", replay)
    elif hard[0] == "unresolvable":
        msg = hard[1]
        which = "min" if "total minimum spend" in msg else "max"
        ctx.count("hard.unresolvable_" + which)
        yr = int(float(msg.split("The total spend in ")[1].split(" ")[0]))
        agree = cls == "err" and data[:1] == ["unresolvable"] and data[1] == which and int(data[2]) == yr
        # direct oracle: what is refused must really be unsatisfiable (precheck_exact)
        sy = spec_year(rec, yr)
        if sy is not None:
            tot, lo, hi = sy
            if lo <= tot and (hi is None or tot <= hi) and not near_tie():
                ctx.violation({"api": "TotalSpendConstraint.get_hard_constraint", "case": "satisfiable-constraint-refused"},
                              f"year {yr}: total {float(tot)} lies within [{float(lo)}, {float(hi) if hi is not None else 'inf'}] but UnresolvableConstraint was raised: {msg[:120]}", replay)
    else:
        ctx.count("hard.missing_times")
        agree = cls == "err" and data == ["missing-times"]
    nontrivial = len(sc_["adjs"]) > 1 or hard[0] != "ok"
    ctx.case({"hard": rec["hard_line"]}, nontrivial, sample={"adjs": [a["kind"] for a in sc_["adjs"]], "con": sc_["con"], "impl": hard[0]})
    if agree:
        ctx.traces += 1
        return
    ctx.disagreements_checked += 1
    if near_tie():
        ctx.ambiguous += 1
        return
    ctx.brk("correspondence", f"get_hard_constraint: implementation {str(hard)[:200]} vs model {rep[:200]}", replay=replay)


def check_year(ctx, rec, data, rep_cur, rep_spec):
    sc_ = rec["scenario"]
    pr, k, t, call = data
    totals, bounds, order = rec["hard"][1], rec["hard"][2], rec["hard"][3]
    pk = pkg_by_name(sc_)
    names = order[t]
    has_pkg = any(n in pk for n in names)
    paired = {p for a in sc_["adjs"] if a["kind"] == "paired" for p in a["progs"]}
    ctx.count("year.package" if has_pkg else "year.paired" if any(n in paired for n in names) else "year.plain")
    out = call["outcome"]
    replay = scen_replay(rec, proposal=pr["x"], year=t, call=call, model_cur=rep_cur, model_spec=rep_spec)
    # the vector handed to constrain_sum_bounded is what the instructions held
    exp_x = [sum(pr["pre"][p][t] for p in pk[n]["progs"]) if n in pk else pr["pre"][n][t] for n in names]
    sb = spec_bounds(rec).get(t, {})
    if out[0] == "ok" and all(n in sb for n in names):
        # an allocation that already satisfies the year's constraints is left as it is (judged on the instructions, not on what was passed on)
        if float_sum_exact(exp_x) == Fraction(totals[t]) and all(sb[n][0] <= v <= sb[n][1] for n, v in zip(names, exp_x)):
            for n in names:
                for p_ in (pk[n]["progs"] if n in pk else [n]):
                    if abs(pr["post"][p_][t] - pr["pre"][p_][t]) > 1e-11 * max(abs(totals[t]), abs(pr["pre"][p_][t])):
                        ctx.violation({"api": "TotalSpendConstraint.constrain_instructions", "case": "satisfying-allocation-changed"},
                                      f"year {t}: {exp_x} already adds up to {totals[t]} within the bounds but {p_} went {pr['pre'][p_][t]!r} -> {pr['post'][p_][t]!r}", replay)
                        break
    if not all(abs(a - b) <= 1e-12 * max(abs(a), abs(b), 1e-300) for a, b in zip(exp_x, call["x"])) or abs(call["s"] - totals[t]) > 0:
        ctx.brk("correspondence", f"constrain_instructions year {t}: passed x={call['x']} s={call['s']}, expected {exp_x} {totals[t]}", replay=replay)
        return
    # oracle on the raw call
    viol = oracle_constrain(ctx, call, where=f"TotalSpendConstraint.constrain_instructions(year {t}) -> constrain_sum_bounded")
    for key, what in viol:
        ctx.violation(key, what, replay)
    # written-back values
    post_vals = [[pr["post"][p][t] for p in pk[n]["progs"]] if n in pk else [pr["post"][n][t]] for n in names]
    nontrivial = call["solver"] is not None or has_pkg or len(totals) > 1
    ctx.case({"year": year_line("cur", sc_, totals[t], names, bounds[t], pr["pre"], t, call["solver"])}, nontrivial)
    agree, amb = {}, None
    reps = {"cur": rep_cur, "spec": rep_spec}
    for variant, rep in reps.items():
        cls, branch, items = parse_year(rep)
        if cls == "ok" and out[0] == "ok":
            ok = len(items) == len(post_vals) and all(values_close(m, v, call["s"]) for m, v in zip(items, post_vals))
        elif cls == "failed":
            ok = out[0] == "failed"
        elif cls == "assert":
            ok = out[0] == "assert" if variant == "cur" else out[0] in ("assert", "failed")
        else:
            ok = False
        agree[variant] = ok
        if not ok and variant == "spec":
            em = early_margin(call)
            impl_branch = "early" if call["solver"] is None else "solver"
            # a tie of the early-return test can only explain a disagreement when model and implementation took DIFFERENT branches
            if em is not None and em < 1e-12 and (cls != "ok" or branch != impl_branch):
                amb = f"year.early_test.model_{cls}.impl_{out[0]}"
    # direct oracle on the instructions after this year's write-back
    viol2 = []

    def flag(key, what):
        viol2.append((key, what))
        ctx.violation(key, what, replay)

    if out[0] == "ok":
        written = sum(Fraction(v) for vs in post_vals for v in vs)
        s = Fraction(call["s"])
        if s and abs(written - s) / s > Fraction(TOL) * (1 + Fraction(SLACK)) + Fraction(SLACK) and not any(kk == K_SUM for kk, _ in viol):
            zero_pk = [n for n, v, y in zip(names, post_vals, out[1]) if n in pk and sum(pr["pre"][p][t] for p in pk[n]["progs"]) <= 0 and y > 0]
            key = K_PKG if zero_pk else {"api": "TotalSpendConstraint.constrain_instructions", "case": "total-violated-after-write-back"}
            flag(key, f"year {t}: after constrain_instructions the spending adds up to {float(written)!r}, required total {call['s']!r}"
                          + (f"; package(s) {zero_pk} had no current spending, were assigned {[y for n, y in zip(names, out[1]) if n in zero_pk]} by constrain_sum_bounded and set_total_spend left every member at 0 (spend_factor = 0.0)" if zero_pk else ""))
        for n, vs, y in zip(names, post_vals, out[1]):
            lo, hi = sb.get(n, bounds[t][n])
            tot_n = float(sum(Fraction(v) for v in vs))
            sl = 1e-11 * max(abs(call["s"]), abs(lo), abs(hi) if math.isfinite(hi) else 0.0)
            if (tot_n < lo - sl or tot_n > hi + sl) and not (n in pk and key_is_pkg(pr, pk[n], t, y)):
                flag({"api": "TotalSpendConstraint.constrain_instructions", "case": "bound-violated-after-write-back"}, f"year {t}: {n} = {tot_n!r} outside [{lo}, {hi}]")
            if n in pk:
                ctx.count("package.settotal")
                # shares kept by set_total_spend
                pre_m = [pr["pre"][p][t] for p in pk[n]["progs"]]
                c0 = sum(pre_m)
                if c0 > 0 and y != 0:
                    if not all(abs(v / y - m / c0) <= 1e-9 for v, m in zip(vs, pre_m)):
                        flag({"api": "SpendingPackageAdjustment.set_total_spend", "case": "shares-changed"}, f"year {t}: package {n} members {pre_m} -> {vs} (target {y})")
                # the property itself: after the total-spend constraint every member's share of the package is within its min/max proportion
                a_ = pk[n]
                tot_after = float(sum(vs))
                if tot_after > 0 and (a_.get("min_props") or a_.get("max_props")):
                    mn_ = a_.get("min_props") or [0.0] * len(vs)
                    mx_ = a_.get("max_props") or [1.0] * len(vs)
                    for p_, v, lo_p, hi_p in zip(a_["progs"], vs, mn_, mx_):
                        sh = v / tot_after
                        # the members are fractions x proposed total, and the projected fractions add up to 1 only to the 1e-6 relative the property grants the
                        # sum, so a share taken over the members' actual sum can be off by that much (thorough seed 4: 1.3e-9 below the minimum; DESIGN 13.4)
                        if sh < lo_p * (1 - 2e-6) - 1e-12 or sh > hi_p * (1 + 2e-6) + 1e-12:
                            flag({"api": "SpendingPackageAdjustment.set_total_spend", "case": "share-outside-proportion-limits"},
                                 f"year {t}: after constrain_instructions {p_} holds {sh:.6f} of package {n} (members {vs}), allowed [{lo_p}, {hi_p}]")
                            break
    if verdict(ctx, f"constrain_instructions year {t}", agree, amb, viol + viol2, f"{out[0]} {str(post_vals)[:120]}", reps, replay):
        ctx.traces += 1


def key_is_pkg(pr, a, t, y):
    return sum(pr["pre"][p][t] for p in a["progs"]) <= 0 and y > 0


def scenario_oracle(ctx, rec):
    """oracles over whole proposals: untouched entries unchanged; package shares after update; stage bookkeeping"""
    sc_ = rec["scenario"]
    if "build_error" in rec:
        ctx.count("scenario.rejected_at_construction")
        return
    if "init_error" in rec:
        ctx.count("scenario.invalid_initial_conditions")
        return
    if rec.get("hard", [None])[0] != "ok" or rec.get("nan_bounds"):
        return
    totals, order = rec["hard"][1], rec["hard"][3]
    pk = pkg_by_name(sc_)
    for pr in rec.get("proposals", []):
        if pr["update"][0] != "ok":
            ctx.count("proposal.update_" + pr["update"][0])
            continue
        ctx.count("proposal.constrain_" + pr["constrain"][0])
        if pr["constrain"][0] != "ok":
            continue
        # entries of years that are not constrained, and of programs not reached, are untouched
        touched = set()
        for t in totals:
            for n in order[t]:
                for p in (pk[n]["progs"] if n in pk else [n]):
                    touched.add((p, t))
        for p, d in pr["pre"].items():
            for t, v in d.items():
                if (p, t) not in touched and pr["post"].get(p, {}).get(t) != v:
                    ctx.violation({"api": "TotalSpendConstraint.constrain_instructions", "case": "unconstrained-entry-changed"}, f"{p}@{t}: {v} -> {pr['post'].get(p, {}).get(t)}", scen_replay(rec, proposal=pr["x"]))
        for p, d in pr["post"].items():
            if set(d) != set(pr["pre"][p]):
                ctx.violation({"api": "TotalSpendConstraint.constrain_instructions", "case": "time-points-changed"}, f"{p}: {sorted(pr['pre'][p])} -> {sorted(d)}", scen_replay(rec, proposal=pr["x"]))


def settotal_cases(ctx, cases=None):
    """SpendingPackageAdjustment.set_total_spend directly <-> `package settotal`"""
    import atomica as at
    import atomica.optimization as ao
    from atomica.utils import TimeSeries

    r = ctx.rng
    given = cases is not None
    cases = list(cases or [([0.0, 0.0], 5.0), ([1.0, 3.0], 5.0)])
    for _ in range(0 if given else ctx.n(150, 2000)):
        m = r.choice([2, 2, 3, 4])
        style = r.choice(["int", "dyadic", "float"])
        mem = [gen_value(r, 1.0, style) * r.choice([0, 1, 1, 1]) for _ in range(m)]
        if r.random() < 0.1:
            mem = [0.0] * m
        val = r.choice([0.0, gen_value(r, 1.0, style) + 1, gen_value(r, 10.0, style)])
        cases.append((mem, val))
    lines = []
    impl = []
    for mem, val in cases:
        names = [f"P{i}" for i in range(len(mem))]
        init = [1.0] * len(mem)
        adj = ao.SpendingPackageAdjustment("pkg", 2020, names, np.array(init), min_total_spend=0.0, max_total_spend=1e12)
        ins = at.ProgramInstructions(start_year=2020, alloc={p: TimeSeries(2020, v) for p, v in zip(names, mem)})
        adj.set_total_spend(ins, val)
        post = [ins.alloc[p].get(2020) for p in names]
        impl.append(post)
        w = [1.0 / len(mem)] * len(mem)
        for variant in ("cur", "spec"):
            lines.append(f"package settotal {variant} {len(mem)} {q(val)} {qs(mem)} {qs(w)}")
    reps = core.drive(lines)
    for k, ((mem, val), post) in enumerate(zip(cases, impl)):
        cur = [unq(a) for a in reps[2 * k].split()]
        spec = [unq(a) for a in reps[2 * k + 1].split()]
        ctx.count("package.settotal")
        c0 = sum(mem)
        ctx.case({"settotal": [mem, val]}, nontrivial=c0 == 0 or val == 0 or any(v == 0 for v in mem))
        replay = {"kind": "settotal", "mem": mem, "val": val, "impl": post, "model_cur": reps[2 * k], "model_spec": reps[2 * k + 1]}
        agree = {"cur": values_close(cur, post, max(val, 1.0)), "spec": values_close(spec, post, max(val, 1.0))}
        viol = []
        tot = float(sum(Fraction(v) for v in post))
        if abs(tot - val) > 1e-11 * max(val, 1.0):
            ctx.count("package.settotal_zero_current")
            if c0 <= 0:
                viol.append((K_PKG, f"set_total_spend on members {mem} (no current spending) with total {val}: members stay {post}, package total {tot} != {val} (spend_factor = 0.0)"))
            else:
                viol.append(({"api": "SpendingPackageAdjustment.set_total_spend", "case": "total-not-reached"}, f"members {mem}, total {val} -> {post}"))
        elif c0 > 0 and val > 0 and not all(abs(v / val - m_ / c0) <= 1e-9 for v, m_ in zip(post, mem)):
            viol.append(({"api": "SpendingPackageAdjustment.set_total_spend", "case": "shares-changed"}, f"members {mem}, total {val} -> {post}"))
        for key, what in viol:
            ctx.violation(key, what, replay)
        if verdict(ctx, "set_total_spend", agree, None, viol, str(post)[:160], {"cur": reps[2 * k], "spec": reps[2 * k + 1]}, replay):
            ctx.traces += 1


def run_scenarios(ctx):
    total = ctx.n(260, 4800)
    nprop = 4 if ctx.quick else 5
    nb = 1 if ctx.quick else 32
    seeds = [(ctx.rng.getrandbits(31), total // nb, nprop) for _ in range(nb)]
    if ctx.quick:
        recs = [rec for a in seeds for rec in batch_scenarios(a)]
    else:
        import multiprocessing as mp

        with mp.get_context("fork").Pool(min(16, nb)) as pool:
            recs = [rec for part in pool.map(batch_scenarios, seeds) for rec in part]
    # fixed scenario: the package-without-spending witness of `constrain_year_current_gap`
    recs.insert(0, run_scenario(WITNESS_PKG, [[0.5, 0.5, 0.0, 0.0]], 0))
    recs.insert(1, run_scenario(WITNESS_NAN, [[0.0, 3.0]], 0))
    # a package whose members DO have initial spending (proportions 0.2 / 0.8, maximum proportion 0.3 for the first) but whose proposal
    # puts nothing on it: the total-spend constraint must move money into it, split by the initial proportions (never 0.5 / 0.5)
    recs.insert(2, run_scenario(WITNESS_PKG_PROPS, [[0.2, 0.8, 0.0, 0.0], [0.25, 0.75, 0.0, 1.0]], 0))
    check_scenarios(ctx, recs)


WITNESS_PKG = {"progs": ["P0", "P1", "P2"], "years": [2020], "scale": 1.0,
               "alloc": {"P0": {"2020": 0.0}, "P1": {"2020": 0.0}, "P2": {"2020": 0.0}},
               "adjs": [{"kind": "package", "name": "pkg0", "t": 2020, "progs": ["P0", "P1"], "min_props": None, "max_props": None, "min_total": 0.0, "max_total": 100.0, "fix_props": False},
                        {"kind": "plain", "prog": "P2", "t": [2020], "limit": "abs", "lower": [0.0], "upper": [7.0]}],
               "con": {"t": [2020], "total": [10.0], "bf": 1.0}}
WITNESS_PKG_PROPS = {"progs": ["P0", "P1", "P2"], "years": [2020], "scale": 1.0,
                     "alloc": {"P0": {"2020": 2.0}, "P1": {"2020": 8.0}, "P2": {"2020": 0.0}},
                     "adjs": [{"kind": "package", "name": "pkg0", "t": 2020, "progs": ["P0", "P1"], "min_props": [0.0, 0.0], "max_props": [0.3, 1.0], "min_total": 0.0, "max_total": 100.0, "fix_props": False},
                              {"kind": "plain", "prog": "P2", "t": [2020], "limit": "abs", "lower": [0.0], "upper": [7.0]}],
                     "con": {"t": [2020], "total": [10.0], "bf": 1.0}}
WITNESS_NAN = {"progs": ["P0", "P1"], "years": [2020], "scale": 1.0,
               "alloc": {"P0": {"2020": 0.0}, "P1": {"2020": 4.0}},
               "adjs": [{"kind": "plain", "prog": "P0", "t": [2020], "limit": "rel", "lower": [0.5], "upper": [math.inf]},
                        {"kind": "plain", "prog": "P1", "t": [2020], "limit": "rel", "lower": [0.5], "upper": [math.inf]}],
               "con": {"t": None, "total": None, "bf": 1.0}}


# ------------------------------------------------------------------------------------------------
# part 3: order of events in the real optimize()
# ------------------------------------------------------------------------------------------------
class StubModel:
    """stands for atomica.model.Model inside optimize(): holds the instructions, `process` does nothing"""

    def __init__(self, settings, framework, parset, progset, instructions):
        import sciris as sc

        self.program_instructions = sc.dcp(instructions)
        self.progset = progset

    def process(self):
        return


class StubMeasurable:
    """objective = squared distance of the allocation from a target (or inf)"""

    def __init__(self, target, t, value=None):
        self.target = target
        self.t = t
        self.value = value

    def get_baseline(self, model):
        return None

    def eval(self, model, baseline):
        if self.value is not None:
            return self.value
        return float(sum((model.program_instructions.alloc[p].get(self.t) - v) ** 2 for p, v in self.target.items()))


class StubProject:
    settings = None
    framework = None


def run_trace(ctx):
    import sciris as sc
    import atomica.optimization as ao

    Rec.install()
    events = []
    depth = {"obj": 0}
    orig = {"init": ao.Optimization.get_initialization, "hard": ao.Optimization.get_hard_constraints, "base": ao.Optimization.get_baselines,
            "obj": ao._objective_fcn, "con": ao.Optimization.constrain_instructions, "model": ao.Model, "asd": sc.asd}

    def w_init(self, *a, **k):
        events.append("init")
        return orig["init"](self, *a, **k)

    def w_hard(self, *a, **k):
        events.append("hard")
        return orig["hard"](self, *a, **k)

    def w_base(self, *a, **k):
        events.append("baselines")
        return orig["base"](self, *a, **k)

    def w_obj(x, **k):
        events.append("objective")
        depth["obj"] += 1
        try:
            return orig["obj"](x, **k)
        finally:
            depth["obj"] -= 1

    def w_con(self, *a, **k):
        if depth["obj"] == 0:
            events.append("final")
        return orig["con"](self, *a, **k)

    def w_asd(function, x, args=None, **k):
        events.append("search")
        return orig["asd"](function, x, args, **k)

    ao.Optimization.get_initialization = w_init
    ao.Optimization.get_hard_constraints = w_hard
    ao.Optimization.get_baselines = w_base
    ao._objective_fcn = w_obj
    ao.Optimization.constrain_instructions = w_con
    ao.Model = StubModel
    sc.asd = w_asd
    old = np.seterr(all="ignore")
    try:
        scen = [
            ("full", {"progs": ["P0", "P1", "P2"], "years": [2020], "scale": 1.0, "alloc": {"P0": {"2020": 10.0}, "P1": {"2020": 20.0}, "P2": {"2020": 30.0}},
                      "adjs": [{"kind": "plain", "prog": p, "t": [2020], "limit": "abs", "lower": [5.0], "upper": [40.0]} for p in ["P0", "P1", "P2"]],
                      "con": {"t": None, "total": None, "bf": 1.0}}, None),
            ("full", {"progs": ["P0", "P1", "P2"], "years": [2020, 2021], "scale": 1.0, "alloc": {p: {"2020": 10.0 * (i + 1), "2021": 12.0 * (i + 1)} for i, p in enumerate(["P0", "P1", "P2"])},
                      "adjs": [{"kind": "plain", "prog": p, "t": [2020, 2021], "limit": "rel", "lower": [0.5, 0.5], "upper": [2.0, 3.0]} for p in ["P0", "P1", "P2"]],
                      "con": {"t": [2020, 2021], "total": None, "bf": [1.5, 0.75]}}, None),
            ("unresolvable", {"progs": ["P0", "P1"], "years": [2020], "scale": 1.0, "alloc": {"P0": {"2020": 10.0}, "P1": {"2020": 20.0}},
                              "adjs": [{"kind": "plain", "prog": p, "t": [2020], "limit": "abs", "lower": [0.0], "upper": [40.0]} for p in ["P0", "P1"]],
                              "con": {"t": [2020], "total": [100.0], "bf": 1.0}}, None),
            ("invalid_initial", {"progs": ["P0", "P1"], "years": [2020], "scale": 1.0, "alloc": {"P0": {"2020": 10.0}, "P1": {"2020": 20.0}},
                                 "adjs": [{"kind": "plain", "prog": p, "t": [2020], "limit": "abs", "lower": [0.0], "upper": [40.0]} for p in ["P0", "P1"]],
                                 "con": {"t": None, "total": None, "bf": 1.0}}, math.inf),
        ]
        lines, obs = [], []
        for name, sc_, value in scen:
            del events[:]
            ins, adjs, con = build(sc_)
            target = {p: r_ for p, r_ in zip(sc_["progs"], [25.0, 5.0, 30.0])}
            opt = ao.Optimization(adjustments=adjs, measurables=[StubMeasurable(target, sc_["years"][0], value)], constraints=[con], maxiters=6)
            raised = None
            res = None
            try:
                res = ao.optimize(StubProject(), opt, None, StubProgset(), ins, optim_args={"randseed": ctx.seed + 1})
            except ao.UnresolvableConstraint:
                raised = "UnresolvableConstraint"
            except ao.InvalidInitialConditions:
                raised = "InvalidInitialConditions"
            ev = list(events)
            k = max(0, ev.count("objective") - 1) if "search" in ev else 0
            lines.append(f"hardcon trace {0 if raised == 'UnresolvableConstraint' else 1} {0 if raised == 'InvalidInitialConditions' else 1} {k}")
            obs.append((name, sc_, ev, raised, res))
        reps = core.drive(lines)
        for (name, sc_, ev, raised, res), rep in zip(obs, reps):
            ctx.count("trace." + name)
            ctx.case({"trace": name, "events": ev}, nontrivial=True)
            replay = {"kind": "trace", "scenario": sc_, "events": ev, "model": rep, "raised": raised}
            exp = {"full": None, "unresolvable": "UnresolvableConstraint", "invalid_initial": "InvalidInitialConditions"}[name]
            if raised != exp:
                ctx.brk("correspondence", f"optimize() scenario {name}: raised {raised}, expected {exp}", replay=replay)
                continue
            if " ".join(ev) != rep:
                ctx.brk("correspondence", f"optimize() event order {ev} vs model {rep}", replay=replay)
                # direct oracle: the pre-check precedes every objective evaluation
                if "objective" in ev and ("hard" not in ev or ev.index("hard") > ev.index("objective")):
                    ctx.violation({"api": "optimize", "case": "objective-before-feasibility-check"}, f"events {ev}", replay)
                continue
            ctx.traces += 1
            if name == "unresolvable" and "objective" in ev:
                ctx.violation({"api": "optimize", "case": "objective-before-feasibility-check"}, f"events {ev}", replay)
            if res is not None:
                # end-to-end oracle on the returned instructions
                c = sc_["con"]
                for j, t in enumerate(c["t"] or sc_["years"]):
                    bf = c["bf"][j] if isinstance(c["bf"], list) else c["bf"]
                    tot0 = sum(sc_["alloc"][p][str(t)] for p in sc_["progs"]) * bf
                    got = sum(res.alloc[p].get(t) for p in sc_["progs"])
                    if abs(got - tot0) > TOL * tot0 * (1 + 1e-9):
                        key = K_SUM if abs(got - tot0) <= 1.01e-5 * tot0 + 1e-8 else {"api": "optimize", "case": "returned-instructions-violate-total"}
                        ctx.violation(key, f"optimize() returned spending {got!r} in {t}, required {tot0!r}", replay)
                    for a in sc_["adjs"]:
                        if t in a["t"]:
                            i = a["t"].index(t)
                            v0 = sc_["alloc"][a["prog"]][str(t)]
                            lo, hi = (a["lower"][i], a["upper"][i]) if a["limit"] == "abs" else (a["lower"][i] * v0, a["upper"][i] * v0)
                            v = res.alloc[a["prog"]].get(t)
                            if v < lo - 1e-9 * tot0 or v > hi + 1e-9 * tot0:
                                ctx.violation({"api": "optimize", "case": "returned-instructions-violate-bound"}, f"{a['prog']}@{t} = {v!r} outside [{lo}, {hi}]", replay)
    finally:
        np.seterr(**old)
        ao.Optimization.get_initialization = orig["init"]
        ao.Optimization.get_hard_constraints = orig["hard"]
        ao.Optimization.get_baselines = orig["base"]
        ao._objective_fcn = orig["obj"]
        ao.Optimization.constrain_instructions = orig["con"]
        ao.Model = orig["model"]
        sc.asd = orig["asd"]


# ------------------------------------------------------------------------------------------------
# ----------------------------------------------------------------------------------------------
# history: the hard constraints are a function of the optimisation's specification and of the instructions given -- not of what the same objects were used for before
# ----------------------------------------------------------------------------------------------
def _hard_of(opt, ins):
    import atomica.optimization as ao

    try:
        x0, _, _ = opt.get_initialization(StubProgset(), ins)
        hcs = opt.get_hard_constraints(x0, ins)
    except ao.UnresolvableConstraint:
        return ["unresolvable"]
    except ao.InvalidInitialConditions:
        return ["invalid-initial"]
    except Exception as e:
        return ["exception", type(e).__name__, str(e)[:120]]
    hc = hcs[0]
    return ["ok", {int(t): round(float(np.ravel(v)[0]), 9) for t, v in hc["initial_total_spend"].items()},
            {int(t): {name: [round(float(b[0]), 9), round(float(b[1]), 9)] for name, b in d.items()} for t, d in hc["bounds"].items()}]


def _scaled(sc_, k):
    s2 = copy.deepcopy(sc_)
    s2["alloc"] = {p: {t: v * k for t, v in d.items()} for p, d in sc_["alloc"].items()}
    if s2["con"]["total"] is not None:
        s2["con"]["total"] = [None if v is None else v * k for v in s2["con"]["total"]]
    for a in s2["adjs"]:
        if a["kind"] == "package":
            a["min_total"] = None if a["min_total"] is None else a["min_total"] * k
            a["max_total"] = None if a["max_total"] is None else a["max_total"] * k
        if a["kind"] == "plain" and a["limit"] == "abs":
            a["lower"] = [v * k for v in a["lower"]]
            a["upper"] = [v * k if math.isfinite(v) else v for v in a["upper"]]
    return s2


def run_reuse(ctx):
    import atomica.optimization as ao

    r = ctx.rng
    done = 0
    for _ in range(ctx.n(60, 600)):
        scA = gen_scenario(r)
        k = r.choice([2.0, 0.5, 3.0])
        scB = _scaled(scA, k)
        try:
            insA, adjs, con = build(scA)
            insB, adjsB_fresh, conB_fresh = build(scB)
        except AssertionError:
            continue
        # the SAME adjustment and constraint objects, used first with instructions A and then with instructions B (B = A scaled: relative limits must follow the new starting point).
        # Absolute numbers stated in the objects (absolute limits, package totals, explicit totals) are part of the specification, so only scenarios without them are reused as they are.
        stated_abs = any((a["kind"] == "plain" and a["limit"] == "abs" and any(v not in (0.0,) and math.isfinite(v) for v in list(a["lower"]) + list(a["upper"]))) or
                         (a["kind"] == "package" and (a["min_total"] is not None or a["max_total"] is not None)) for a in scA["adjs"]) or scA["con"]["total"] is not None
        if stated_abs or any(a["kind"] == "package" for a in scA["adjs"]):
            continue
        opt = ao.Optimization(adjustments=adjs, measurables=[], constraints=[con])
        old = np.seterr(all="ignore")
        try:
            first = _hard_of(opt, insA)
            reused = _hard_of(opt, insB)
            fresh = _hard_of(ao.Optimization(adjustments=adjsB_fresh, measurables=[], constraints=[conB_fresh]), insB)
        finally:
            np.seterr(**old)
        done += 1
        ctx.count("reuse.compared")
        if any(a["kind"] == "plain" and a["limit"] == "rel" for a in scA["adjs"]):
            ctx.count("reuse.relative_limits")
        ctx.case({"oracle": "reuse", "n_adj": len(scA["adjs"]), "k": k}, nontrivial=first[0] == "ok", sample=None)
        if reused != fresh and not (reused[0] == fresh[0] == "exception"):
            ctx.violation({"api": "Optimization.get_hard_constraints", "case": "depends-on-earlier-use-of-the-same-objects"},
                          f"hard constraints for instructions B computed with adjustment / constraint objects that were used before with instructions A: {str(reused)[:260]}; with freshly built objects: {str(fresh)[:260]} (B = A x {k})",
                          {"kind": "reuse", "scenario": scA, "k": k})
    # a TotalSpendConstraint without explicit years shared by two optimisations, the second adjusting an additional year
    for _ in range(ctx.n(20, 200)):
        sc_ = gen_scenario(r)
        if sc_["con"]["t"] is not None or sc_["con"]["total"] is not None or len(sc_["years"]) < 2 or any(a["kind"] != "plain" for a in sc_["adjs"]):
            continue
        y_first = min(sc_["years"])
        sc1 = copy.deepcopy(sc_)
        sc1["adjs"] = [dict(a, t=[y_first], lower=[a["lower"][a["t"].index(y_first)]], upper=[a["upper"][a["t"].index(y_first)]]) for a in sc_["adjs"] if y_first in a["t"]]
        if not sc1["adjs"] or sc1["adjs"] == sc_["adjs"]:
            continue
        try:
            ins, adjs_all, con_shared = build(sc_)
            _, adjs_first, _ = build(sc1)
            _, adjs_all_fresh, con_fresh = build(sc_)
        except AssertionError:
            continue
        old = np.seterr(all="ignore")
        try:
            _hard_of(ao.Optimization(adjustments=adjs_first, measurables=[], constraints=[con_shared]), ins)
            reused = _hard_of(ao.Optimization(adjustments=adjs_all, measurables=[], constraints=[con_shared]), ins)
            fresh = _hard_of(ao.Optimization(adjustments=adjs_all_fresh, measurables=[], constraints=[con_fresh]), ins)
        finally:
            np.seterr(**old)
        ctx.count("reuse.shared_constraint")
        ctx.case({"oracle": "reuse-constraint", "years": sc_["years"]}, nontrivial=True, sample=None)
        if reused != fresh and not (reused[0] == fresh[0] == "exception"):
            ctx.violation({"api": "TotalSpendConstraint.get_hard_constraint", "case": "depends-on-earlier-use-of-the-same-objects"},
                          f"a TotalSpendConstraint() without explicit years, used first by an optimisation that adjusts {y_first} only and then by one that adjusts {sc_['years']}: {str(reused)[:240]}; a fresh constraint gives {str(fresh)[:240]}",
                          {"kind": "reuse-constraint", "scenario": sc_})


def run_reuse_packages(ctx):
    """(c) an Optimization object whose package was replaced by a package of the same name with other members gives the constraints of the NEW package;
    (d) two adjustable-total packages with the same name in different years are either refused, or each year's total is really met after constraining."""
    import atomica as at
    import atomica.optimization as ao
    import sciris as sc
    from atomica.utils import TimeSeries

    r = ctx.rng
    for _ in range(ctx.n(4, 30)):
        progs = ["P0", "P1", "P2", "P3"]
        spend = {p: float(r.choice([10.0, 25.0, 40.0, 5.0])) for p in progs}
        years = [2020, 2021]
        mk_ins = lambda: at.ProgramInstructions(start_year=2020, alloc={p: TimeSeries(t=years, vals=[spend[p], spend[p]]) for p in progs})
        def pkg(name, t, members):
            sp = np.array([spend[m] for m in members])
            return ao.SpendingPackageAdjustment(name, t, list(members), sp, min_total_spend=0.0, max_total_spend=float(sp.sum()) * 3)
        other = lambda t, members: [ao.SpendingAdjustment(p_, [t], "abs", [0.0], [1000.0]) for p_ in progs if p_ not in members]
        bf = r.choice([1.2, 0.8])
        # (c)
        old = np.seterr(all="ignore")
        try:
            m1, m2 = ["P0", "P1"], ["P2", "P3"]
            opt = ao.Optimization(adjustments=[pkg("pk", 2020, m1)] + other(2020, m1), measurables=[], constraints=[ao.TotalSpendConstraint(t=[2020], budget_factor=bf)])
            _hard_of(opt, mk_ins())
            opt.adjustments = [pkg("pk", 2020, m2)] + other(2020, m2)
            reused = _hard_of(opt, mk_ins())
            fresh = _hard_of(ao.Optimization(adjustments=[pkg("pk", 2020, m2)] + other(2020, m2), measurables=[], constraints=[ao.TotalSpendConstraint(t=[2020], budget_factor=bf)]), mk_ins())
        finally:
            np.seterr(**old)
        ctx.count("reuse.package_replaced")
        ctx.case({"oracle": "reuse-package", "bf": bf}, nontrivial=True, sample=None)
        if reused != fresh:
            ctx.violation({"api": "Optimization.get_adjustment", "case": "depends-on-earlier-use-of-the-same-objects"},
                          f"an Optimization whose package 'pk' ({m1}) was replaced by a package of the same name with members {m2}: hard constraints {str(reused)[:240]}; a fresh Optimization gives {str(fresh)[:240]}", {"kind": "reuse-package"})
        # (d)
        old = np.seterr(all="ignore")
        try:
            adjs = [pkg("pk", 2020, ["P0", "P1"]), pkg("pk", 2021, ["P0", "P1"])] + other(2020, ["P0", "P1"]) + other(2021, ["P0", "P1"])
            opt = ao.Optimization(adjustments=adjs, measurables=[], constraints=[ao.TotalSpendConstraint(t=years, budget_factor=bf)])
            ins = mk_ins()
            status, totals = "ok", None
            try:
                x0, xmin, xmax = opt.get_initialization(StubProgset(), ins)
                hcs = opt.get_hard_constraints(x0, ins)
                x = np.array(x0, dtype=float) * r.choice([0.7, 1.4])
                i3 = sc.dcp(ins)
                opt.update_instructions(np.clip(x, xmin, xmax), i3)
                opt.constrain_instructions(i3, hcs)
                totals = {t: (float(sum(i3.alloc[p_].get(t) for p_ in progs)), float(np.ravel(hcs[0]["initial_total_spend"][t])[0]) if t in hcs[0]["initial_total_spend"] else None) for t in years}
            except Exception as e:
                status = type(e).__name__ + ": " + str(e)[:80]
        finally:
            np.seterr(**old)
        ctx.count("reuse.duplicate_package_name")
        ctx.case({"oracle": "duplicate-package-name", "bf": bf}, nontrivial=True, sample=None)
        want = {t: bf * sum(spend.values()) for t in years}
        if status == "ok" and any(abs(totals[t][0] - want[t]) > 1e-6 * want[t] for t in years):
            ctx.violation({"api": "TotalSpendConstraint.get_hard_constraint", "case": "same-package-name-in-two-years-accepted-but-total-not-met"},
                          f"two adjustable-total packages named 'pk' (years 2020 and 2021) under a total-spend constraint x{bf}: accepted, but after constraining the yearly totals are {{t: round(v[0], 4) for t, v in totals.items()}} = { {t: round(v[0], 4) for t, v in totals.items()} }, required {want}", {"kind": "duplicate-package"})


def run(ctx):
    import logging
    import atomica

    atomica.logger.setLevel(logging.CRITICAL)
    Rec.install()
    run_constrain(ctx)
    run_scenarios(ctx)
    settotal_cases(ctx)
    run_trace(ctx)
    run_reuse(ctx)
    run_reuse_packages(ctx)
    byk = {}
    for v in ctx.violations:
        k = v["key"]["api"] + ":" + v["key"]["case"]
        byk[k] = byk.get(k, 0) + 1
    ctx.extra["violations_by_key"] = byk
    ctx.exhaustive = False


def replay(ctx, data):
    import logging
    import atomica

    atomica.logger.setLevel(logging.CRITICAL)
    print("key:", data.get("key"))
    print("what:", data.get("what"))
    if data.get("kind") == "no-failing-input-found":
        rc = 0
        for b in data.get("broken", [])[:5]:
            print("broken:", b["what"][:300])
            if "replay" in b:
                rc |= replay_one(ctx, b["replay"])
        return rc
    return replay_one(ctx, data["replay"])


def replay_one(ctx, rp):
    if rp["kind"] == "constrain":
        rec = call_csb(rp["x"], rp["s"], rp["lb"], rp["ub"])
        reps = core.drive([constrain_line("cur", rec), constrain_line("spec", rec)])
        print("impl:", rec["outcome"], "solver:", rec["solver"])
        if rec["outcome"][0] == "ok" and rp["s"]:
            print("relative sum error:", float(abs(float_sum_exact(rec["outcome"][1]) - Fraction(rp["s"])) / Fraction(rp["s"])))
        print("model[cur]: ", reps[0][:300])
        print("model[spec]:", reps[1][:300])
        bad = oracle_constrain(ctx, rec)
        for key, what in bad:
            print("ORACLE FAILS:", key, what[:300])
        return 1 if bad else 0
    if rp["kind"] == "scenario":
        rec = run_scenario(rp["scenario"], rp.get("proposals") or None, 0)
        check_scenarios(ctx, [rec])
        print("impl hard:", str(rec.get("hard"))[:400])
        for pr in rec.get("proposals", []):
            print("proposal", pr["x"], "update", pr["update"], "constrain", pr.get("constrain"), "post", pr.get("post"))
    elif rp["kind"] == "settotal":
        settotal_cases(ctx, [(rp["mem"], rp["val"])])
    elif rp["kind"] == "trace":
        run_trace(ctx)
    for v in ctx.violations[:5]:
        print("ORACLE FAILS:", v["key"], v["what"][:300])
    for b in ctx.breaks[:5]:
        print("BREAK:", b["what"][:300])
    return 1 if ctx.violations or ctx.breaks else 0


if __name__ == "__main__":
    # the implementation iterates over *sets* of program names (hard_constraints["programs"][t]); their order decides the order of
    # the vector handed to SLSQP, hence its rounding dust.  Fix the string hash seed so that a run replays exactly.
    if os.environ.get("PYTHONHASHSEED") != "0":
        os.environ["PYTHONHASHSEED"] = "0"
        os.execv(sys.executable, [sys.executable] + sys.argv)
    core.main(sys.modules[__name__])
