"""
C12 -- Program outcomes are a coverage-weighted average of baseline and combinations.

Mode A: the real `atomica.programs.Covout(...).get_outcome({prog: np.array([c])})` (and `ProgramSet.get_outcomes`)
against `Atomica.Covout.outcome` (Lean driver, request kind `covout`), plus the combination table
(`_cached_progs` order, `_combination_outcomes`) and the combination weights.  The implementation's weights are
*probed from returned values only*: `get_outcome` is linear in the combination outcomes, so with baseline 0, single
outcomes that reproduce the sorted order and an explicit value for every combination of >= 2 programs, the weight of a
combination is the difference of two returned values ("indicator outcomes").

Direct oracles on the implementation (the property's own sentences): probed weights are >= 0, sum to <= 1 and have
marginals equal to the coverages; the value lies in the hull of baseline / single outcomes / explicit values; zero
coverage gives the baseline; one covered program gives baseline + c*(outcome-baseline); with 0/1 coverages the value
is the outcome of that combination (explicit where given, else the farthest member); raising one coverage does not
move the value towards the baseline when all programs move the parameter the same way (no explicit interactions:
proved for all three interactions; monotone explicit interactions: proved for random and nested, and *false* for the
additive interaction above 100 % -- Lean witness `additive_mono_fails_with_interactions`, reported as a finding).
"""
import itertools
import json
import sys
from fractions import Fraction

import numpy as np

from vlib import core
from vlib.core import q, unq

PROPERTY = "C12"
LEAN_MODS = ["AtomicaProofs.Properties.C12"]
THEOREMS = [
    "Atomica.C12.weights_nonneg",
    "Atomica.C12.weights_total",
    "Atomica.C12.marginal",
    "Atomica.C12.outcome_eq_weighted",
    "Atomica.C12.outcome_convex",
    "Atomica.C12.outcome_hull",
    "Atomica.C12.outcome_zero_cov",
    "Atomica.C12.outcome_single",
    "Atomica.C12.best_is_farthest",
    "Atomica.C12.explicit_is_used",
    "Atomica.C12.sortProgs_perm",
    "Atomica.C12.sortProgs_sorted",
    "Atomica.C12.nested_loop_eq",
    "Atomica.C12.nested_loop_argsort",
    "Atomica.C12.outcome_mono_best",
    "Atomica.C12.outcome_mono_best_neg",
    "Atomica.C12.random_mono_monotone_table",
    "Atomica.C12.nested_mono_monotone_table",
    "Atomica.C12.random_nested_mono_antitone_table",
    "Atomica.C12.additive_mono_fails_with_interactions",
]
TRUSTED = [
    "C12: float evaluation of get_outcome vs exact rational model compared to rtol 1e-11 of the largest magnitude involved",
    "C12: model `addW` writes the code's double loop `sum_i prod_j (i==j ? S_i*additive_i : net_random[S,j])` as a list recursion; `nestedG 0 1` replaces the argsort loop (proved equal to the loop for every ascending idx: nested_loop_eq)",
    "C12: explicit values for single-program 'combinations' (imp_interaction 'A=0.3') are outside the theorems' hypothesis NoSingleEx; the model still mirrors the code there (probe only)",
]
RULE = ("cases = (interaction, baseline, 0..5 single outcomes, coverages, explicit values for subsets of >=2 programs); exhaustive 5-level coverage grid "
        "{0,1/4,1/2,3/4,1}^n for n<=2 (quick) / n<=3 (thorough) over fixed outcome configurations, random beyond (dyadic and decimal coverages, sums below/at/above 1, "
        "ties in coverage and |outcome-baseline|, mixed signs); non-trivial = at least two programs with non-zero coverage (the interaction matters)")
EXPECTED_BRANCHES = [
    "n.0", "n.1", "n.2", "n.3", "n.4", "n.5", "inter.additive", "inter.nested", "inter.random",
    "additive.low", "additive.high", "additive.sum_eq_1", "additive.first_full", "nested.cov_ties", "cov.has0", "cov.has1",
    "out.mag_ties", "out.mixed_sign", "out.eq_baseline", "explicit.some", "explicit.none", "explicit.dup",
    "oracle.weights_probed", "oracle.mono_checked", "oracle.indicator", "oracle.zero", "oracle.single", "progset.get_outcomes",
    "probe.singleton_explicit", "probe.nonmonotone_explicit", "model.nestedloop_agrees", "finding.additive_mono_explicit",
]
INTERS = ["additive", "nested", "random"]
GRID5 = [0.0, 0.25, 0.5, 0.75, 1.0]
FINDING_KEY = {"api": "Covout.get_outcome", "case": "mono-additive-above-100pct-explicit-interaction"}


def name(i):
    return f"P{i}"


class Case:
    __slots__ = ("inter", "b", "outs", "covs", "ex", "tag")

    def __init__(self, inter, b, outs, covs, ex=(), tag=""):
        self.inter = inter
        self.b = float(b)
        self.outs = [float(x) for x in outs]
        self.covs = [float(x) for x in covs]
        self.ex = [(tuple(sorted(s)), float(v)) for s, v in ex]  # ordered list; later entries override
        self.tag = tag

    @property
    def n(self):
        return len(self.outs)

    def with_covs(self, covs):
        return Case(self.inter, self.b, self.outs, covs, self.ex, self.tag)

    def to_json(self):
        return {"inter": self.inter, "b": self.b, "outs": self.outs, "covs": self.covs, "ex": [[list(s), v] for s, v in self.ex], "tag": self.tag}

    @staticmethod
    def from_json(d):
        return Case(d["inter"], d["b"], d["outs"], d["covs"], [(tuple(s), v) for s, v in d["ex"]], d.get("tag", ""))

    def imp_string(self):
        if not self.ex:  # None, 'best' and 'Best' all mean "no explicit values"
            return [None, "best", "Best"][(self.n + len(self.inter)) % 3]
        # the string is free text from a spreadsheet cell: the order of the programs in a combination and white space around '+', '=' and ',' carry no meaning
        style = (self.n + len(self.ex) + int(abs(self.b) * 16)) % 4
        if style == 0:
            return ",".join("+".join(name(i) for i in s) + "=" + repr(v) for s, v in self.ex)
        if style == 1:
            return ", ".join(" + ".join(name(i) for i in s) + " = " + repr(v) for s, v in self.ex)
        if style == 2:
            return ",".join("+".join(name(i) for i in reversed(s)) + "=" + repr(v) for s, v in self.ex)
        return ",".join(name(s[0]) + "".join("+ " + name(i) for i in s[1:]) + "=" + repr(v) for s, v in self.ex)

    def request(self, what):
        toks = ["covout", what, self.inter, q(self.b), str(self.n)]
        for o, c in zip(self.outs, self.covs):
            toks += [q(o), q(c)]
        toks.append(str(len(self.ex)))
        for s, v in self.ex:
            toks += [str(sum(1 << i for i in s)), q(v)]
        return " ".join(toks)

    def script(self):
        progs = "{" + ", ".join(f"'{name(i)}': {o!r}" for i, o in enumerate(self.outs)) + "}"
        cov = "{" + ", ".join(f"'{name(i)}': np.array([{c!r}])" for i, c in enumerate(self.covs)) + "}"
        return (f"import numpy as np, atomica.programs as ap\n"
                f"co = ap.Covout('par', 'pop', {progs}, cov_interaction={self.inter!r}, imp_interaction={self.imp_string()!r}, baseline={self.b!r})\n"
                f"print(co.get_outcome({cov}))")


def build(case):
    import atomica.programs as ap

    progs = {name(i): o for i, o in enumerate(case.outs)}
    return ap.Covout("par", "pop", progs, cov_interaction=case.inter, imp_interaction=case.imp_string(), baseline=case.b)


def cov_dict(covs):
    return {name(i): np.array([c]) for i, c in enumerate(covs)}


def impl_value(case, co=None):
    co = co or build(case)
    return float(co.get_outcome(cov_dict(case.covs)))


def scale_of(case):
    return max([abs(case.b)] + [abs(o) for o in case.outs] + [abs(v) for _, v in case.ex] + [1e-3])


# ----------------------------------------------------------------------------------------------
# specification-side helpers (independent of model and implementation)
# ----------------------------------------------------------------------------------------------
def explicit_map(case):
    d = {}
    for s, v in case.ex:
        d[frozenset(s)] = v
    return d


def hull(case):
    vals = [case.b] + list(case.outs) + [v for _, v in case.ex]
    return min(vals), max(vals)


def combo_spec(case, subset):
    """admissible outcomes of a non-empty combination: explicit value, else the member outcome(s) farthest from baseline"""
    ex = explicit_map(case)
    fs = frozenset(subset)
    if fs in ex:
        return [ex[fs]]
    mags = {i: abs(Fraction(case.outs[i]) - Fraction(case.b)) for i in subset}
    mx = max(mags.values())
    # the code orders by the float |out - b|: members whose exact distance is within the rounding error of that subtraction of the largest are ties
    dust = Fraction(4e-16) * max([abs(Fraction(case.b))] + [abs(Fraction(case.outs[i])) for i in subset])
    return [case.outs[i] for i in subset if mags[i] >= mx - dust]


def order_exact_consistent(case):
    """float ordering of |out-b| (used by the code) agrees with the exact ordering (used by the model)"""
    fl = [abs(o - case.b) for o in case.outs]
    exq = [abs(Fraction(o) - Fraction(case.b)) for o in case.outs]
    for i in range(case.n):
        for j in range(i + 1, case.n):
            if (fl[i] < fl[j]) != (exq[i] < exq[j]) or (fl[i] == fl[j]) != (exq[i] == exq[j]):
                return False
    return True


def sum_branch_ambiguous(case):
    if case.inter != "additive" or case.n < 2:
        return False
    # the code sums the coverages in sorted order with float addition; ambiguous if any float summation order could cross 1 differently
    ex = sum(Fraction(c) for c in case.covs)
    return ex != 1 and abs(float(ex) - 1.0) < 1e-12


def same_sign(case):
    ds = [Fraction(o) - Fraction(case.b) for o in case.outs]
    return all(d >= 0 for d in ds) or all(d <= 0 for d in ds)


def monotone_table(case):
    """explicit values keep the sign of the single programs and never lower the magnitude of a sub-combination"""
    n = case.n
    b = Fraction(case.b)
    ds = [Fraction(o) - b for o in case.outs]
    if all(d >= 0 for d in ds):
        sg = 1
    elif all(d <= 0 for d in ds):
        sg = -1
    else:
        return False
    ex = explicit_map(case)
    val = {}
    for r in range(0, n + 1):
        for s in itertools.combinations(range(n), r):
            fs = frozenset(s)
            if r == 0:
                val[fs] = Fraction(0)
            elif fs in ex:
                val[fs] = sg * (Fraction(ex[fs]) - b)
            else:
                val[fs] = max(sg * ds[i] for i in s)
            if val[fs] < 0:
                return False
            for i in s:
                if val[fs - {i}] > val[fs]:
                    return False
    return True


# ----------------------------------------------------------------------------------------------
# probing the implementation's weights from returned values
# ----------------------------------------------------------------------------------------------
def probe_weights(case, order):
    """weights of all 2^n combinations (tuple of sorted positions -> weight), measured on get_outcome return values.
    `order[p]` = dict position of the program at sorted position p (single outcomes 2(n-p) reproduce this order)."""
    import atomica.programs as ap

    n = case.n
    pos = {order[p]: p for p in range(n)}
    base = [2.0 * (n - pos[i]) for i in range(n)]
    subsets = [s for r in range(2, n + 1) for s in itertools.combinations(range(n), r)]
    cd = cov_dict(case.covs)

    def run(outs, one=None):
        progs = {name(i): o for i, o in enumerate(outs)}
        imp = ",".join("+".join(name(i) for i in s) + "=" + ("1.0" if s == one else "0.0") for s in subsets) or None
        co = ap.Covout("par", "pop", progs, cov_interaction=case.inter, imp_interaction=imp, baseline=0.0)
        return float(co.get_outcome(cd))

    v0 = run(base)
    w = {}
    for i in range(n):
        outs = list(base)
        outs[i] += 1.0
        w[(i,)] = run(outs) - v0
    for s in subsets:
        w[s] = run(base, one=s) - v0
    return w


def model_weights(rep, order, n):
    """driver `weights` reply -> {tuple of dict positions: Fraction} (table order: first sorted program = most significant bit)"""
    ws = [unq(t) for t in rep.split()]
    out = {}
    for k, wv in enumerate(ws):
        members = tuple(sorted(order[p] for p in range(n) if (k >> (n - 1 - p)) & 1))
        out[members] = wv
    return out


# ----------------------------------------------------------------------------------------------
# generators
# ----------------------------------------------------------------------------------------------
def rand_cov(r, n, style=None):
    style = style or r.choice(["grid5", "grid8", "dec", "float", "sum1", "over", "ties", "bin", "firstfull"])
    if style == "grid5":
        return [r.choice(GRID5) for _ in range(n)]
    if style == "grid8":
        return [r.randint(0, 8) / 8 for _ in range(n)]
    if style == "dec":
        return [r.randint(0, 10) / 10 for _ in range(n)]
    if style == "float":
        return [r.choice([0.0, 1.0, r.random(), r.random()]) for _ in range(n)]
    if style == "bin":
        return [float(r.randint(0, 1)) for _ in range(n)]
    if style == "ties":
        v = r.choice([0.25, 0.5, 0.3, 0.75, r.random()])
        return [r.choice([v, v, r.choice(GRID5)]) for _ in range(n)]
    if style == "firstfull":
        c = [r.randint(0, 8) / 8 for _ in range(n)]
        if n:
            c[r.randrange(n)] = 1.0
        return c
    if style == "sum1":  # dyadic parts summing to exactly 1
        if n == 0:
            return []
        cuts = sorted(r.randint(0, 16) for _ in range(n - 1))
        parts = [b - a for a, b in zip([0] + cuts, cuts + [16])]
        return [p / 16 for p in parts]
    if style == "over":  # sums above 1
        return [r.choice([0.5, 0.75, 1.0, 0.625, r.random() * 0.5 + 0.5]) for _ in range(n)]
    raise ValueError(style)


def rand_outs(r, n):
    b = r.choice([0.0, 0.5, 1.0, -1.0, 0.25, 10.0, r.randint(-8, 8) / 8, round(r.random(), 3)])
    style = r.choice(["above", "below", "mixed", "ties", "symm", "float", "withb"])
    outs = []
    for i in range(n):
        if style == "above":
            o = b + r.randint(0, 16) / 16
        elif style == "below":
            o = b - r.randint(0, 16) / 16
        elif style == "mixed":
            o = b + r.randint(-16, 16) / 16
        elif style == "ties":
            o = b + r.choice([0.5, 0.5, 0.25, 1.0])
        elif style == "symm":
            o = b + r.choice([0.5, -0.5, 0.25, -0.25, 1.0])
        elif style == "withb":
            o = r.choice([b, b, b + r.randint(-4, 4) / 4])
        else:
            o = b + (r.random() * 2 - 1) * r.choice([1, 1, 100])
        outs.append(o)
    return b, outs


def rand_ex(r, b, outs, mode=None):
    n = len(outs)
    subsets = [s for k in range(2, n + 1) for s in itertools.combinations(range(n), k)]
    mode = mode or r.choice(["none", "none", "some", "some", "all", "dup", "monotone"])
    if mode == "none" or not subsets:
        return []
    ex = []
    if mode == "monotone":
        ds = [o - b for o in outs]
        sg = 1 if all(d >= 0 for d in ds) else (-1 if all(d <= 0 for d in ds) else 0)
        if sg == 0:
            return []
        val = {}
        for s in subsets:  # increasing size: every proper subset already has a value
            lower = max([sg * ds[i] for i in s] + [val.get(t, 0) for t in itertools.combinations(s, len(s) - 1)])
            if r.random() < 0.5:
                v = lower + r.choice([0, 0.25, 0.5, 1.0, 2.0])
                ex.append((s, b + sg * v))
                val[s] = v
            else:
                best = max(sg * ds[i] for i in s)
                if best < lower:  # 'best' would lower a sub-combination: must be explicit
                    ex.append((s, b + sg * lower))
                    val[s] = lower
                else:
                    val[s] = best
        return ex
    p = {"some": 0.35, "all": 1.0, "dup": 0.5}[mode]
    pool = outs + [b, b + 0.5, b - 0.5, b + 2, b - 2]
    for s in subsets:
        if r.random() < p:
            ex.append((s, r.choice(pool) + r.choice([0, 0, 0.125, -0.125])))
    if mode == "dup" and ex:
        s, _ = r.choice(ex)
        ex.append((s, r.choice(pool)))
        r.shuffle(ex)
    return ex


CONFIGS = {  # fixed outcome configurations for the exhaustive coverage grids: (baseline, outs, explicit)
    1: [(0.5, [1.0], []), (0.5, [0.0], []), (0.0, [0.0], [])],
    2: [(0.5, [1.0, 0.75], []), (0.5, [0.75, 1.0], []), (0.5, [0.0, 0.25], []), (0.5, [1.0, 0.0], []), (0.5, [0.75, 0.75], []), (0.5, [0.5, 1.0], []),
        (0.5, [1.0, 0.75], [((0, 1), 1.5)]), (0.5, [1.0, 0.75], [((0, 1), 0.625)]), (0.5, [0.75, 1.0], [((0, 1), 0.25)]), (0.0, [0.3, 0.7], [((0, 1), 0.9)])],
    3: [(0.0, [1.0, 0.5, 0.25], []), (0.0, [0.25, 1.0, 0.5], []), (1.0, [0.0, 0.5, 0.75], []), (0.0, [1.0, -0.5, 0.25], []), (0.0, [0.5, 0.5, 0.5], []), (0.0, [0.5, -0.5, 0.5], []),
        (0.0, [1.0, 0.5, 0.25], [((0, 1), 1.5), ((0, 1, 2), 2.0)]), (0.0, [0.25, 1.0, 0.5], [((0, 2), 0.125), ((1, 2), 3.0)]), (0.25, [1.0, 0.5, 0.75], [((0, 1, 2), 0.0)]),
        (0.0, [0.5, 0.25, 1.0], [((0, 1), 0.75), ((0, 2), 1.0), ((1, 2), 1.25), ((0, 1, 2), 1.5)])],
}


def gen_cases(ctx):
    r = ctx.rng
    cases = []
    # n = 0
    for inter in INTERS:
        cases.append(Case(inter, r.choice([0.0, 0.3, -2.0]), [], [], tag="n0"))
    # exhaustive grids
    nmax = 2 if ctx.quick else 3
    for n in range(1, nmax + 1):
        for (b, outs, ex) in CONFIGS[n]:
            for inter in INTERS:
                for covs in itertools.product(GRID5, repeat=n):
                    cases.append(Case(inter, b, outs, covs, ex, tag=f"grid{n}"))
    if ctx.quick:  # a slice of the n = 3 grid
        for (b, outs, ex) in CONFIGS[3]:
            for inter in INTERS:
                for covs in r.sample(list(itertools.product(GRID5, repeat=3)), 25):
                    cases.append(Case(inter, b, outs, covs, ex, tag="grid3s"))
    # random
    for _ in range(ctx.n(12000, 120000)):
        n = r.choice([1, 2, 2, 3, 3, 4, 4, 5, 5])
        b, outs = rand_outs(r, n)
        ex = rand_ex(r, b, outs)
        cases.append(Case(r.choice(INTERS), b, outs, rand_cov(r, n), ex, tag="rand"))
    return cases


# ----------------------------------------------------------------------------------------------
# one case: correspondence + oracles
# ----------------------------------------------------------------------------------------------
def oracle_hull(case, v):
    lo, hi = hull(case)
    tol = 1e-11 * scale_of(case)
    if not (lo - tol <= v <= hi + tol):
        return f"value {v!r} outside [{lo!r}, {hi!r}] (smallest/largest of baseline, single outcomes, explicit values)"
    return None


def check_weights(ctx, case, order, wrep, key, compare_model=True):
    """probe the implementation's weights; oracle (distribution + marginals) and comparison with the model"""
    n = case.n
    w = probe_weights(case, order)
    ctx.count("oracle.weights_probed")
    tol = 2e-11
    bad = None
    tot = sum(w.values())
    if min(w.values()) < -tol:
        s = min(w, key=w.get)
        bad = f"probed weight of combination {s} is negative: {w[s]!r}"
    elif tot > 1 + tol:
        bad = f"probed weights sum to {tot!r} > 1"
    else:
        for i in range(n):
            mi = sum(v for s, v in w.items() if i in s)
            if abs(mi - case.covs[i]) > tol:
                bad = f"marginal of program {name(i)} is {mi!r}, coverage is {case.covs[i]!r}"
                break
    if bad:
        ctx.violation({"api": "Covout.get_outcome", "case": "weights", "inter": case.inter}, f"{case.inter} n={n} cov={case.covs}: {bad}", {"case": case.to_json(), "script": case.script(), "oracle": "weights"})
        return
    if not compare_model:
        return
    mw = model_weights(wrep, order, n)
    for s, wv in w.items():
        if not core.close(mw[s], wv, scale=1.0, rtol=0, atol=tol):
            ctx.brk("correspondence", f"weight of combination {s}: model {float(mw[s])!r}, implementation (probed) {wv!r}; {case.inter} cov={case.covs} order={order}", case=case.to_json())
            return
    ctx.traces += 1


def run_case(ctx, case, reps, co=None, probe=False):
    """reps = (val, table, weights) driver replies"""
    n = case.n
    key = {"api": "Covout.get_outcome", "inter": case.inter, "n": n, "b": case.b, "outs": case.outs, "covs": case.covs, "ex": case.ex}
    nz = sum(1 for c in case.covs if c > 0)
    ctx.case(key, nontrivial=nz >= 2, sample=case.to_json())
    ctx.count(f"n.{n}")
    ctx.count(f"inter.{case.inter}")
    sumq = sum(Fraction(c) for c in case.covs)
    if n >= 2:
        if case.inter == "additive":
            ctx.count("additive.high" if sumq > 1 else "additive.low")
            if sumq == 1:
                ctx.count("additive.sum_eq_1")
        if case.inter == "nested" and len(set(case.covs)) < n:
            ctx.count("nested.cov_ties")
        mags = [abs(Fraction(o) - Fraction(case.b)) for o in case.outs]
        if len(set(mags)) < n:
            ctx.count("out.mag_ties")
        if any(o > case.b for o in case.outs) and any(o < case.b for o in case.outs):
            ctx.count("out.mixed_sign")
        if any(o == case.b for o in case.outs):
            ctx.count("out.eq_baseline")
        ctx.count("explicit.some" if case.ex else "explicit.none")
        if len({s for s, _ in case.ex}) < len(case.ex):
            ctx.count("explicit.dup")
    if 0.0 in case.covs:
        ctx.count("cov.has0")
    if 1.0 in case.covs:
        ctx.count("cov.has1")

    try:
        co = co or build(case)
        v = impl_value(case, co)
    except Exception as ex:
        ctx.violation({"api": "Covout.get_outcome", "case": "raises", "exc": type(ex).__name__}, f"Covout/get_outcome raised {type(ex).__name__}: {ex}", {"case": case.to_json(), "script": case.script()})
        return None
    sc = scale_of(case)
    vrep, trep, wrep = reps
    if vrep.startswith("err"):
        ctx.brk("correspondence", f"driver replied {vrep}", case=case.to_json())
        return v

    # direct oracle: convexity
    bad = oracle_hull(case, v)
    if bad:
        ctx.violation({"api": "Covout.get_outcome", "case": "hull", "inter": case.inter}, f"{case.inter} n={n}: {bad}", {"case": case.to_json(), "script": case.script(), "oracle": "hull"})
        return v

    consistent = order_exact_consistent(case)
    if not consistent:
        ctx.ambiguous += 1
        return v
    # correspondence: table
    ids_s, outs_s = trep.split("|")
    order = [int(t) for t in ids_s.split()]
    if n >= 1:
        impl_order = [int(k[1:]) for k in co._cached_progs.keys()]
        if impl_order != order:
            ctx.brk("correspondence", f"sorted program order: model {order}, implementation {impl_order}", case=case.to_json())
            return v
        tab_m = [unq(t) for t in outs_s.split()]
        tab_i = [float(x) for x in np.asarray(co._combination_outcomes).ravel()]
        if len(tab_m) != len(tab_i) or any(not core.close(a, b_, scale=sc) for a, b_ in zip(tab_m, tab_i)):
            ctx.brk("correspondence", f"combination outcome table differs: model {[float(x) for x in tab_m]}, implementation {tab_i}", case=case.to_json())
            return v
    # correspondence: value
    mv = unq(vrep)
    if not core.close(mv, v, scale=sc):
        if sum_branch_ambiguous(case):
            ctx.ambiguous += 1
            return v
        ctx.disagreements_checked += 1
        # the oracles on this case: hull passed above; probe the weights as well
        before = len(ctx.violations)
        if n >= 1:
            check_weights(ctx, case, order, wrep, key)
        if len(ctx.violations) == before:
            ctx.brk("correspondence", f"get_outcome: model {float(mv)!r}, implementation {v!r}; {case.inter} b={case.b} outs={case.outs} covs={case.covs} ex={case.ex}", case=case.to_json())
        return v
    ctx.traces += 1
    if case.inter == "additive" and n >= 2 and sumq > 1:
        firstnz = next((case.covs[i] for i in order if case.covs[i] > 0), None)
        if firstnz == 1.0:
            ctx.count("additive.first_full")
    if probe and n >= 1:
        check_weights(ctx, case, order, wrep, key)
    return v


def requests_for(case):
    return [case.request("val"), case.request("table"), case.request("weights")]


def run_batch(ctx, cases, probe_every=0, cos=None):
    lines = []
    for c in cases:
        lines += requests_for(c)
    reps = core.drive(lines)
    vals = []
    for k, c in enumerate(cases):
        probe = probe_every and (k % probe_every == 0)
        vals.append(run_case(ctx, c, reps[3 * k:3 * k + 3], co=(cos[k] if cos else None), probe=probe))
    return vals


# ----------------------------------------------------------------------------------------------
# further oracles
# ----------------------------------------------------------------------------------------------
def run_special_coverages(ctx):
    """zero coverage, one covered program, 0/1 coverages (indicator of a combination)"""
    r = ctx.rng
    cases, kinds = [], []
    for _ in range(ctx.n(400, 6000)):
        n = r.choice([1, 2, 3, 4, 5])
        b, outs = rand_outs(r, n)
        ex = rand_ex(r, b, outs)
        inter = r.choice(INTERS)
        kind = r.choice(["zero", "single", "indicator", "indicator"])
        if kind == "zero":
            covs = [0.0] * n
            extra = None
        elif kind == "single":
            i = r.randrange(n)
            covs = [0.0] * n
            covs[i] = r.choice([1.0, 0.5, 0.25, r.random(), 0.1])
            extra = i
        else:
            covs = [float(r.randint(0, 1)) for _ in range(n)]
            extra = tuple(i for i in range(n) if covs[i] == 1.0)
        cases.append(Case(inter, b, outs, covs, ex, tag=kind))
        kinds.append((kind, extra))
    vals = run_batch(ctx, cases)
    for c, (kind, extra), v in zip(cases, kinds, vals):
        if v is None:
            continue
        ctx.count("oracle." + kind)
        bad = special_oracle(c, kind, v)
        if bad:
            ctx.violation({"api": "Covout.get_outcome", "case": kind, "inter": c.inter}, f"{c.inter} n={c.n}: {bad}", {"case": c.to_json(), "script": c.script(), "oracle": kind})


def special_oracle(c, kind, v):
    """zero / single / indicator coverage vectors: the value is known in closed form from the property's text"""
    tol = 1e-11 * scale_of(c)
    if kind == "zero":
        if v != c.b:
            return f"all coverages 0 but value {v!r} != baseline {c.b!r}"
    elif kind == "single":
        i = next(j for j in range(c.n) if c.covs[j] != 0.0)
        want = c.b + c.covs[i] * (c.outs[i] - c.b)
        if abs(v - want) > tol:
            return f"only {name(i)} covered (c={c.covs[i]!r}): value {v!r} != baseline + c*(outcome-baseline) = {want!r}"
    else:
        members = tuple(i for i in range(c.n) if c.covs[i] == 1.0)
        adm = [c.b] if not members else combo_spec(c, members)
        if all(abs(v - a) > tol for a in adm):
            return f"coverage 1 exactly for {[name(i) for i in members]}: value {v!r}, but that combination's outcome is {adm!r} (explicit value if given, else member farthest from baseline)"
    return None


def mono_pairs(r, case):
    """coverage vectors obtained by raising one coverage"""
    out = []
    n = case.n
    for _ in range(2):
        k = r.randrange(n)
        if case.covs[k] >= 1.0:
            continue
        hi = r.choice([1.0, min(1.0, case.covs[k] + 0.125), case.covs[k] + (1 - case.covs[k]) * r.random()])
        if hi <= case.covs[k]:
            continue
        c2 = list(case.covs)
        c2[k] = hi
        out.append((k, c2))
    return out


def run_mono(ctx):
    """raising one coverage does not move the value towards the baseline (same-sign programs).
    Proved: no explicit interactions -- all three interactions (outcome_mono_best / _neg);
            monotone explicit tables -- random and nested (random_mono_monotone_table, nested_mono_monotone_table).
    Additive with monotone explicit tables is *not* monotone above 100 % (finding)."""
    r = ctx.rng
    cases = []
    for _ in range(ctx.n(1500, 30000)):
        n = r.choice([2, 3, 3, 4, 4, 5])
        b = r.choice([0.0, 0.5, -1.0, 2.0])
        sg = r.choice([1, -1])
        outs = [b + sg * r.choice([r.randint(0, 16) / 16, r.randint(0, 16) / 16, 0.5, r.random()]) for _ in range(n)]
        inter = r.choice(INTERS)
        ex = rand_ex(r, b, outs, mode=r.choice(["none", "none", "monotone"]))
        cases.append(Case(inter, b, outs, rand_cov(r, n), ex, tag="mono"))
    # the kernel-checked witness (C12.additive_mono_fails_with_interactions) and neighbours of it, always included
    wit = Case("additive", 0.0, [10.0, 5.0, 4.0, 1.0], [0.5, 0.1, 0.5, 1.0], [((2, 3), 9.0), ((1, 2, 3), 9.0)], tag="mono-witness")
    cases.append(wit)
    for _ in range(ctx.n(20, 200)):
        cases.append(wit.with_covs([r.choice([0.5, 0.6, 0.4]), r.choice([0.1, 0.05, 0.2]), r.choice([0.5, 0.45, 0.6]), r.choice([1.0, 0.9, 0.75])]))
    cos = [build(c) for c in cases]
    base_vals = run_batch(ctx, cases, cos=cos)
    for c, co, v in zip(cases, cos, base_vals):
        if v is None:
            continue
        ctx.hyp_checked += 1
        if not same_sign(c):
            continue
        mono_tab = monotone_table(c)
        if not mono_tab:
            continue
        ctx.hyp_held += 1
        proved = (not c.ex) or c.inter in ("random", "nested")
        pairs = mono_pairs(r, c)
        if c.tag == "mono-witness" and c.covs == [0.5, 0.1, 0.5, 1.0]:
            pairs = [(1, [0.5, 0.2, 0.5, 1.0])] + pairs
        for k, c2 in pairs:
            v2 = float(co.get_outcome(cov_dict(c2)))
            ctx.count("oracle.mono_checked")
            tol = 1e-11 * scale_of(c)
            if abs(v2 - c.b) < abs(v - c.b) - tol:
                what = (f"{c.inter} n={c.n} b={c.b} outs={c.outs} ex={c.ex}: raising coverage of {name(k)} from {c.covs[k]!r} to {c2[k]!r} (others {c.covs}) "
                        f"moves the value from {v!r} to {v2!r}, i.e. towards the baseline although every program and every combination moves the parameter the same way")
                rp = {"case": c.to_json(), "covs2": c2, "k": k, "oracle": "mono", "script": c.script() + "\n" + c.with_covs(c2).script().split("\n", 1)[1]}
                if proved:
                    ctx.violation({"api": "Covout.get_outcome", "case": "mono", "inter": c.inter, "explicit": bool(c.ex)}, what, rp)
                else:
                    ctx.count("finding.additive_mono_explicit")
                    ctx.violation(dict(FINDING_KEY), what, rp)


def run_progset(ctx):
    """ProgramSet.get_outcomes is the per-(par,pop) map of Covout.get_outcome"""
    import atomica.programs as ap
    import sciris as sc

    r = ctx.rng
    for _ in range(ctx.n(20, 200)):
        n = r.choice([1, 2, 3, 4])
        cov = rand_cov(r, n)
        ps = ap.ProgramSet.__new__(ap.ProgramSet)
        ps.covouts = sc.odict()
        want = {}
        for j in range(r.randint(1, 4)):
            b, outs = rand_outs(r, n)
            c = Case(r.choice(INTERS), b, outs, cov, rand_ex(r, b, outs))
            co = build(c)
            co.par, co.pop = f"par{j}", "pop"
            ps.covouts[(co.par, co.pop)] = co
            want[(co.par, co.pop)] = impl_value(c)
        got = ps.get_outcomes(cov_dict(cov))
        ctx.count("progset.get_outcomes")
        if set(got) != set(want) or any(float(got[k]) != want[k] for k in want):
            ctx.violation({"api": "ProgramSet.get_outcomes"}, f"get_outcomes {got} != per-covout get_outcome {want}", {"cov": cov})


def run_probes(ctx):
    """inputs outside the theorems' hypotheses: what the code does is recorded (and still compared with the model)"""
    # (a) explicit value for a single program: honoured by random/nested/additive>1, ignored by additive<=1 and n=1
    cases = []
    for inter in INTERS:
        for covs in ([0.25, 0.25], [0.75, 0.75], [0.5, 0.0]):
            cases.append(Case(inter, 0.0, [1.0, 0.5], covs, [((0,), 0.25)], tag="singleton-explicit"))
    vals = run_batch(ctx, cases)
    seen = {}
    for c, v in zip(cases, vals):
        ctx.count("probe.singleton_explicit")
        seen[(c.inter, tuple(c.covs))] = v
    ctx.extra["probe_singleton_explicit"] = {f"{k[0]} {list(k[1])}": v for k, v in seen.items()}
    lo, hi = seen[("additive", (0.25, 0.25))], seen[("additive", (0.75, 0.75))]
    ctx.notes.append(f"explicit single-program value 'P0=0.25' (P0 outcome 1.0): additive cov .25/.25 -> {lo!r} (ignored), cov .75/.75 -> {hi!r} (used); outside hypothesis NoSingleEx")
    # (c) the executable nested loop of the model (stable argsort) against the permutation-free weights (theorem nested_loop_argsort)
    r = ctx.rng
    nl = []
    for _ in range(ctx.n(200, 2000)):
        n = r.choice([2, 3, 4, 5])
        b, outs = rand_outs(r, n)
        nl.append(Case("nested", b, outs, rand_cov(r, n, style=r.choice(["ties", "grid5", "bin", "float"])), rand_ex(r, b, outs), tag="nestedloop"))
    reps = core.drive([c.request("nestedloop") for c in nl] + [c.request("val") for c in nl])
    for k, c in enumerate(nl):
        ctx.count("model.nestedloop_agrees")
        if reps[k] != reps[len(nl) + k]:
            ctx.brk("proof", f"model: nested loop {reps[k]} != weighted sum {reps[len(nl) + k]} (contradicts nested_loop_argsort)", case=c.to_json())
    # (b) an explicit value below a member: raising a coverage lowers the value (excluded from the mono theorems by hypothesis)
    c = Case("random", 0.0, [10.0, 5.0], [1.0, 0.0], [((0, 1), 2.0)], tag="nonmonotone-explicit")
    c2 = c.with_covs([1.0, 1.0])
    v1, v2 = run_batch(ctx, [c, c2])
    ctx.count("probe.nonmonotone_explicit")
    ctx.notes.append(f"explicit 'P0+P1=2' below P0=10: coverage of P1 0 -> 1 moves the value {v1!r} -> {v2!r} (mono theorems assume a monotone table)")


def run_edited(ctx):
    """'The value of a targeted parameter under active programs is ...' for the Covout as it IS: a Covout whose baseline, outcomes or explicit interaction values were
    edited in place and refreshed with update_outcomes() (what reconciliation, sampling and the program-book editing calls do) must give the values of its new data;
    the tables it caches from the previous data (deltas, combination outcomes, program order) must not show through. Kinds: special coverage vectors with their
    closed-form oracle, and general vectors against the model."""
    r = ctx.rng
    cases, cos, kinds = [], [], []
    for _ in range(ctx.n(300, 4000)):
        n = r.choice([2, 3, 3, 4])
        b, outs = rand_outs(r, n)
        inter = r.choice(INTERS)
        kind = r.choice(["single", "indicator", "general", "general"])
        if kind == "single":
            covs = [0.0] * n
            covs[r.randrange(n)] = r.choice([1.0, 0.5, 0.25])
        elif kind == "indicator":
            covs = [float(r.randint(0, 1)) for _ in range(n)]
        else:
            covs = rand_cov(r, n)
        target = Case(inter, b, outs, covs, rand_ex(r, b, outs), tag="edited")
        b0, outs0 = rand_outs(r, n)
        first = Case(inter, b0, outs0, covs, rand_ex(r, b0, outs0) if r.random() < 0.5 else [], tag="edited-first")
        try:
            co = build(first)
            co.get_outcome(cov_dict(first.covs))
            co.baseline = target.b
            for i, o in enumerate(target.outs):
                co.progs[name(i)] = o
            co.imp_interaction = target.imp_string()
            co.update_outcomes()
        except Exception as e:
            ctx.violation({"api": "Covout.update_outcomes", "case": "edit-raises"}, f"editing a Covout in place and calling update_outcomes() raised {type(e).__name__}: {str(e)[:160]}", {"first": first.to_json(), "case": target.to_json()})
            continue
        ctx.count("edited." + kind)
        cases.append(target); cos.append(co); kinds.append(kind)
    vals = run_batch(ctx, cases, cos=cos)
    for c, kind, v in zip(cases, kinds, vals):
        if v is None or kind == "general":
            continue
        bad = special_oracle(c, kind, v)
        if bad:
            ctx.violation({"api": "Covout.update_outcomes", "case": "edited-" + kind, "inter": c.inter}, f"{c.inter} n={c.n}, Covout edited in place then update_outcomes(): {bad}", {"case": c.to_json(), "script": c.script(), "oracle": kind, "edited": True})


def run(ctx):
    cases = gen_cases(ctx)
    run_batch(ctx, cases, probe_every=ctx.n(20, 40))
    run_special_coverages(ctx)
    run_edited(ctx)
    run_mono(ctx)
    run_progset(ctx)
    run_probes(ctx)
    ctx.exhaustive = False


def search(ctx, breaks):
    """something broke without a concrete failing input: evaluate every direct oracle on the configurations involved
    (same outcomes / explicit values, special and perturbed coverage vectors)"""
    r = ctx.rng
    seen = 0
    for bk in breaks:
        if "case" not in bk or seen >= 12:
            continue
        seen += 1
        c0 = Case.from_json(bk["case"])
        n = c0.n
        if n == 0:
            continue
        cands = [("plain", c0)]
        cands.append(("zero", c0.with_covs([0.0] * n)))
        for i in range(n):
            cv = [0.0] * n
            cv[i] = c0.covs[i] if c0.covs[i] > 0 else 0.5
            cands.append(("single", c0.with_covs(cv)))
        for bits in itertools.product([0.0, 1.0], repeat=n):
            cands.append(("indicator", c0.with_covs(list(bits))))
        for _ in range(10):
            cands.append(("plain", c0.with_covs(rand_cov(r, n))))
        for kind, c in cands:
            ctx.disagreements_checked += 1
            try:
                co = build(c)
                v = impl_value(c, co)
            except Exception as ex:
                ctx.violation({"api": "Covout.get_outcome", "case": "raises", "exc": type(ex).__name__}, f"raised {type(ex).__name__}: {ex}", {"case": c.to_json(), "script": c.script()})
                continue
            bad = oracle_hull(c, v)
            okind = "hull"
            if not bad and kind != "plain" and not any(len(s_) < 2 for s_, _ in c.ex):
                bad = special_oracle(c, kind, v)
                okind = kind
            if bad:
                ctx.violation({"api": "Covout.get_outcome", "case": okind, "inter": c.inter}, f"{c.inter} n={n}: {bad}", {"case": c.to_json(), "script": c.script(), "oracle": okind})
                continue
            if kind == "plain" and order_exact_consistent(c):
                reps = core.drive(requests_for(c))
                order = [int(t) for t in reps[1].split("|")[0].split()]
                impl_order = [int(k[1:]) for k in co._cached_progs.keys()]
                check_weights(ctx, c, impl_order, reps[2], {}, compare_model=(impl_order == order))
            if kind == "plain" and same_sign(c) and not c.ex:
                for k, c2 in mono_pairs(r, c):
                    v2 = float(co.get_outcome(cov_dict(c2)))
                    if abs(v2 - c.b) < abs(v - c.b) - 1e-11 * scale_of(c):
                        ctx.violation({"api": "Covout.get_outcome", "case": "mono", "inter": c.inter, "explicit": False},
                                      f"{c.inter} n={n} b={c.b} outs={c.outs}: raising coverage of {name(k)} from {c.covs[k]!r} to {c2[k]!r} (others {c.covs}) moves the value from {v!r} to {v2!r} (towards the baseline)",
                                      {"case": c.to_json(), "covs2": c2, "k": k, "oracle": "mono", "script": c.script()})


def replay(ctx, data):
    rp = data.get("replay") or {}
    if "case" not in rp:
        print(json.dumps(data, indent=1)[:3000])
        return 0
    c = Case.from_json(rp["case"])
    print("script:\n" + rp.get("script", c.script()))
    if rp.get("edited"):
        # the Covout is first built from other data of the same shape, then edited in place to the recorded data and refreshed
        first = Case(c.inter, c.b + 1.0, [o * 0.5 + 0.25 * (i + 1) for i, o in enumerate(reversed(c.outs))], c.covs, [], tag="edited-first")
        co = build(first)
        co.get_outcome(cov_dict(first.covs))
        co.baseline = c.b
        for i, o in enumerate(c.outs):
            co.progs[name(i)] = o
        co.imp_interaction = c.imp_string()
        co.update_outcomes()
        print("(edited in place from baseline", first.b, "outcomes", first.outs, "then update_outcomes())")
        v = impl_value(c, co=co)
    else:
        v = impl_value(c)
    reps = core.drive(requests_for(c))
    print("implementation:", repr(v))
    print("model value   :", reps[0], "=", float(unq(reps[0])) if not reps[0].startswith("err") else reps[0])
    print("model table   :", reps[1])
    print("model weights :", reps[2])
    failed = False
    if rp.get("oracle") == "mono":
        c2 = c.with_covs(rp["covs2"])
        v2 = impl_value(c2)
        m2 = core.drive([c2.request("val")])[0]
        print(f"raised coverage of {name(rp['k'])}: implementation {v2!r}, model {float(unq(m2))!r}")
        failed = abs(v2 - c.b) < abs(v - c.b) - 1e-11 * scale_of(c)
        print("mono oracle:", "FAILS" if failed else "holds")
    else:
        bad = oracle_hull(c, v)
        if bad:
            failed = True
            print("hull oracle FAILS:", bad)
        if not core.close(unq(reps[0]), v, scale=scale_of(c)):
            failed = True
            print("model and implementation DISAGREE")
        sub = core.Ctx(PROPERTY, "quick", 0)
        order = [int(t) for t in reps[1].split("|")[0].split()]
        if c.n >= 1:
            check_weights(sub, c, order, reps[2], {})
        for x in sub.violations + sub.breaks:
            failed = True
            print("weights:", x["what"])
        if rp.get("oracle") in ("zero", "single", "indicator"):
            bad = special_oracle(c, rp["oracle"], v)
            if bad:
                failed = True
                print(f"{rp['oracle']} oracle FAILS:", bad)
    print("replay:", "still failing" if failed else "passes")
    return 1 if failed else 0


if __name__ == "__main__":
    core.main(sys.modules[__name__])
