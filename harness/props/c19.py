"""
C19 -- Parameter functions can only do arithmetic with whitelisted functions.

Mode A correspondence of `atomica.function_parser.parse_function` and `atomica.utils.evaluate_plot_string`
with Atomica.Expr (lean/AtomicaModel/Expr.lean):

* accept/reject: the harness serialises `ast.parse(s.replace(':','___'), mode='eval')` (the parse the implementation
  performs; CPython's parser is trusted) and the driver answers with the guards, the SPECIFICATION-shaped acceptance
  `accepts` (a node-kind whitelist), the faithful `acceptsCurrent`, and the dependency names.  The implementation is
  compared with `accepts`; an implementation-accepted string that `accepts` rejects is a violation whose key names the
  first disallowed node class.
* values: accepted strings are evaluated on scalar, array and mixed environments (zeros weighted up) and compared with
  the model's exact rational evaluation within the model's own running floating-point error bound.
* dependencies: compared as multisets with the model and directly (names of the string, missing-name evaluation).
* side effects: everything runs inside an empty scratch directory that must stay empty.
* translator (mode F): `translate` regenerates lean/AtomicaModel/Generated/Whitelist.lean from the source text.
"""
import ast
import hashlib
import itertools
import json
import math
import os
import sys
import tempfile
from fractions import Fraction
from pathlib import Path

import numpy as np

from vlib import core
from vlib.core import q, unq

PROPERTY = "C19"
sys.set_int_max_str_digits(0)
LEAN_MODS = ["AtomicaProofs.Properties.C19"]
THEOREMS = [
    "Atomica.C19.accepts_safe",
    "Atomica.C19.accepts_iff_safe",
    "Atomica.C19.accepts_excludes",
    "Atomica.C19.accepts_call_whitelisted",
    "Atomica.C19.accepts_imp_acceptsCurrent",
    "Atomica.C19.whitelist_safe",
    "Atomica.C19.guards_iff",
    "Atomica.C19.divTransform_noDiv",
    "Atomica.C19.eval_divTransform",
    "Atomica.C19.eval_arith",
    "Atomica.C19.eval_sdiv",
    "Atomica.C19.eval_sdiv_array",
    "Atomica.C19.eval_scalar_array",
    "Atomica.C19.eval_defined_accepts",
    "Atomica.C19.deps_exact",
    "Atomica.C19.deps_divTransform",
    "Atomica.C19.eval_congr_deps",
    "Atomica.C19.plot_string_literal",
]
TRUSTED = [
    "CPython: ast.parse (grammar), compile/eval of nodes of the safe kinds (operator dispatch on floats and numpy arrays, name resolution locals=whitelist -> globals=dependencies -> builtins)",
    "numpy elementwise arithmetic, np.minimum/np.maximum/np.floor/np.divide(where=) on float64; transcendental whitelist entries (exp ln sqrt sin cos rand randn pi) are not evaluated by the model",
    "numpy boolean∘boolean arithmetic (True+True=True, -True raises) is outside the compared fragment (static rule Expr.inFragment)",
    "harness serialiser ast -> wire tree (harness/props/c19.py:ser) and the driver's decoder (Expr.parseNode/mkKind)",
]
RULE = ("accept: every ast.expr class x operator class as an atom (several spellings each), placed in every sequence of <=3 allowed "
        "context shapes (BinOp.left/right, UnaryOp, Compare.left/right, Call.first/later arg, + Call.func, keyword) [quick: all shape "
        "sequences, concrete operator/function rotated; thorough: also all pairs of concrete contexts and a random depth-3 sample]; every "
        "function string of every framework workbook under atomica/library, tests, docs (must-accept); guard strings; "
        "eval: accepted corpus strings and random arithmetic over + - * / ** unary compare min max floor sdiv on scalar/array/mixed "
        "environments with 0 weighted up; plot strings: literal trees and single-node corruptions. "
        "non-trivial = (accept) the string contains a disallowed node or a guard hit, or is a corpus string; (eval) the model value is "
        "defined and the expression has an operator; (plot) the string takes the checked path")
EXPECTED_BRANCHES = [
    "accept.both_accept", "accept.both_reject", "accept.syntax", "accept.guard_dunder", "accept.guard_length",
    "corpus.accepted", "eval.match", "eval.scalar", "eval.array", "eval.mixed", "eval.zero_numerator", "eval.zero_denominator",
    "eval.unmodelled", "reparse.checked", "reparse.with_dependencies", "deps.match", "deps.missing_name_raises", "plot.pass", "plot.accept", "plot.reject", "sidefx.clean_checks",
]

# the mathematical names the property allows in the whitelist (Lean: Atomica.C19.allowedNames)
ALLOWED_NAMES = ["max", "min", "exp", "floor", "SRC_POP_AVG", "TGT_POP_AVG", "SRC_POP_SUM", "TGT_POP_SUM", "STITCH_AVG", "STITCH_SUM",
                 "pi", "cos", "sin", "sqrt", "ln", "rand", "randn", "sdiv"]

WL_FILE = core.LEAN / "AtomicaModel" / "Generated" / "Whitelist.lean"


# ----------------------------------------------------------------------------------------------
# translator: supported_functions keys -> Generated/Whitelist.lean
# ----------------------------------------------------------------------------------------------
def source_whitelist():
    src = (core.REPO / "atomica" / "function_parser.py").read_text()
    tree = ast.parse(src)
    for node in tree.body:
        tgt = None
        if isinstance(node, ast.Assign) and len(node.targets) == 1 and isinstance(node.targets[0], ast.Name):
            tgt, val = node.targets[0].id, node.value
        elif isinstance(node, ast.AnnAssign) and isinstance(node.target, ast.Name) and node.value is not None:
            tgt, val = node.target.id, node.value
        if tgt == "supported_functions" and isinstance(val, ast.Dict):
            keys = []
            for k in val.keys:
                if not (isinstance(k, ast.Constant) and isinstance(k.value, str)):
                    return None
                keys.append(k.value)
            return keys
    return None


def lean_str(s: str) -> str:
    return '"' + "".join(c if (c.isalnum() or c in "_ -.:") else "\\u{%x}" % ord(c) for c in s) + '"'


def translate(ctx):
    keys = source_whitelist()
    if keys is None:
        ctx.brk("proof", "translator: `supported_functions = {…}` with constant string keys not found in atomica/function_parser.py")
        return
    body = ("/- GENERATED by harness/props/c19.py:translate from the keys of `supported_functions` in\n"
            "   atomica/function_parser.py (source order).  Do not edit. -/\n"
            "namespace Atomica.Expr.Generated\n\n"
            "def whitelist : List String :=\n  [" + ", ".join(lean_str(k) for k in keys) + "]\n\n"
            "end Atomica.Expr.Generated\n")
    WL_FILE.parent.mkdir(parents=True, exist_ok=True)
    if not WL_FILE.exists() or WL_FILE.read_text() != body:
        WL_FILE.write_text(body)
        ctx.notes.append("translator: Generated/Whitelist.lean rewritten")
    ctx.extra["whitelist_source_keys"] = keys


# ----------------------------------------------------------------------------------------------
# ast -> wire tree
# ----------------------------------------------------------------------------------------------
def enc_str(s: str) -> str:
    return ",".join(str(ord(c)) for c in s) if s else "-"


def _const_payload(v):
    if isinstance(v, bool):
        return ["bool", "1" if v else "0"]
    if isinstance(v, int):
        return ["int", str(v)]
    if isinstance(v, float):
        return ["float", q(v)]
    if isinstance(v, complex):
        return ["complex"]
    if isinstance(v, str):
        return ["str"]
    if isinstance(v, bytes):
        return ["bytes"]
    if v is None:
        return ["none"]
    if v is Ellipsis:
        return ["ellipsis"]
    return ["unknown"]


def _gens(gens):
    out = []
    for g in gens:
        out += [g.target, g.iter] + list(g.ifs)
    return out


def ser(n, out):
    """Append the wire tokens of expression node `n`: Tag p payload… n children…"""
    t = type(n).__name__
    pay, ch = [], None
    if isinstance(n, ast.BoolOp):
        pay, ch = [type(n.op).__name__], n.values
    elif isinstance(n, ast.NamedExpr):
        ch = [n.target, n.value]
    elif isinstance(n, ast.BinOp):
        pay, ch = [type(n.op).__name__], [n.left, n.right]
    elif isinstance(n, ast.UnaryOp):
        pay, ch = [type(n.op).__name__], [n.operand]
    elif isinstance(n, ast.Lambda):
        a = n.args
        ch = list(a.defaults) + [d for d in a.kw_defaults if d is not None] + [n.body]
    elif isinstance(n, ast.IfExp):
        ch = [n.test, n.body, n.orelse]
    elif isinstance(n, ast.Dict):
        pay = [str(sum(1 for k in n.keys if k is None))]
        ch = [k for k in n.keys if k is not None] + list(n.values)
    elif isinstance(n, (ast.Set, ast.List, ast.Tuple)):
        ch = n.elts
    elif isinstance(n, (ast.ListComp, ast.SetComp, ast.GeneratorExp)):
        ch = [n.elt] + _gens(n.generators)
    elif isinstance(n, ast.DictComp):
        ch = [n.key, n.value] + _gens(n.generators)
    elif isinstance(n, (ast.Await, ast.YieldFrom)):
        ch = [n.value]
    elif isinstance(n, ast.Yield):
        ch = [n.value] if n.value is not None else []
    elif isinstance(n, ast.Compare):
        pay, ch = [type(o).__name__ for o in n.ops], [n.left] + list(n.comparators)
    elif isinstance(n, ast.Call):
        pay = [str(len(n.args))] + [(k.arg if k.arg is not None else "**") for k in n.keywords]
        ch = [n.func] + list(n.args) + [k.value for k in n.keywords]
    elif isinstance(n, ast.FormattedValue):
        ch = [n.value] + ([n.format_spec] if n.format_spec is not None else [])
    elif isinstance(n, ast.JoinedStr):
        ch = n.values
    elif isinstance(n, ast.Constant):
        pay, ch = _const_payload(n.value), []
    elif isinstance(n, ast.Attribute):
        pay, ch = [n.attr], [n.value]
    elif isinstance(n, ast.Subscript):
        ch = [n.value, n.slice]
    elif isinstance(n, ast.Starred):
        ch = [n.value]
    elif isinstance(n, ast.Name):
        pay, ch = [n.id], []
    elif isinstance(n, ast.Slice):
        ch = [x for x in (n.lower, n.upper, n.step) if x is not None]
    else:  # a node class this harness does not know: the model rejects `other`
        ch = [c for c in ast.iter_child_nodes(n) if isinstance(c, ast.expr)]
    if isinstance(n, (ast.ListComp, ast.SetComp, ast.GeneratorExp, ast.DictComp)) and any(g.is_async for g in n.generators):
        t = "Async" + t  # decoded as Kind.other: rejected by `accepts`, refused by compile() in the faithful model
    for p in pay:
        assert p and " " not in p and "\n" not in p, f"bad payload token {p!r}"
    out.append(t)
    out.append(str(len(pay)))
    out.extend(pay)
    out.append(str(len(ch)))
    for c in ch:
        ser(c, out)


def tree_tokens(src: str):
    """Wire form of ast.parse(src, mode='eval') or ['syntaxerr'] (any parse failure)."""
    try:
        t = ast.parse(src, mode="eval")
    except Exception:
        return ["syntaxerr"], None
    out = []
    try:
        ser(t.body, out)
    except RecursionError:
        return ["syntaxerr"], None
    return out, t


def wire_ok(s: str) -> bool:
    return "\n" not in s and "\r" not in s


# ----------------------------------------------------------------------------------------------
# strings: atoms (every ast.expr class), allowed contexts, guards
# ----------------------------------------------------------------------------------------------
# disallowed atoms by the node class they are meant to exercise (spelled before the ':' replacement)
ATOMS = {
    "Attribute": ["x.real", "x.T", "x.a.b", "max.real", "(x+1).imag", "1 .real", "x.tofile", "pi.real"],
    "Subscript": ["x[0]", "x[y]", "x[0][1]", "x[a:b]", "x[()]", "x[::2]", "x[1:2]", "x[0,1]", "max[0]"],
    "Call": ["x.tofile('p')", "x()", "x()()", "(x+1)(2)", "max(x)(1)", "abs(x)", "open('p','w')", "eval('1')", "getattr(x,'real')",
             "print(x)", "type(x)", "exec('1')", "compile('1','f','eval')", "globals()", "vars()", "dir()", "len(x)", "sum(x)", "float(x)",
             "[open][0]('q','w')", "[eval][0]('1')", "(open,)[0]('r','w')", "max(x,out=y)", "min(x,y,initial=0)", "max(**x)", "floor(x,where=y)",
             "sdiv(numerator=x,denominator=y)", "np.exp(x)", "numpy.exp(x)", "log(x)", "Max(x,1)", "MAX(x,1)", "x.dump('s')", "x.item()",
             "x.astype('S1').tofile('t')", "x.fill(0)", "x.sort()", "x.setfield(0,float)", "x.view('u8')"],
    "Constant": ["'abc'", "b'abc'", "None", "True", "False", "...", "1j", "'p' 'q'", "''", "2.5j"],
    "Lambda": ["lambda: 1", "lambda x: x", "(lambda: x)()", "lambda x=y: x", "lambda *a, k=z: a"],
    "IfExp": ["x if y else 1", "1 if x else 0 if y else 2"],
    "BoolOp": ["x and y", "x or y", "x and y or 1"],
    "UnaryOp": ["not x", "~x", "not not x"],
    "BinOp": ["x//y", "x%y", "x@y", "x<<1", "x>>1", "x|y", "x^y", "x&y", "'a'*3", "'%s'%x"],
    "Compare": ["x is y", "x is not y", "x in y", "x not in y", "x < y in z", "x is None", "1 in x < 2"],
    "Dict": ["{}", "{**x}", "{1:2}", "{x:y}", "{'a':x}", "{**x,**y}"],
    "Set": ["{1,2}", "{x}", "{*x}"],
    "List": ["[]", "[1,x]", "[x]", "[[x]]"],
    "Tuple": ["()", "(1,x)", "x,", "x,y"],
    "ListComp": ["[y for y in x]", "[y for y in x if y]", "[y+z for y in x for z in y]", "[y async for y in x]"],
    "SetComp": ["{y for y in x}", "{y for y in x if y>1}"],
    "DictComp": ["{k:v for k in x}", "{k:k for k in x if k}"],
    "GeneratorExp": ["(y for y in x)", "max(y for y in x)", "sum(y for y in x)"],
    "Await": ["await x"],
    "Yield": ["(yield)", "(yield x)"],
    "YieldFrom": ["(yield from x)"],
    "FormattedValue": ["f'{x}'", "f'{x!r}'", "f'{x:>4}'", "f'{x:{y}}'", "f'{x=}'"],
    "JoinedStr": ["f'a'", "f''", "f'a{x}b{y}'"],
    "Starred": ["[*x]", "max(*x)", "(*x,)", "max(1,*x)"],
    "NamedExpr": ["(y := x)", "(y := x) + y"],
    "Slice": ["x[1:2]", "x[:]", "x[a:b:c]", "x[1:2,::3]"],
    "Name": ["open", "eval", "abs"],  # allowed kind: bare builtin names are dependencies, not calls
}
ALLOWED_ATOMS = ["x", "1", "2.5", "a:b", "x+y", "max(x,1)", "-x", "x<y", "pi", "0", "t"]

# allowed contexts by shape class (node class . hole position); `{h}` is the hole
CONTEXTS = {
    "BinOp.left": ["({h})+1", "({h})-x", "({h})*y", "({h})/2", "({h})**2", "({h})/x"],
    "BinOp.right": ["1+({h})", "x-({h})", "y*({h})", "2/({h})", "2**({h})", "x/({h})"],
    "UnaryOp": ["-({h})", "+({h})"],
    "Compare.left": ["({h})<1", "({h})<=x", "({h})>0", "({h})>=y", "({h})==x", "({h})!=1", "({h})<x<1"],
    "Compare.right": ["1<({h})", "x<=({h})", "0>({h})", "y>=({h})", "x==({h})", "1!=({h})", "0<x<({h})", "0<({h})<1"],
    "Call.first": ["max({h},1)", "min({h},x)", "floor({h})", "sdiv({h},x)", "exp({h})", "sqrt({h})", "ln({h})", "cos({h})", "sin({h})",
                   "SRC_POP_AVG({h},x,y)", "TGT_POP_SUM({h},x,y)", "rand({h})", "randn({h})", "STITCH_AVG({h})", "max({h})"],
    "Call.later": ["max(1,{h})", "min(x,y,{h})", "sdiv(x,{h})", "SRC_POP_SUM(x,{h},y)", "TGT_POP_AVG(x,y,{h})", "STITCH_SUM(x,{h})", "max(x,{h},2,y)"],
}
# contexts that are themselves disallowed positions of an allowed node class
BAD_CONTEXTS = {"Call.func": ["({h})(1)", "({h})()", "({h})(x,y)"], "Call.keyword": ["max(x,key={h})", "floor(x,out={h})", "max(**{h})"]}
SHAPES = list(CONTEXTS)

OPERATOR_SPELLINGS = {  # every operator class of the grammar must be spelled by some atom or context
    "Add": "x+y", "Sub": "x-y", "Mult": "x*y", "Div": "x/y", "Pow": "x**y", "FloorDiv": "x//y", "Mod": "x%y", "MatMult": "x@y", "LShift": "x<<1",
    "RShift": "x>>1", "BitOr": "x|y", "BitXor": "x^y", "BitAnd": "x&y", "UAdd": "+x", "USub": "-x", "Not": "not x", "Invert": "~x",
    "And": "x and y", "Or": "x or y", "Eq": "x==y", "NotEq": "x!=y", "Lt": "x<y", "LtE": "x<=y", "Gt": "x>y", "GtE": "x>=y", "Is": "x is y",
    "IsNot": "x is not y", "In": "x in y", "NotIn": "x not in y",
}
SAFE_OPERATORS = {"Add", "Sub", "Mult", "Div", "Pow", "UAdd", "USub", "Eq", "NotEq", "Lt", "LtE", "Gt", "GtE"}


def check_grammar_coverage(ctx):
    """Exhaustiveness over node classes: every ast.expr / operator class of this Python has an atom."""
    seen = set()
    for cls_name, atoms in ATOMS.items():
        for a in atoms:
            try:
                t = ast.parse(a, mode="eval")
            except SyntaxError:
                ctx.brk("correspondence", f"atom {a!r} is not valid Python")
                continue
            kinds = {type(n).__name__ for n in ast.walk(t)}
            if cls_name not in kinds:
                ctx.brk("correspondence", f"atom {a!r} does not contain a {cls_name} node")
            seen |= kinds
    for s in OPERATOR_SPELLINGS.values():
        seen |= {type(n).__name__ for n in ast.walk(ast.parse(s, mode="eval"))}
    missing = []
    for base in (ast.expr, ast.operator, ast.unaryop, ast.boolop, ast.cmpop):
        for c in base.__subclasses__():
            if c.__module__ in ("ast", "_ast") and c.__name__ not in seen and c.__name__ not in ("Num", "Str", "Bytes", "NameConstant", "Ellipsis"):
                missing.append(c.__name__)
    if missing:
        ctx.brk("correspondence", f"grammar classes without an atom (new Python version?): {missing}")
    ctx.extra["expr_classes_covered"] = sorted(c.__name__ for c in ast.expr.__subclasses__() if c.__name__ in seen)
    op_classes = [c.__name__ for base in (ast.operator, ast.unaryop, ast.boolop, ast.cmpop) for c in base.__subclasses__()]
    if set(op_classes) != set(OPERATOR_SPELLINGS):
        ctx.brk("correspondence", f"operator classes differ from the spelled table: {sorted(set(op_classes) ^ set(OPERATOR_SPELLINGS))}")


def nest(atom: str, templates) -> str:
    s = atom
    for t in templates:  # innermost first
        s = t.replace("{h}", s)
    return s


def nesting_strings(ctx):
    """(string, meta) for the exhaustive nesting stream."""
    r = ctx.rng
    rot = {k: 0 for k in list(CONTEXTS) + list(BAD_CONTEXTS)}

    def pick(shape):
        pool = CONTEXTS.get(shape) or BAD_CONTEXTS[shape]
        rot[shape] += 1
        return pool[(rot[shape] + r.randrange(len(pool))) % len(pool)]

    shape_seqs = [()]
    for d in (1, 2, 3):
        shape_seqs += list(itertools.product(SHAPES, repeat=d))
    atoms = [(cls, a) for cls, lst in ATOMS.items() for a in lst]
    for s in OPERATOR_SPELLINGS.values():
        atoms.append(("Operator", s))
    out = []
    # 1. every atom x every sequence of <= 3 context shapes (operators / functions rotated)
    for cls, a in atoms:
        for seq in shape_seqs:
            out.append((nest(a, [pick(sh) for sh in seq]), {"atom": a, "cls": cls, "depth": len(seq), "stream": "shapes"}))
    # 2. allowed atoms in the same contexts (accept side), and disallowed positions of allowed classes
    for a in ALLOWED_ATOMS:
        for seq in shape_seqs:
            out.append((nest(a, [pick(sh) for sh in seq]), {"atom": a, "cls": "allowed", "depth": len(seq), "stream": "allowed"}))
        for bshape in BAD_CONTEXTS:
            for seq in [()] + [(s,) for s in SHAPES] + list(itertools.product(SHAPES, repeat=2)):
                for bt in BAD_CONTEXTS[bshape]:
                    out.append((nest(a, [bt] + [pick(sh) for sh in seq]), {"atom": a, "cls": bshape, "depth": 1 + len(seq), "stream": "badpos"}))
    if not ctx.quick:
        # 3. every atom x every pair of concrete contexts
        allctx = [t for sh in SHAPES for t in CONTEXTS[sh]]
        for cls, a in atoms:
            for t1 in allctx:
                out.append((nest(a, [t1]), {"atom": a, "cls": cls, "depth": 1, "stream": "concrete"}))
                for t2 in allctx:
                    out.append((nest(a, [t1, t2]), {"atom": a, "cls": cls, "depth": 2, "stream": "concrete"}))
        # 4. random concrete depth-3 sample
        for _ in range(60000):
            cls, a = r.choice(atoms)
            out.append((nest(a, [r.choice(allctx) for _ in range(3)]), {"atom": a, "cls": cls, "depth": 3, "stream": "random3"}))
    return out


def guard_strings(ctx):
    r = ctx.rng
    out = []
    for s in ["x.__class__", "__import__('os')", "x__y", "__", "x + __y", "a:__b", "_:_", "_ _", "x._a", "a___b", "a:b:c", "::", "x_:_y", "_", "x*_y_",
              "().__class__.__bases__[0]", "x.__dict__", "max.__globals__", "__builtins__", "x.___class___", "x.:class:"]:
        out.append((s, {"stream": "guard", "cls": "guard", "depth": 0, "atom": s}))
    for n in (1790, 1798, 1799, 1800, 1801, 2500):
        base = "max(x"
        while len(base) + 3 <= n:
            base += ",x"
        base += ")"
        base += " " * (n - len(base))
        out.append((base, {"stream": "guard", "cls": "length", "depth": 0, "atom": f"len{n}"}))
    # colon expansion makes the parsed text longer than the guard length
    out.append(("max(" + ",".join(["a:b"] * 440) + ")", {"stream": "guard", "cls": "length", "depth": 0, "atom": "colons"}))
    # syntax errors and oddities
    for s in ["", " ", "x +", "(x", "x)", "1 2", "x = 1", "x; y", "import os", "x\ty", "  x", "x # c", "1e999", "-1e999", "0x10", "1_000", "1e-400", "x if y",
              "10**400", "(((((((((((x)))))))))))", "x\\\n+1", "α+1", "ｘ+1", "1.", ".5", "0o7", "0b1", "x" * 1799, "nan", "inf", "e", "1if x else 2"]:
        out.append((s, {"stream": "odd", "cls": "odd", "depth": 0, "atom": s[:20]}))
    for _ in range(ctx.n(50, 500)):
        k = r.randint(1, 6)
        s = "".join(r.choice(["_", ":", "x", "_", ":", "+", "1", " "]) for _ in range(k))
        out.append((s, {"stream": "guard", "cls": "guardrand", "depth": 0, "atom": s}))
    return out


# ----------------------------------------------------------------------------------------------
# corpus: every function string of every framework workbook in the repository
# ----------------------------------------------------------------------------------------------
def _read_functions(path: str):
    """function strings of one framework workbook, read the way the library reads it (None = not a framework)"""
    import openpyxl

    try:
        wb = openpyxl.load_workbook(path, read_only=True)
        names = [s.lower() for s in wb.sheetnames]
        wb.close()
        if "parameters" not in names:
            return None
        import atomica as at

        fw = at.ProjectFramework(path, validate=False)
    except Exception:
        return None
    out = []
    for df in fw.sheets.get("parameters", []):
        cols = {str(c).strip().lower(): c for c in df.columns}
        if "function" in cols:
            for v in df[cols["function"]]:
                if isinstance(v, str) and v.strip():
                    out.append(v)
    return out


def corpus(ctx):
    files = []
    for root in ("atomica/library", "tests", "docs"):
        for dp, _dn, fn in os.walk(core.REPO / root):
            for f in fn:
                if f.endswith(".xlsx") and not f.startswith("~"):
                    files.append(os.path.join(dp, f))
    files.sort()
    cache_f = core.VERIF / ".cache" / ("c19_corpus_%s.json" % hashlib.sha256(str(core.REPO.resolve()).encode()).hexdigest()[:8])
    cache = {}
    if cache_f.exists():
        try:
            cache = json.loads(cache_f.read_text())
        except Exception:
            cache = {}
    todo = []
    for f in files:
        st = os.stat(f)
        sig = f"{st.st_size}:{int(st.st_mtime)}"
        if cache.get(f, {}).get("sig") != sig:
            todo.append((f, sig))
    if todo:
        import multiprocessing as mp

        with mp.get_context("fork").Pool(min(12, len(todo))) as pool:
            res = pool.map(_read_functions, [f for f, _ in todo])
        for (f, sig), fns in zip(todo, res):
            cache[f] = {"sig": sig, "functions": fns}
        cache = {f: cache[f] for f in files}
        core.write_json(cache_f, cache)
    out, nfw = [], 0
    for f in files:
        fns = cache[f]["functions"]
        if fns is None:
            continue
        nfw += 1
        for s in fns:
            out.append((s, os.path.relpath(f, core.REPO)))
    ctx.extra["corpus_frameworks"] = nfw
    ctx.extra["corpus_strings"] = len(out)
    ctx.extra["corpus_distinct"] = len({s for s, _ in out})
    return out


# ----------------------------------------------------------------------------------------------
# implementation observation
# ----------------------------------------------------------------------------------------------
class Scratch:
    """An empty directory the whole check runs in; anything appearing there is a side effect."""

    def __init__(self):
        self.dir = tempfile.mkdtemp(prefix="c19_scratch_")
        self.old = os.getcwd()
        os.chdir(self.dir)

    def dirty(self):
        return sorted(os.listdir(self.dir))

    def clean(self):
        for f in os.listdir(self.dir):
            p = os.path.join(self.dir, f)
            try:
                os.remove(p)
            except Exception:
                import shutil

                shutil.rmtree(p, ignore_errors=True)

    def close(self):
        os.chdir(self.old)
        self.clean()
        try:
            os.rmdir(self.dir)
        except Exception:
            pass


def impl_parse(s):
    from atomica.function_parser import parse_function

    try:
        fcn, deps = parse_function(s)
        return True, fcn, list(deps), None
    except Exception as e:  # AssertionError (guards, whitelist), SyntaxError, ValueError (null bytes), RecursionError, MemoryError
        return False, None, None, type(e).__name__


def parse_reply(rep: str):
    toks = rep.split(" ")
    if toks[0] == "err":
        return None
    d = {}
    i = 0
    while i < len(toks) and "=" in toks[i]:
        k, v = toks[i].split("=", 1)
        d[k] = v
        i += 1
    assert toks[i] == "deps", rep
    n = int(toks[i + 1])
    d["deps"] = toks[i + 2:i + 2 + n]
    return d


def replay_script(s: str, env_src="x=np.array([1.,2.])") -> str:
    return ("import os, tempfile, numpy as np, atomica as at\n"
            "os.chdir(tempfile.mkdtemp())\n"
            f"f, deps = at.parse_function({s!r})   # the property requires an exception here\n"
            f"print('accepted; deps =', deps); print(f(**{{d: np.array([1., 2.]) for d in deps}}))\n"
            "print('files created:', os.listdir('.'))\n")


def demo_env(deps):
    return {d: np.array([1.0, 2.0]) for d in set(deps)}


def run_accept(ctx, scratch, items, stream_name):
    """items: list of (string, meta).  Compares accept/reject + deps with the model; returns accepted list."""
    from atomica.function_parser import supported_functions

    reqs, keep = [], []
    for s, meta in items:
        if not wire_ok(s):
            continue
        toks, _t = tree_tokens(s.replace(":", "___"))
        reqs.append("expr-accept " + enc_str(s) + " " + " ".join(toks))
        keep.append((s, meta))
    reps = core.drive(reqs)
    accepted = []
    for (s, meta), rep in zip(keep, reps):
        m = parse_reply(rep)
        if m is None:
            ctx.brk("correspondence", f"driver could not decode the tree of {s!r}: {rep}")
            continue
        ok, fcn, deps, exc = impl_parse(s)
        # the harness's own reading of the string: preprocessing as the model does it
        if m["prep"] != enc_str(s.replace(":", "___")):
            ctx.brk("correspondence", f"Expr.preprocess differs from str.replace(':','___') on {s!r}")
        g, spec, cur = m["g"] == "1", m["spec"], m["cur"]
        model_acc = g and spec == "acc"
        cur_acc = g and cur == "acc"
        ctx.count("current.agree" if cur_acc == ok else "current.differ")
        has_bad = spec.startswith("rej:") or not g
        nontrivial = has_bad or stream_name == "corpus"
        want_sample = meta.get("depth", 0) >= 2 and ctx.evaluations % 997 == 0
        ctx.case({"s": s}, nontrivial=nontrivial, sample={"string": s[:120], "impl": "accept" if ok else f"reject({exc})", "model": rep[:80]} if want_sample else None)
        if not g:
            ctx.count("accept.guard_dunder" if "__" in s else "accept.guard_length")
        if spec == "syntax":
            ctx.count("accept.syntax")
        if ok and model_acc:
            ctx.count("accept.both_accept")
            ctx.traces += 1
            accepted.append((s, meta, fcn, deps, m))
            # dependencies: model (multiset) and direct oracle (names of the string that are not whitelisted)
            tree = ast.parse(s.replace(":", "___"), mode="eval")
            direct = {n.id for n in ast.walk(tree) if isinstance(n, ast.Name) and n.id not in supported_functions}
            if set(deps) != set(m["deps"]) or set(deps) != direct:
                if set(deps) != direct:
                    ctx.violation({"api": "parse_function", "case": "deps"}, f"parse_function({s!r}) reports dependencies {sorted(set(deps))} but the names of the expression are {sorted(direct)}",
                                  {"string": s, "impl_deps": deps, "model_deps": m["deps"], "direct": sorted(direct)})
                else:
                    ctx.brk("correspondence", f"deps of {s!r}: impl {sorted(deps)} model {sorted(m['deps'])}")
            else:
                ctx.count("deps.match")
        elif (not ok) and (not model_acc):
            ctx.count("accept.both_reject")
            ctx.traces += 1
        elif ok and not model_acc:
            # the oracle: an accepted string containing a disallowed construct IS the violation
            node = spec[4:] if spec.startswith("rej:") else ("guard" if not g else "syntax")
            ctx.disagreements_checked += 1
            ctx.count("accept.VIOLATION." + node)
            effect = ""
            if spec.startswith("rej:"):
                before = scratch.dirty()
                try:
                    with np.errstate(all="ignore"):
                        fcn(**demo_env(deps))
                except Exception:
                    pass
                after = scratch.dirty()
                if after != before:
                    effect = f"; evaluating it created {sorted(set(after) - set(before))} in the working directory"
                    ctx.count("sidefx.observed_on_violation")
                scratch.clean()
            if node == "syntax":
                ctx.brk("correspondence", f"implementation accepted {s!r} which the harness could not parse")
            else:
                ctx.violation({"api": "parse_function", "node": node},
                              f"parse_function accepts {s!r}: " + ("violates the guard on the string ('__' / length)" if node == "guard" else f"contains a disallowed {node} node (atom {meta.get('atom')!r} nested at depth {meta.get('depth')})") + effect,
                              {"string": s, "model": rep, "meta": meta, "script": replay_script(s)})
        else:
            ctx.disagreements_checked += 1
            if stream_name == "corpus":
                ctx.violation({"api": "parse_function", "case": "corpus-rejected"}, f"parse_function rejects the framework function {s!r} ({meta.get('file')}) with {exc}",
                              {"string": s, "exception": exc, "meta": meta})
            else:
                ctx.count("accept.impl_stricter")
                ctx.brk("correspondence", f"parse_function rejects {s!r} ({exc}) which consists of safe node kinds only (model accepts)", string=s)
    return accepted


# ----------------------------------------------------------------------------------------------
# evaluation
# ----------------------------------------------------------------------------------------------
SCALARS = [0.0, 0.0, 0.0, 1.0, 1.0, -1.0, 2.0, 0.5, 0.25, 3.0, -2.0, 1.5, 10.0, 0.125, 0.1, 0.3, 2000.0, 7.0, -0.5, 1e-3, 100.0]


def rand_value(r):
    return r.choice(SCALARS) if r.random() < 0.85 else round(r.uniform(-5, 5), r.choice([1, 2, 3]))


def make_env(r, deps, mode, n):
    env = {}
    for d in sorted(set(deps)):
        if mode == "scalar":
            v = rand_value(r)
            env[d] = np.float64(v) if r.random() < 0.5 else v
        elif mode == "array" or (mode == "mixed" and r.random() < 0.5):
            env[d] = np.array([rand_value(r) for _ in range(n)], dtype=float)
        else:
            v = rand_value(r)
            env[d] = np.float64(v) if r.random() < 0.5 else v
    return env


def env_wire(env):
    toks = [str(len(env))]
    for k in sorted(env):
        v = env[k]
        if isinstance(v, np.ndarray):
            toks += [k, "a", str(len(v))] + [q(float(x)) for x in v]
        else:
            toks += [k, "s", q(float(v))]
    return toks


def parse_eval_reply(rep):
    """-> (frag, None) or (frag, ('sc'|'arr', [Fraction|None…], [bound Fraction|'amb'|None…]))"""
    toks = rep.split(" ")
    frag = (toks[0] == "frag=1", toks[1] == "sub=1")
    if toks[2] == "none":
        return frag, None
    bar = toks.index("|")
    left, right = toks[2:bar], toks[bar + 1:]
    if left[0] == "sc":
        vals = [unq(left[1])]
    else:
        vals = [unq(x) for x in left[2:2 + int(left[1])]]
    bounds = [("amb" if x == "amb" else unq(x)) for x in right]
    return frag, (left[0], vals, bounds)


def static_flags(tree):
    """features of an accepted expression used for branch counters"""
    kinds = {type(n).__name__ for n in ast.walk(tree)}
    calls = {n.func.id for n in ast.walk(tree) if isinstance(n, ast.Call) and isinstance(n.func, ast.Name)}
    return kinds, calls


def run_eval(ctx, scratch, accepted, per_string, label):
    """accepted: list of (s, meta, fcn, deps, m).  Evaluate on environments and compare with the model."""
    r = ctx.rng
    reqs, info = [], []
    for s, meta, fcn, deps, m in accepted:
        toks, tree = tree_tokens(s.replace(":", "___"))
        for j in range(per_string):
            mode = ("scalar", "array", "mixed")[(j + r.randrange(3)) % 3]
            n = r.choice([1, 2, 3, 5])
            env = make_env(r, deps, mode, n)
            reqs.append("expr-eval " + " ".join(env_wire(env)) + " " + " ".join(toks))
            info.append((s, meta, fcn, deps, env, mode, tree))
    reps = core.drive(reqs)
    for (s, meta, fcn, deps, env, mode, tree), rep in zip(info, reps):
        if rep.startswith("err"):
            ctx.brk("correspondence", f"driver could not evaluate {s!r}: {rep}")
            continue
        (frag, sub_undef), mv = parse_eval_reply(rep)
        exc = None
        try:
            with np.errstate(all="ignore"):
                res = fcn(**env)
        except Exception as e:
            exc, res = e, None
        kinds, calls = static_flags(tree)
        has_op = bool(kinds & {"BinOp", "UnaryOp", "Compare", "Call"})
        if not frag:
            ctx.count("eval.outside_fragment")
            ctx.case({"s": s, "env": str(env)}, nontrivial=False)
            continue
        if mv is None:
            ctx.count("eval.unmodelled")
            ctx.case({"s": s, "env": str(env)}, nontrivial=False)
            continue
        shape, vals, bounds = mv
        ctx.count("eval." + mode)
        any_arr = any(isinstance(v, np.ndarray) for v in env.values())
        key = {"s": s, "env": {k: (v.tolist() if isinstance(v, np.ndarray) else float(v)) for k, v in env.items()}}
        ctx.case(key, nontrivial=has_op and any(v is not None for v in vals))
        undefined = any(v is None for v in vals) or any(b == "amb" or b is None for b in bounds)
        if exc is not None:
            if isinstance(exc, ValueError) and "Integers to negative integer powers" in str(exc):
                ctx.count("eval.numpy_int_negative_power")  # numpy integer dtype semantics (int constants / booleans only), not modelled
            elif undefined or (sub_undef and isinstance(exc, (ZeroDivisionError, OverflowError))):
                ctx.count("eval.raise_where_undefined")  # Python's scalar ** / overflow raises where numpy returns inf
            else:
                ctx.violation(raise_key(exc), f"parse_function({s!r}) evaluated on {key['env']} raises {type(exc).__name__}: {exc}; exact arithmetic gives {[float(v) for v in vals]}",
                              {"string": s, "env": key["env"], "model": rep})
            continue
        if np.iscomplexobj(res) and undefined:
            ctx.count("eval.complex_where_undefined")  # Python's scalar ** with a negative base and fractional exponent
            continue
        try:
            if type(res) is int and abs(res) > 2**1000:
                res = float("inf") if Fraction(res) != vals[0] else float(vals[0]) if abs(vals[0]) < 2**1000 else None
                if res is None:  # an exact Python integer beyond float range that equals the model value
                    ctx.count("eval.match")
                    ctx.traces += 1
                    continue
            arr = np.asarray(res, dtype=float)
        except Exception:
            ctx.violation({"api": "parse_function.eval", "case": "non-numeric"}, f"parse_function({s!r}) on {key['env']} returned a non-numeric {type(res).__name__}", {"string": s, "env": key["env"]})
            continue
        want_shape = () if shape == "sc" else (len(vals),)
        if arr.shape != want_shape or (shape == "arr") != any_arr:
            ctx.violation({"api": "parse_function.eval", "case": "shape"}, f"parse_function({s!r}) on {key['env']} returned shape {arr.shape}, element-by-element evaluation gives {want_shape}",
                          {"string": s, "env": key["env"], "model": rep})
            continue
        flat = arr.reshape(-1)
        bad = None
        for i, (mvv, b, x) in enumerate(zip(vals, bounds, flat)):
            if mvv is None or b is None:
                ctx.count("eval.elem_undefined")
                continue
            x = float(x)
            if b == "amb":
                tol = None
            else:
                tol = 2 * b + Fraction(1, 10**15) * abs(mvv) + Fraction(1, 10**300)
            if not math.isfinite(x):
                good = False
            else:
                good = abs(Fraction(*x.as_integer_ratio()) - mvv) <= (tol if tol is not None else 0)
            if good:
                continue
            if tol is None:
                ctx.ambiguous += 1
                if len(ctx.notes) < 6:
                    ctx.notes.append(f"ambiguous (a branch could flip within rounding): {s!r} on {key['env']} impl {x!r} exact {float(mvv)!r}")
                continue
            bad = (i, x, mvv, b)
            break
        if bad is None:
            ctx.count("eval.match")
            ctx.traces += 1
        else:
            i, x, mvv, b = bad
            ctx.disagreements_checked += 1
            ctx.violation({"api": "parse_function.eval", "case": "value"},
                          f"parse_function({s!r}) on {key['env']} gives {x!r} at element {i}; exact arithmetic (sdiv: numerator 0 -> 0) gives {float(mvv)!r} (error bound {float(b):.3g})",
                          {"string": s, "env": key["env"], "model": rep, "impl": flat.tolist()})
    dirty = scratch.dirty()
    ctx.count("sidefx.clean_checks")
    if dirty:
        ctx.violation({"api": "parse_function.eval", "case": "side-effect"}, f"evaluating accepted strings ({label}) created files {dirty} in the working directory", {"files": dirty, "label": label})
        scratch.clean()


def raise_key(exc):
    if isinstance(exc, ValueError) and "non-broadcastable output" in str(exc):
        return {"api": "sdiv", "case": "0-d numerator with array denominator"}
    return {"api": "parse_function.eval", "case": "raises", "exception": type(exc).__name__}


# division probes: numerator / denominator zero patterns on scalars and arrays (direct oracle, no model needed)
def run_sdiv_oracle(ctx):
    from atomica.function_parser import parse_function

    r = ctx.rng
    exprs = ["x/y", "sdiv(x,y)", "(x-x)/y", "x/(y-y)", "0/y", "x/0", "0/0", "(x*0)/(y*0)", "x/y/z", "x/(y/z)", "1/x", "x/y+1", "-(x/y)", "max(x/y,0)", "(x/y)**2"]
    for e in exprs:
        ok, fcn, deps, exc = impl_parse(e)
        if not ok:
            ctx.violation({"api": "parse_function", "case": "corpus-rejected"}, f"parse_function rejects {e!r} ({exc})", {"string": e})
            continue
        for _ in range(ctx.n(20, 200)):
            n = r.choice([1, 2, 4])
            arrays = r.random() < 0.6
            env = {}
            for d in set(deps):
                if arrays and r.random() < 0.8:
                    env[d] = np.array([r.choice([0.0, 0.0, 1.0, 2.0, -3.0, 0.5]) for _ in range(n)])
                else:
                    env[d] = r.choice([0.0, 0.0, 1.0, 2.0, -3.0, 0.5])
            envd = {k: (v.tolist() if isinstance(v, np.ndarray) else v) for k, v in env.items()}
            try:
                with np.errstate(all="ignore"):
                    res = np.asarray(fcn(**env), dtype=float)
            except Exception as ex:
                ctx.violation(raise_key(ex), f"parse_function({e!r}) evaluated on {envd} raises {type(ex).__name__}: {ex}", {"string": e, "env": envd})
                continue
            if e in ("x/y", "sdiv(x,y)"):
                x, y = np.broadcast_arrays(np.asarray(env["x"], dtype=float), np.asarray(env["y"], dtype=float))
                res_b = np.broadcast_to(res, x.shape)
                for xi, yi, ri in zip(x.reshape(-1), y.reshape(-1), res_b.reshape(-1)):
                    ctx.hyp_checked += 1
                    if xi == 0:
                        ctx.count("eval.zero_numerator")
                        if yi == 0:
                            ctx.count("eval.zero_over_zero")
                        good = ri == 0
                    elif yi == 0:
                        ctx.count("eval.zero_denominator")
                        good = not math.isfinite(ri)
                    else:
                        good = ri == xi / yi
                    if good:
                        ctx.hyp_held += 1
                    else:
                        ctx.violation({"api": "parse_function.eval", "case": "sdiv"}, f"{e!r} with x={xi!r}, y={yi!r} gives {ri!r}", {"string": e, "x": float(xi), "y": float(yi), "impl": float(ri)})


# random arithmetic expressions over the whitelist
NAMES = ["x", "y", "z", "t", "a:b", "dt", "p_1"]


def gen_expr(r, depth, want_num=True):
    """returns (string, is_int_typed)"""
    if depth <= 0 or r.random() < 0.18:
        c = r.random()
        if c < 0.55:
            return r.choice(NAMES), False
        if c < 0.8:
            return str(r.choice([0, 0, 1, 1, 2, 3, 10, 5])), True
        return r.choice(["0.5", "0.25", "1.5", "2.0", "0.1", "1e-3", "0.0", "3.", ".5", "1e2"]), False
    c = r.random()
    if c < 0.5:
        op = r.choice(["+", "-", "*", "/", "/", "+", "*"])
        a, ia = gen_expr(r, depth - 1)
        b, ib = gen_expr(r, depth - 1)
        if op == "/" and r.random() < 0.15:
            b = r.choice([f"({a})-({a})", "0", "0.0", f"({b})*0"])  # zero denominators
        if op == "/" and r.random() < 0.15:
            a = r.choice([f"({b})-({b})", "0", "0.0", f"({a})*0"])  # zero numerators
        return f"({a}){op}({b})", ia and ib and op != "/"
    if c < 0.6:
        a, ia = gen_expr(r, depth - 1)
        if r.random() < 0.8:
            k = r.choice([-2, -1, 0, 1, 2, 2, 3])
            if k < 0 and ia:
                a = f"({a})*1.0"
            return f"({a})**({k})" if k < 0 else f"({a})**{k}", ia and k >= 0
        b, ib = gen_expr(r, depth - 1)
        return f"({a}*1.0)**({b})", False
    if c < 0.68:
        a, ia = gen_expr(r, depth - 1)
        return r.choice(["-", "-", "+"]) + f"({a})", ia
    if c < 0.78:
        a, _ = gen_expr(r, depth - 1)
        b, _ = gen_expr(r, depth - 1)
        cmp_ = f"(({a}){r.choice(['<', '<=', '>', '>=', '==', '!='])}({b}))"
        if r.random() < 0.8:
            d, idd = gen_expr(r, depth - 1)
            form = r.randrange(5)
            return [f"{cmp_}*({d})", f"({d})*{cmp_}", f"({d})+{cmp_}", f"({d})-{cmp_}", f"{cmp_}/({d})"][form], idd and form != 4
        return cmp_, True
    if c < 0.9:
        f = r.choice(["max", "min"])
        args = [gen_expr(r, depth - 1) for _ in range(r.choice([1, 2, 2, 2, 3, 4]))]
        return f"{f}({','.join(a for a, _ in args)})", all(i for _, i in args)
    if c < 0.94:
        a, _ = gen_expr(r, depth - 1)
        return f"floor({a})", False
    if c < 0.98:
        a, _ = gen_expr(r, depth - 1)
        b, _ = gen_expr(r, depth - 1)
        return f"sdiv({a},{b})", False
    a, _ = gen_expr(r, depth - 1)
    return r.choice(["exp", "sqrt", "ln", "cos", "sin"]) + f"({a})", False


def random_exprs(ctx, n):
    r = ctx.rng
    out = []
    for _ in range(n):
        s, _ = gen_expr(r, r.choice([1, 2, 2, 3, 3, 4]))
        if len(s) < 1700:
            out.append((s, {"stream": "random-arith", "atom": None, "depth": 0, "cls": "arith"}))
    return out


def run_missing_name(ctx, accepted):
    """direct oracle for `report exactly the names they depend on`: with one reported name withheld evaluation must fail with NameError"""
    r = ctx.rng
    import builtins

    for s, meta, fcn, deps, m in accepted:
        names = sorted(set(deps))
        if not names:
            continue
        drop = r.choice(names)
        if hasattr(builtins, drop):
            continue
        env = {d: 1.5 for d in names if d != drop}
        try:
            with np.errstate(all="ignore"):
                fcn(**env)
            raised = None
        except NameError:
            raised = "NameError"
        except Exception as e:
            raised = type(e).__name__
        ctx.hyp_checked += 1
        if raised == "NameError":
            ctx.hyp_held += 1
            ctx.count("deps.missing_name_raises")
        elif raised is None:
            ctx.violation({"api": "parse_function", "case": "deps"}, f"parse_function({s!r}) reports {drop!r} as a dependency but evaluates without it", {"string": s, "dropped": drop})
        else:
            ctx.count("deps.other_exception_first")


# ----------------------------------------------------------------------------------------------
# plot strings
# ----------------------------------------------------------------------------------------------
def gen_literal(r, depth):
    c = r.random()
    if depth <= 0 or c < 0.3:
        return repr(r.choice(["a", "sus:dead", "b c", "", "x+y", "pop[0]", "{k}", "it's"]))
    if c < 0.65:
        return "[" + ",".join(gen_literal(r, depth - 1) for _ in range(r.choice([0, 1, 2, 3]))) + "]"
    items = [repr(r.choice(["A", "B b", "c:d", ""])) + ":" + gen_literal(r, depth - 1) for _ in range(r.choice([0, 1, 2, 3]))]
    if r.random() < 0.1:
        items.append("**" + "{" + repr("u") + ":" + gen_literal(r, depth - 1) + "}")
    return "{" + ",".join(items) + "}"


PLOT_BAD = ["1", "x", "('a','b')", "f('a')", "x.y", "{'a'}", "f'a'", "[y for y in 'ab']", "b'a'", "None", "'a'+'b'", "(lambda: 'a')", "-1", "['a'][0]", "[*['a']]", "1.5",
            "True", "open('w','w')", "{'a':1}", "[1,2]", "'a' if 'b' else 'c'", "('a')", "x['a']", "{'k': v}", "[x]", "...", "{1:'a'}", "[[1]]", "{'a': ['b', 2]}", "['a' 'b']", "['a'][0:1]", "{k: 'v' for k in 'ab'}", "[(y := 'a')]", "[lambda x=1: x]", "f'{1:>{2}}'", "[await x]", "[(yield)]"]
PLOT_PASS = ["sus:dead", "x+y", "open('f','w')", "", "alive", "a.b", "lambda: 1", "(1,2)", "'quoted'", "sum(x)"]


def plot_strings(ctx):
    r = ctx.rng
    out = []
    for s in PLOT_PASS:
        out.append((s, "pass"))
    for _ in range(ctx.n(300, 3000)):
        out.append((gen_literal(r, r.choice([1, 2, 3])), "literal"))
    for b in PLOT_BAD:
        out.append((b, "bad0"))
        for _ in range(ctx.n(4, 30)):
            lit = gen_literal(r, r.choice([1, 2, 3]))
            # replace one string leaf by the bad node
            leaves = [i for i in range(len(lit)) if lit[i] == "'" or lit[i] == '"']
            wrappers = ["[{h}]", "{{'k':{h}}}", "[['a'],{h}]", "{{'k':['a',{h}]}}", "{{{h}:'v'}}", "{{**{h}}}", "[{{'a':[{h}]}}]"]
            out.append((r.choice(wrappers).format(h=b), "bad1"))
            out.append((r.choice(wrappers).format(h=r.choice(wrappers).format(h=b)), "bad2"))
            out.append((lit[:-1] + "," + b + lit[-1] if lit[-1] in "]" and len(lit) > 2 else "[" + lit + "," + b + "]", "bad-in-literal"))
    out += [("{'__a':'b'}", "guard"), ("['a'].__class__", "guard"), ("[" + ",".join(["'aaaaaaaa'"] * 200) + "]", "guard-len"), ("['a'", "syntax"), ("{'a':}", "syntax"), ("[", "syntax"), ("{", "syntax"),
            ("'a[b]'", "literal"), ("'{'", "literal"), ("[]", "literal"), ("{}", "literal")]
    return out


def run_plot(ctx, scratch):
    from atomica.utils import evaluate_plot_string

    items = [(s, k) for s, k in plot_strings(ctx) if wire_ok(s)]
    reqs = []
    for s, _k in items:
        toks, _ = tree_tokens(s)
        reqs.append("plotstr " + enc_str(s) + " " + " ".join(toks))
    reps = core.drive(reqs)
    for (s, kind), rep in zip(items, reps):
        try:
            val = evaluate_plot_string(s)
            ok, exc = True, None
        except Exception as e:
            val, ok, exc = None, False, type(e).__name__
        ctx.case({"plot": s}, nontrivial=rep != "pass", sample=None)
        if rep == "pass":
            ctx.count("plot.pass")
            if not ok or val is not s and val != s:
                ctx.violation({"api": "evaluate_plot_string", "case": "passthrough"}, f"evaluate_plot_string({s!r}) has no list/dict token and must be returned unchanged; got {val!r} / {exc}", {"string": s})
            else:
                ctx.traces += 1
            continue
        toks = rep.split(" ")
        if toks[0] != "check":
            ctx.brk("correspondence", f"plotstr reply {rep!r} for {s!r}")
            continue
        model_acc = toks[1] == "g=1" and toks[2] == "acc"
        if model_acc:
            # the model says `s` is a tree of dict/list/string literals, so evaluating it here is harmless
            try:
                lit, lit_exc = eval(s, {"__builtins__": {}}, {}), None
            except Exception as e:
                lit, lit_exc = None, type(e).__name__
        if ok and model_acc:
            ctx.count("plot.accept")
            ctx.traces += 1
            if not (type(val) in (dict, list, str) and lit_exc is None and val == lit):
                ctx.violation({"api": "evaluate_plot_string", "case": "value"}, f"evaluate_plot_string({s!r}) returned {val!r}, the literal is {lit!r}", {"string": s})
        elif (not ok) and model_acc and lit_exc == exc:
            ctx.count("plot.literal_raises")  # e.g. a dict literal used as a dict key: building the literal itself fails
            ctx.traces += 1
        elif not ok and not model_acc:
            ctx.count("plot.reject")
            ctx.traces += 1
        elif ok and not model_acc:
            ctx.disagreements_checked += 1
            ctx.violation({"api": "evaluate_plot_string", "node": toks[2]}, f"evaluate_plot_string accepts {s!r} which is not a tree of dict/list/string literals (returned {val!r})", {"string": s, "model": rep})
        else:
            ctx.disagreements_checked += 1
            ctx.brk("correspondence", f"evaluate_plot_string rejects {s!r} ({exc}) which is a dict/list/string literal tree (model accepts)", string=s)
    dirty = scratch.dirty()
    ctx.count("sidefx.clean_checks")
    if dirty:
        ctx.violation({"api": "evaluate_plot_string", "case": "side-effect"}, f"evaluate_plot_string created files {dirty}", {"files": dirty})
        scratch.clean()


# ----------------------------------------------------------------------------------------------
# whitelist oracle
# ----------------------------------------------------------------------------------------------
def run_whitelist(ctx):
    from atomica.function_parser import supported_functions

    keys = list(supported_functions)
    src = ctx.extra.get("whitelist_source_keys")
    if src is not None and src != keys:
        ctx.brk("correspondence", f"translator read {src} from the source text but the imported dict has {keys}")
    for k in keys:
        ctx.hyp_checked += 1
        if k in ALLOWED_NAMES:
            ctx.hyp_held += 1
        else:
            s = f"{k}(1)"
            ok, *_ = impl_parse(s)
            ctx.violation({"api": "supported_functions", "name": k}, f"supported_functions whitelists {k!r}, which is not one of the listed mathematical functions; parse_function({s!r}) {'accepts' if ok else 'rejects'}",
                          {"string": s, "name": k, "script": f"import atomica as at; print(at.parse_function({s!r}))"})


# ----------------------------------------------------------------------------------------------
def run_reparse(ctx, accepted):
    """'parsing has no side effects' and the reported dependencies are a function of the string: the list returned for one parse belongs to the caller
    (the library's own callers remove 't'/'dt', filter flow names, sort in place); parsing the same string again must report the same names, and the
    function returned must still evaluate from exactly the reported names."""
    from atomica.function_parser import parse_function

    r = ctx.rng
    pool = [s for s in accepted if isinstance(s, str)]
    for s in (r.sample(pool, min(len(pool), ctx.n(150, 1500)))):
        try:
            f1, d1 = parse_function(s)
            first = list(d1)
            if isinstance(d1, list):
                # what callers do with their list
                for nm in ("t", "dt"):
                    if nm in d1:
                        d1.remove(nm)
                d1.sort(reverse=True)
                d1.append("zz_callers_own")
                if d1:
                    d1.pop(0)
            f2, d2 = parse_function(s)
        except Exception as e:
            ctx.violation({"api": "parse_function", "case": "reparse-raises"}, f"parsing {s!r} a second time raised {type(e).__name__}: {e}", {"string": s})
            continue
        ctx.count("reparse.checked")
        if len(first) > 0:
            ctx.count("reparse.with_dependencies")
        if sorted(d2) != sorted(first):
            ctx.violation({"api": "parse_function", "case": "reparse-deps"}, f"{s!r}: the first parse reported {sorted(first)}; after the caller edited ITS list, a second parse of the same string reports {sorted(d2)}", {"string": s})


def run(ctx):
    import atomica  # noqa

    scratch = Scratch()
    try:
        check_grammar_coverage(ctx)
        run_whitelist(ctx)
        # 1. must-accept corpus
        corp = corpus(ctx)
        seen = set()
        items = []
        for s, f in corp:
            if s not in seen:
                seen.add(s)
                items.append((s, {"stream": "corpus", "file": f, "atom": None, "depth": 0, "cls": "corpus"}))
        acc = run_accept(ctx, scratch, items, "corpus")
        ctx.count("corpus.accepted", len(acc))
        run_eval(ctx, scratch, acc, ctx.n(3, 12), "corpus")
        run_missing_name(ctx, acc)
        # 2. exhaustive nesting + guards
        acc = run_accept(ctx, scratch, nesting_strings(ctx) + guard_strings(ctx), "nesting")
        sub = acc if len(acc) < ctx.n(1500, 8000) else ctx.rng.sample(acc, ctx.n(1500, 8000))
        run_eval(ctx, scratch, sub, 2, "nesting")
        # 3. random arithmetic
        acc = run_accept(ctx, scratch, random_exprs(ctx, ctx.n(2500, 30000)), "random")
        run_eval(ctx, scratch, acc, ctx.n(3, 4), "random")
        run_missing_name(ctx, acc[: ctx.n(500, 5000)])
        run_reparse(ctx, [a if isinstance(a, str) else a[0] for a in acc])
        run_sdiv_oracle(ctx)
        # 4. plot strings
        run_plot(ctx, scratch)
        dirty = scratch.dirty()
        if dirty:
            ctx.violation({"api": "parse_function", "case": "side-effect"}, f"files {dirty} appeared in the working directory", {"files": dirty})
        ctx.exhaustive = False
    finally:
        scratch.close()


def replay(ctx, data):
    from atomica.utils import evaluate_plot_string

    rp = data.get("replay", {})
    s = rp.get("string")
    print("key:", data.get("key"))
    print("what:", data.get("what"))
    if s is None:
        print(json.dumps(rp, indent=1)[:2000])
        return 0
    scratch = Scratch()
    try:
        if data.get("key", {}).get("api") == "evaluate_plot_string":
            toks, _ = tree_tokens(s)
            print("model:", core.drive(["plotstr " + enc_str(s) + " " + " ".join(toks)])[0])
            try:
                print("impl :", repr(evaluate_plot_string(s)))
            except Exception as e:
                print("impl : raises", type(e).__name__, e)
            return 0
        toks, _ = tree_tokens(s.replace(":", "___"))
        print("model:", core.drive(["expr-accept " + enc_str(s) + " " + " ".join(toks)])[0])
        ok, fcn, deps, exc = impl_parse(s)
        print("impl :", f"accepts, deps={deps}" if ok else f"rejects with {exc}")
        if ok:
            env = rp.get("env")
            env = {k: (np.array(v) if isinstance(v, list) else v) for k, v in env.items()} if env else demo_env(deps)
            try:
                with np.errstate(all="ignore"):
                    print("value:", fcn(**env), "on", env)
            except Exception as e:
                print("value: raises", type(e).__name__, e)
            if env:
                print("model value:", core.drive(["expr-eval " + " ".join(env_wire(env)) + " " + " ".join(toks)])[0][:400])
            print("files created:", scratch.dirty())
    finally:
        scratch.close()
    return 0


if __name__ == "__main__":
    core.main(sys.modules[__name__])
