"""
C20 -- Reported aggregates depend only on what was asked for and add up.

Mode A (correspondence): real `PlotData(...)` on real `Result`s of library demos vs the specification-shaped Lean
model `Atomica.Aggregate.plotData` (kind `agg plot`), `Series.interpolate` / `PlotData.time_aggregate` vs
`agg interp` / `agg tagg`, `get_cascade_vals` / `get_cascade_data` vs `cascade vals` / `cascade data`.
Direct oracles on the implementation: the series for one (output, population group, options) is the same in every
call that requests it (all ordered subsets of <= 4 outputs); summed aggregates = sum of parts; averages between
min and max; total of a number quantity = sum over populations; cascade stages never increase; cascade data =
sum of databook entries.
Mode E: any sequence of plotting / export calls leaves every array of the `Result` (and the databook) bit-identical.
"""
import itertools
import math
import os
import random
import sys
import tempfile
from fractions import Fraction

import numpy as np

from vlib import core
from vlib.core import q, unq

PROPERTY = "C20"
LEAN_MODS = ["AtomicaProofs.Properties.C20"]
THEOREMS = [
    "Atomica.C20.sum_of_parts",
    "Atomica.C20.sum_of_parts_pops",
    "Atomica.C20.total_number_is_sum",
    "Atomica.C20.average_between",
    "Atomica.C20.weighted_between",
    "Atomica.C20.pop_average_between",
    "Atomica.C20.weighted_zero_witness",
    "Atomica.C20.plotData_entry",
    "Atomica.C20.depends_only_on_request",
    "Atomica.C20.plotDataCurrent_eq_map",
    "Atomica.C20.carry_over_witness",
    "Atomica.C20.carry_over_pop_witness",
    "Atomica.C20.interp_linear_additive",
    "Atomica.C20.trapz_additive",
    "Atomica.C20.bin_integral_additive",
    "Atomica.C20.cascade_pair",
    "Atomica.C20.cascade_monotone",
    "Atomica.C20.duplicate_stage_witness",
    "Atomica.C20.cascade_data_sum",
    "Atomica.C20.data_alias_witness",
]
TRUSTED = [
    "harness re-implementation of PlotData's first pass (raw series per label: links summed and divided by dt, compsize, units) and of Population.popsize -- the Lean model starts from these raw series",
    "formula outputs: the formula's value per population is an oracle input (evaluated by the harness with numpy on the raw series; parse_function is C19's subject)",
    "time_aggregate with interpolation_method='previous' (programs only), accumulate(), PlotData.programs, matplotlib rendering and Excel formatting: not modelled, only checked not to modify the Result (mode E)",
    "refinement count n = ceil((u-l)/max_step)+1 of time_aggregate is computed exactly in the model; bins where the float computation lands on the other side of an integer are counted ambiguous and skipped",
]
ASSUMPTIONS = [
    "requested aggregation / formula names are distinct from each other and from framework quantities (a formula named like an existing output shadows it in data_dict)",
    "a named output aggregation with the default method lists labels whose units are of one kind (the code takes element 0 of a set of units: hash-order dependent when kinds are mixed)",
    "weighted output aggregation is requested only for labels that have a compartment size (comps, characs, links, transition parameters); otherwise the code raises KeyError as documented",
]
RULE = (
    "universes = (demo Result) x (<=4 requested outputs drawn from plain names / flow selectors / named aggregations / formulas, mixing dimensionless and number units) x (<=3 population specs: single, named aggregation, 'total') x "
    "(output_aggregation, pop_aggregation in None/sum/average/weighted); every ordered non-empty subset of the outputs x several orders/subsets of the pops is one call; non-trivial = the call contains an aggregation (output or population) "
    "or >=2 outputs whose default methods differ; cascades: framework-defined and ad-hoc (nested chains of compartments/characteristics, some with a repeated constituent) x population selections x year selections; "
    "mode E: random sequences of PlotData/plot/export/cascade calls on one Result"
)
EXPECTED_BRANCHES = [
    "call.all_defaults", "call.multi_result", "tagg.timescale_not_1", "out.plain", "out.agg", "out.formula", "out.link_selector", "pop.single", "pop.agg", "pop.total",
    "method.default.sum", "method.default.average", "method.explicit.sum", "method.explicit.average", "method.explicit.weighted",
    "units.mixed_in_call", "interp.inside", "interp.outside_nan", "interp.gridpoint", "tagg.integrate", "tagg.average", "tagg.default", "tagg.scalar_bins", "tagg.all",
    "cascade.framework", "cascade.adhoc_list", "cascade.adhoc_dict", "cascade.year", "cascade.data", "cascade.rejected", "modeE.sequence",
]

QUICK_DEMOS = ["udt", "tb_simple", "hiv_dyn", "hypertension_dyn", "diabetes", "tb"]
THOROUGH_DEMOS = QUICK_DEMOS + ["hypertension", "hiv", "cervicalcancer", "udt_dyn", "tb_simple_dyn", "usdt"]

UNIT_CODES = {"": 0, "fraction": 1, "proportion": 2, "probability": 3, "rate": 4, "number": 5, "duration": 6, "Number of people": 7, "unknown": 8}
DIMLESS = {0, 1, 2, 3, 4}
TIME_AVG = {1, 2, 3, 4, 6}
_extra_units = {}


def ucode(u):
    if isinstance(u, str):
        if u in UNIT_CODES:
            return UNIT_CODES[u]
        return _extra_units.setdefault(u, 10 + len(_extra_units))
    return 9  # None / NaN


# ----------------------------------------------------------------------------------------------
# worlds: a demo Result + raw series extracted independently of PlotData
# ----------------------------------------------------------------------------------------------
_WORLDS = {}


class World:
    def __init__(self, name):
        import atomica as at
        from atomica.model import Compartment, Characteristic, Parameter, Link, JunctionCompartment, SourceCompartment, SinkCompartment

        self.name = name
        self.P = at.demo(name, do_run=False)
        self.result = self.P.run_sim(self.P.parsets[0], result_name="base")
        r = self.result
        self.t = r.model.t
        self.dt = r.model.dt
        self.T = len(self.t)
        self.pops = [p.name for p in r.model.pops]
        self.popsize = {}
        for p in r.model.pops:
            self.popsize[p.name] = np.sum([c.vals for c in p.comps if not isinstance(c, (SourceCompartment, SinkCompartment))], axis=0)
        self._cls = (Compartment, Characteristic, Parameter, Link, JunctionCompartment)
        self._raw = {}
        p0 = r.model.pops[0]
        self.comp_names = [c.name for c in p0.comps]
        self.charac_names = [c.name for c in p0.characs]
        self.par_names = [x.name for x in p0.pars if x.vals is not None and x.name in r.framework.pars.index]
        sel = []
        for lk in p0.links:
            sel.append(f"{lk.source.name}:{lk.dest.name}")
            if lk.parameter is not None:
                sel.append(f"{lk.parameter.name}:flow")
                sel.append(f"{lk.source.name}:{lk.dest.name}:{lk.parameter.name}")
            sel.append(f"{lk.source.name}:")
            sel.append(f":{lk.dest.name}")
        self.link_selectors = sorted(set(sel))
        # links that leave a junction (their weight in a weighted average is the junction's throughput, not its -- always empty -- stock)
        self.junction_link_selectors = sorted({f"{lk.source.name}:{lk.dest.name}" for lk in p0.links if isinstance(lk.source, JunctionCompartment) and np.any(np.asarray(lk.vals, dtype=float)[:-1] > 0)})
        # boundary values: labels that are exactly 0 in every population at some time (weighted up by the generator)
        self.zero_labels = []
        for lab in self.comp_names + self.par_names:
            try:
                per = self.raw(lab)[2]
            except Exception:
                continue
            if np.any(np.all(np.array([per[p][0] for p in self.pops]) == 0, axis=0)):
                self.zero_labels.append(lab)
        self.result2 = None
        # constituents that have databook entries in every population (cascade values from data)
        fw, data = self.P.framework, self.P.data
        self.data_labels = []
        for c in list(fw.comps.index) + list(fw.characs.index):
            tss = [data.get_ts(c, p) for p in self.pops]
            if all(ts is not None and len(ts.t) > 0 for ts in tss):
                self.data_labels.append(c)

    def second_result(self):
        """the same simulation under another name (for multi-result calls)"""
        if self.result2 is None:
            self.result2 = self.P.run_sim(self.P.parsets[0], result_name="alt")
        return self.result2

    def raw(self, label):
        """(units, {pop: (vals, weight|None)}) for a raw label -- re-implementation of PlotData's first pass"""
        if label in self._raw:
            return self._raw[label]
        Compartment, Characteristic, Parameter, Link, JunctionCompartment = self._cls
        out = {}
        units = None
        kind = None
        for pop in self.result.model.pops:
            vs = pop.get_variable(label)
            v0 = vs[0]
            if isinstance(v0, Link):
                kind = "link"
                vals = np.zeros(self.T)
                w = np.zeros(self.T)
                for lk in vs:
                    vals = vals + lk.vals
                    w = w + (lk.source.outflow if isinstance(lk.source, JunctionCompartment) else lk.source.vals)
                vals = vals / self.dt
                u = v0.units
            elif isinstance(v0, Parameter):
                kind = "par"
                vals = v0.vals
                u = v0.units
                w = None
                if v0.links:
                    w = np.zeros(self.T)
                    for lk in v0.links:
                        w = w + (lk.source.outflow if isinstance(lk.source, JunctionCompartment) else lk.source.vals)
            else:
                kind = "comp" if isinstance(v0, Compartment) else "charac"
                vals = v0.vals
                w = v0.vals
                u = v0.units
            units = u
            out[pop.name] = (np.array(vals, dtype=float), None if w is None else np.array(w, dtype=float))
        self._raw[label] = (units, kind, out)
        return self._raw[label]


def world(name):
    if name not in _WORLDS:
        _WORLDS[name] = World(name)
    return _WORLDS[name]


# ----------------------------------------------------------------------------------------------
# request generation
# ----------------------------------------------------------------------------------------------
def _sdiv(n, d):
    """atomica formulas divide with `sdiv`: 0 wherever the numerator is 0 (function_parser._DivTransformer)"""
    return np.divide(n, d, out=np.zeros_like(d, dtype=float), where=n != 0)


# formula text (as the user writes it) -> the harness's own evaluation of it (oracle input to the model)
FORMULAS = {
    "{a}+{b}": lambda a, b: a + b,
    "2*{a}-{b}": lambda a, b: 2 * a - b,
    "{a}/({a}+{b})": lambda a, b: _sdiv(a, a + b),
    "{a}*{b}": lambda a, b: a * b,
    "{a}/{b}": lambda a, b: _sdiv(a, b),
    "{a}+1": lambda a, b: a + 1,
}


def label_class(w, label):
    u, kind, _ = w.raw(label)
    return "dimless" if ucode(u) in DIMLESS else "number"


def pick_labels(w, rng, cls, n, need_weight=False, allow_links=True):
    """n labels whose units are of class `cls` (all of one exact unit, so that a default aggregation is well defined)"""
    pools = {}
    cands = list(w.comp_names) + list(w.charac_names) + list(w.par_names) + (list(w.link_selectors) if allow_links else [])
    rng.shuffle(cands)
    for lab in cands[:60]:
        try:
            u, kind, per = w.raw(lab)
        except Exception:
            continue
        if need_weight and any(x[1] is None for x in per.values()):
            continue
        c = "dimless" if ucode(u) in DIMLESS else "number"
        if c != cls:
            continue
        pools.setdefault(ucode(u), []).append(lab)
    if not pools:
        return None
    code = rng.choice(sorted(pools))
    pool = pools[code]
    if rng.random() < 0.1 and len(pool) >= 1:
        return [rng.choice(pool) for _ in range(n)]  # may repeat a label
    return rng.sample(pool, min(n, len(pool)))


def gen_output(w, rng, idx, cls, oa):
    """one requested output: ('plain', label) | ('agg', name, [labels]) | ('formula', name, expr, [a, b])"""
    r = rng.random()
    need_w = oa == "weighted"
    if r < 0.4:
        labs = pick_labels(w, rng, cls, 1)
        return ("plain", labs[0]) if labs else None
    if r < 0.85:
        n = rng.choice([1, 2, 2, 3, 4])
        labs = pick_labels(w, rng, cls, n, need_weight=need_w)
        return ("agg", f"agg{idx}", labs) if labs else None
    labs = pick_labels(w, rng, cls, 2, allow_links=False)
    if not labs or len(labs) < 2:
        return None
    return ("formula", f"fn{idx}", rng.choice(sorted(FORMULAS)), labs)


def gen_universe(w, rng):
    oa = rng.choice([None, None, None, "sum", "average", "weighted"])
    pa = rng.choice([None, None, None, "sum", "average", "weighted"])
    k = rng.choice([2, 3, 3, 4, 4])
    classes = [rng.choice(["dimless", "number"]) for _ in range(k)]
    if rng.random() < 0.7 and k >= 2:
        classes[0], classes[1] = rng.sample(["dimless", "number"], 2)
    outs = []
    for i, c in enumerate(classes):
        o = gen_output(w, rng, i, c, oa) or gen_output(w, rng, i, "number", oa)
        if o is not None and o not in outs and (o[0] != "plain" or all(x != o for x in outs)):
            outs.append(o)
    if w.zero_labels and rng.random() < 0.2:
        # boundary: a quantity that is exactly 0 in all populations at some time, under a weighted population average
        outs.append(("plain", rng.choice(w.zero_labels)))
        pa = rng.choice(["weighted", "weighted", "average", None])
    # distinct plain labels only (a repeated plain name is the same request)
    seen = set()
    outs2 = []
    for o in outs:
        key = o[1]
        if key in seen:
            continue
        seen.add(key)
        outs2.append(o)
    outs = outs2
    pops = []
    npop = len(w.pops)
    for gi in range(rng.choice([1, 2, 2, 3])):
        r = rng.random()
        if r < 0.35 or npop == 1 and r < 0.5:
            g = ("single", rng.choice(w.pops))
        elif r < 0.85:
            m = rng.randint(1, npop)
            members = rng.sample(w.pops, m)
            if rng.random() < 0.05:
                members = members + [members[0]]
            g = ("agg", f"grp{gi}", members)
        else:
            g = ("agg", "Total", list(w.pops))
        if all(x[1] != g[1] for x in pops):
            pops.append(g)
    return {"demo": w.name, "oa": oa, "pa": pa, "outs": outs, "pops": pops}


def out_arg(o):
    if o[0] == "plain":
        return o[1]
    if o[0] == "agg":
        return {o[1]: list(o[2])}
    return {o[1]: o[2].format(a=o[3][0], b=o[3][1])}


def out_name(o):
    return o[1]


def pop_arg(g):
    return g[1] if g[0] == "single" else {g[1]: list(g[2])}


def pop_name(g):
    return g[1]


def pop_members(g):
    return [g[1]] if g[0] == "single" else list(g[2])


def out_labels(o):
    return [o[1]] if o[0] == "plain" else list(o[2]) if o[0] == "agg" else list(o[3])


def formula_values(w, o, pop):
    a = w.raw(o[3][0])[2][pop][0]
    b = w.raw(o[3][1])[2][pop][0]
    with np.errstate(all="ignore"):
        return np.asarray(FORMULAS[o[2]](a, b), dtype=float) * np.ones(w.T)


def out_units_code(w, o):
    """aggregated units code of an output (mirrors Aggregate.outUnits)"""
    if o[0] == "plain":
        return ucode(w.raw(o[1])[0])
    if o[0] == "formula":
        return 8
    codes = [ucode(w.raw(x)[0]) for x in o[2]]
    return codes[0] if all(c == codes[0] for c in codes) else 8


def run_plotdata(w, outs, pops, oa, pa, style=None, results=None, **kw):
    """the real call.  `style` (a random.Random) varies equivalent spellings of the same request: several named
    aggregations in one multi-key dict, the keyword 'total', a bare string / dict instead of a one-element list"""
    import atomica as at

    o_arg = [out_arg(o) for o in outs]
    p_arg = [pop_arg(g) for g in pops]
    if style is not None:
        if style.random() < 0.5:
            merged = []
            for x in o_arg:
                if isinstance(x, dict) and merged and isinstance(merged[-1], dict) and style.random() < 0.7:
                    merged[-1] = {**merged[-1], **x}
                else:
                    merged.append(dict(x) if isinstance(x, dict) else x)
            o_arg = merged
        if len(o_arg) == 1 and style.random() < 0.5:
            o_arg = o_arg[0]
        if len(pops) == 1 and pops[0][0] == "agg" and pops[0][1] == "Total" and list(pops[0][2]) == list(w.pops) and style.random() < 0.5:
            p_arg = "total"
        elif len(p_arg) == 1 and style.random() < 0.5:
            p_arg = p_arg[0]
        elif all(g[0] == "single" for g in pops) and [g[1] for g in pops] == list(w.pops) and style.random() < 0.5:
            p_arg = style.choice([None, "all"])
    with np.errstate(all="ignore"):
        return at.PlotData(w.result if results is None else results, outputs=o_arg, pops=p_arg, output_aggregation=oa, pop_aggregation=pa, **kw)


def series_of(d, g, o, result=None):
    hits = [s for s in d.series if s.pop == pop_name(g) and s.output == out_name(o) and (result is None or s.result == result)]
    assert len(hits) == 1, (pop_name(g), out_name(o), [(s.pop, s.output) for s in d.series])
    return hits[0]


def same(a, b):
    """same reported series (bitwise, or to 1e-12 relative -- the operations are identical, so normally bitwise)"""
    if a.shape != b.shape:
        return False
    if np.array_equal(a, b, equal_nan=True):
        return True
    na, nb = np.isnan(a), np.isnan(b)
    if not np.array_equal(na, nb):
        return False
    m = ~na
    return bool(np.all(np.abs(a[m] - b[m]) <= 1e-12 * np.maximum(1e-300, np.maximum(np.abs(a[m]), np.abs(b[m])))))


def mstr(m):
    return "-" if m is None else m


def model_lines(w, uni, tis, cur=False, outs=None, pops=None):
    """one `agg plot` request per time index for the call (outs, pops) of this universe"""
    outs = uni["outs"] if outs is None else outs
    pops = uni["pops"] if pops is None else pops
    labels = []
    for o in outs:
        if o[0] != "formula":
            for x in out_labels(o):
                if x not in labels:
                    labels.append(x)
    if not labels:
        labels = [w.comp_names[0]]
    lidx = {x: i for i, x in enumerate(labels)}
    pidx = {p: i for i, p in enumerate(w.pops)}
    units = [ucode(w.raw(x)[0]) for x in labels]
    fvals = {o[1]: {p: formula_values(w, o, p) for p in w.pops} for o in outs if o[0] == "formula"}
    req = sorted({pidx[p] for g in pops for p in pop_members(g)})
    lines = []
    for ti in tis:
        tk = ["agg", "plot", "1" if cur else "0", mstr(uni["oa"]), mstr(uni["pa"]), str(len(labels)), str(len(w.pops))]
        tk += [str(u) for u in units]
        tk += [q(w.popsize[p][ti]) for p in w.pops]
        for p in w.pops:
            tk += [q(w.raw(x)[2][p][0][ti]) for x in labels]
            tk += [q(w.raw(x)[2][p][1][ti]) if w.raw(x)[2][p][1] is not None else "0" for x in labels]
        tk.append(str(len(outs)))
        for o in outs:
            if o[0] == "plain":
                tk += ["p", str(lidx[o[1]])]
            elif o[0] == "agg":
                tk += ["a", str(len(o[2]))] + [str(lidx[x]) for x in o[2]]
            else:
                tk.append("f")
                for p in w.pops:
                    v = fvals[o[1]][p][ti]
                    tk.append(q(v) if math.isfinite(v) else "nan")
        tk.append(str(len(pops)))
        for g in pops:
            if g[0] == "single":
                tk += ["s", str(pidx[g[1]])]
            else:
                tk += ["a", str(len(g[2]))] + [str(pidx[p]) for p in g[2]]
        tk.append(str(len(req)))
        tk += [str(x) for x in req]
        lines.append(" ".join(tk))
    return lines


def parse_vals(rep):
    return [unq(x) for x in rep.split()]


def entry_scale(w, o, g, ti):
    s = 0.0
    for p in pop_members(g):
        if o[0] == "formula":
            v = formula_values(w, o, p)[ti]
            s += abs(v) if math.isfinite(v) else 0.0
        else:
            for x in out_labels(o):
                s += abs(w.raw(x)[2][p][0][ti])
    return s


# ----------------------------------------------------------------------------------------------
# Part 1: PlotData aggregation, order / subset independence
# ----------------------------------------------------------------------------------------------
def carried(w, uni, call_outs, call_pops, o, g):
    """which loop-carried default could affect entry (o, g) inside this call (harness-side reading of D8)"""
    which = []
    if uni["oa"] is None and o[0] == "agg":
        first = next((x for x in call_outs if x[0] == "agg"), None)
        if first is not None and (ucode(w.raw(first[2][0])[0]) in DIMLESS) != (ucode(w.raw(o[2][0])[0]) in DIMLESS):
            which.append("output")
    if uni["pa"] is None and g[0] == "agg":
        # pop_aggregation is fixed by the first (dict pop, first output) pair of the call
        if any(x[0] == "agg" for x in call_pops):
            if (out_units_code(w, call_outs[0]) in DIMLESS) != (out_units_code(w, o) in DIMLESS):
                which.append("pop")
    if uni["oa"] is None and g[0] == "agg" and o[0] == "agg" and "output" not in which:
        pass
    return which


def check_universe(ctx, w, uni, max_calls):
    outs, pops, oa, pa = uni["outs"], uni["pops"], uni["oa"], uni["pa"]
    if not outs or not pops:
        return
    rng = ctx.rng
    # ---- reference: each (output, pop spec) requested alone ----
    ref = {}
    for gi, g in enumerate(pops):
        for oi, o in enumerate(outs):
            d = run_plotdata(w, [o], [g], oa, pa)
            ref[(oi, gi)] = series_of(d, g, o).vals.copy()
    # ---- correspondence of the reference with the specification model ----
    tis = list(range(w.T)) if w.T <= 24 else sorted(set([0, w.T - 1] + rng.sample(range(w.T), 10)))
    reps = core.drive(model_lines(w, uni, tis))
    for ti, rep in zip(tis, reps):
        if rep.startswith("err"):
            ctx.brk("correspondence", f"driver: {rep}", universe=uni)
            return
        mv = parse_vals(rep)
        k = 0
        for gi, g in enumerate(pops):
            for oi, o in enumerate(outs):
                m = mv[k]
                k += 1
                iv = float(ref[(oi, gi)][ti])
                ctx.traces += 1
                sc = entry_scale(w, o, g, ti)
                if not core.close(m, iv, scale=sc, rtol=1e-11):
                    ctx.disagreements_checked += 1
                    triage_ref_disagreement(ctx, w, uni, o, g, ti, m, iv)
    # ---- branch counters ----
    for o in outs:
        ctx.count("out." + o[0])
        if any(":" in x for x in out_labels(o)):
            ctx.count("out.link_selector")
        if o[0] == "agg":
            ctx.count(("method.explicit." + oa) if oa else ("method.default." + ("average" if ucode(w.raw(o[2][0])[0]) in DIMLESS else "sum")))
    for g in pops:
        ctx.count("pop.total" if g[1] == "Total" else "pop." + g[0])
        if g[0] == "agg":
            for o in outs:
                ctx.count(("method.explicit." + pa) if pa else ("method.default." + ("average" if out_units_code(w, o) in DIMLESS else "sum")))
    classes = {out_units_code(w, o) in DIMLESS for o in outs}
    mixed = len(classes) > 1
    if mixed:
        ctx.count("units.mixed_in_call")
    # ---- direct oracles on the reference series ----
    oracle_adds_up(ctx, w, uni, ref)
    # ---- every ordered non-empty subset of the outputs x several pop lists ----
    out_lists = [list(c) for k in range(1, len(outs) + 1) for c in itertools.permutations(range(len(outs)), k)]
    pop_lists = [list(range(len(pops)))]
    if len(pops) > 1:
        pop_lists.append(list(reversed(range(len(pops)))))
        pop_lists += [[i] for i in range(len(pops))]
        if len(pops) > 2:
            pop_lists.append(rng.sample(range(len(pops)), 2))
    calls = [(ol, pl) for ol in out_lists for pl in pop_lists]
    if len(calls) > max_calls:
        full = [c for c in calls if len(c[0]) == len(outs)]
        rest = [c for c in calls if len(c[0]) != len(outs)]
        rng.shuffle(rest)
        calls = (full + rest)[:max_calls]
    reported = set()
    for ol, pl in calls:
        co = [outs[i] for i in ol]
        cp = [pops[i] for i in pl]
        call_seed = rng.getrandbits(48)
        style = random.Random(call_seed)
        multi = style.random() < 0.1
        try:
            d = run_plotdata(w, co, cp, oa, pa, style=style, results=[w.result, w.second_result()] if multi else None)
            if multi:
                ctx.count("call.multi_result")
        except Exception as ex:
            key = {"api": "PlotData.__init__", "defect": "raises", "exc": type(ex).__name__}
            ctx.violation(key, f"PlotData raised {type(ex).__name__}: {ex} for a request whose parts succeed alone", {"kind": "plotdata", "universe": uni, "outs": ol, "pops": pl, "call_seed": call_seed})
            continue
        has_agg = any(o[0] == "agg" for o in co) or any(g[0] == "agg" for g in cp)
        mixed_call = len({out_units_code(w, o) in DIMLESS for o in co}) > 1
        ctx.case({"demo": w.name, "oa": oa, "pa": pa, "outs": [out_arg(o) for o in co], "pops": [pop_arg(g) for g in cp]}, nontrivial=has_agg or mixed_call,
                 sample={"demo": w.name, "outs": [out_arg(o) for o in co], "pops": [pop_arg(g) for g in cp], "oa": oa, "pa": pa})
        for oi in ol:
            for gi in pl:
                try:
                    s = series_of(d, pops[gi], outs[oi], result=w.result.name)
                except AssertionError:
                    ctx.violation({"api": "PlotData.__init__", "defect": "requested_series_missing_or_duplicated"},
                                  f"{w.name}: the call outputs={[out_name(o) for o in co]} pops={[pop_name(g) for g in cp]} does not contain exactly one series for ({out_name(outs[oi])}, {pop_name(pops[gi])})",
                                  {"kind": "plotdata", "universe": uni, "outs": ol, "pops": pl, "call_seed": call_seed})
                    continue
                ctx.traces += 1
                if multi and not same(series_of(d, pops[gi], outs[oi], result="alt").vals, s.vals):
                    ctx.violation({"api": "PlotData.__init__", "defect": "value_depends_on_result_position"}, f"{w.name}: the same simulation under two names reports different series for ({out_name(outs[oi])}, {pop_name(pops[gi])})",
                                  {"kind": "plotdata", "universe": uni, "outs": ol, "pops": pl, "entry": [oi, gi], "call_seed": call_seed})
                if same(s.vals, ref[(oi, gi)]):
                    continue
                ctx.disagreements_checked += 1
                which = carried(w, uni, co, cp, outs[oi], pops[gi])
                defect = "default_aggregation_carried_over" if which else "value_depends_on_other_requests"
                key = {"api": "PlotData.__init__", "defect": defect, "which": "+".join(which) if which else "unexplained"}
                sig = (defect, key["which"], oi, gi)
                if sig in reported:
                    continue
                reported.add(sig)
                # does the code-shaped model reproduce the implementation's value? (classification only)
                ti = int(np.nanargmax(np.abs(np.nan_to_num(s.vals) - np.nan_to_num(ref[(oi, gi)]))))
                cur = parse_vals(core.drive(model_lines(w, uni, [ti], cur=True, outs=co, pops=cp))[0])
                pos = pl.index(gi) * len(ol) + ol.index(oi)
                explained = core.close(cur[pos], float(s.vals[ti]), scale=entry_scale(w, outs[oi], pops[gi], ti), rtol=1e-11)
                ctx.count("d8.reproduced_by_plotDataCurrent" if explained else "d8.not_reproduced_by_plotDataCurrent")
                script = (f"import atomica as at; r=at.demo('{w.name}',do_run=False); r=r.run_sim(r.parsets[0])\n"
                          f"a=at.PlotData(r,outputs={[out_arg(o) for o in co]!r},pops={[pop_arg(g) for g in cp]!r},output_aggregation={oa!r},pop_aggregation={pa!r})\n"
                          f"b=at.PlotData(r,outputs={[out_arg(outs[oi])]!r},pops={[pop_arg(pops[gi])]!r},output_aggregation={oa!r},pop_aggregation={pa!r})\n"
                          f"print(a[r.name,{pop_name(pops[gi])!r},{out_name(outs[oi])!r}].vals[{ti}], b[r.name,{pop_name(pops[gi])!r},{out_name(outs[oi])!r}].vals[{ti}])  # must be equal")
                ctx.violation(key, f"{w.name}: series ({out_name(outs[oi])}, {pop_name(pops[gi])}) = {s.vals[ti]!r} at t[{ti}] inside the call outputs={[out_name(o) for o in co]} pops={[pop_name(g) for g in cp]} "
                                   f"but {ref[(oi, gi)][ti]!r} when requested alone (oa={oa}, pa={pa}); carried default: {which or '-'}; code-shaped model plotDataCurrent {'reproduces' if explained else 'does NOT reproduce'} it",
                              {"kind": "plotdata", "universe": uni, "outs": ol, "pops": pl, "entry": [oi, gi], "ti": ti, "call_seed": call_seed, "script": script})
    # ---- interpolation and time aggregation on some of the reference requests ----
    check_resampling(ctx, w, uni, rng.getrandbits(48))
    check_resampling_multi(ctx, w, uni, rng.getrandbits(48))


def triage_ref_disagreement(ctx, w, uni, o, g, ti, m, iv):
    """implementation (request made alone) differs from the specification model at one time point: evaluate the property's own predicates"""
    oa, pa = uni["oa"], uni["pa"]
    script = (f"import atomica as at; r=at.demo('{w.name}',do_run=False); r=r.run_sim(r.parsets[0])\n"
              f"d=at.PlotData(r,outputs={[out_arg(o)]!r},pops={[pop_arg(g)]!r},output_aggregation={oa!r},pop_aggregation={pa!r})\n"
              f"print(d.series[0].vals[{ti}])  # specification: {None if m is None else float(m)!r}")
    replay = {"kind": "ref", "universe": uni, "out": o, "pop": g, "ti": ti, "model": None if m is None else q(m), "impl": iv, "script": script}
    pmethod = pa or ("average" if out_units_code(w, o) in DIMLESS else "sum")
    if g[0] == "agg" and pmethod == "weighted" and m is not None and m == 0 and math.isnan(iv):
        ctx.violation({"api": "PlotData.__init__", "defect": "weighted_pop_average_nan_where_numerator_zero"},
                      f"{w.name}: weighted population average of {out_name(o)} over {pop_members(g)} is NaN at t[{ti}] although every part is 0 and the population sizes are positive (an average must lie between the smallest and largest part: 0)", replay)
        return
    ctx.violation({"api": "PlotData.__init__", "defect": "value_differs_from_specification", "out": o[0], "pop": g[0], "oa": mstr(oa), "pa": mstr(pa)},
                  f"{w.name}: ({out_name(o)}, {pop_name(g)}) requested alone reports {iv!r} at t[{ti}], specification {None if m is None else float(m)!r}", replay)


def oracle_adds_up(ctx, w, uni, ref):
    """sum of parts / average between / total = sum over pops, evaluated directly on implementation series"""
    outs, pops, oa, pa = uni["outs"], uni["pops"], uni["oa"], uni["pa"]
    import atomica as at

    for gi, g in enumerate(pops):
        for oi, o in enumerate(outs):
            v = ref[(oi, gi)]
            # population aggregation: parts are the same output in each member population
            if g[0] == "agg":
                parts = []
                for p in g[2]:
                    d = run_plotdata(w, [o], [("single", p)], oa, pa)
                    parts.append(d.series[0].vals.copy())
                parts = np.array(parts)
                method = pa or ("average" if out_units_code(w, o) in DIMLESS else "sum")
                check_parts(ctx, w, uni, o, g, v, parts, method, np.array([w.popsize[p] for p in g[2]]), "pop")
            elif o[0] == "agg":
                parts = []
                for x in o[2]:
                    d = run_plotdata(w, [("plain", x)], [g], oa, pa)
                    parts.append(d.series[0].vals.copy())
                parts = np.array(parts)
                method = oa or ("average" if ucode(w.raw(o[2][0])[0]) in DIMLESS else "sum")
                wts = np.array([w.raw(x)[2][g[1]][1] if w.raw(x)[2][g[1]][1] is not None else np.zeros(w.T) for x in o[2]])
                check_parts(ctx, w, uni, o, g, v, parts, method, wts, "output")


def check_parts(ctx, w, uni, o, g, v, parts, method, wts, level):
    ctx.hyp_checked += 1
    finite = np.all(np.isfinite(parts), axis=0)
    tol = 1e-11 * np.maximum(1e-300, np.sum(np.abs(np.nan_to_num(parts)), axis=0))
    bad = None
    if method == "sum":
        ctx.hyp_held += 1
        tot = np.sum(parts, axis=0)
        m = finite & ~(np.abs(v - tot) <= tol)
        if np.any(m):
            bad = ("sum_of_parts", int(np.argmax(m)))
    else:
        wsum = np.sum(wts, axis=0)
        ok_hyp = finite & ((wsum > 0) if method == "weighted" else True) & ((np.min(wts, axis=0) >= 0) if method == "weighted" else True)
        if np.all(ok_hyp):
            ctx.hyp_held += 1
        lo, hi = np.min(parts, axis=0), np.max(parts, axis=0)
        with np.errstate(invalid="ignore"):
            m = ok_hyp & ~((v >= lo - tol) & (v <= hi + tol))
        if np.any(m):
            bad = ("average_between", int(np.argmax(m)))
    if bad is None:
        return
    ti = bad[1]
    if level == "pop" and method == "weighted" and math.isnan(v[ti]) and np.all(parts[:, ti] == 0):
        key = {"api": "PlotData.__init__", "defect": "weighted_pop_average_nan_where_numerator_zero"}
    else:
        key = {"api": "PlotData.__init__", "defect": bad[0] + "_fails", "level": level, "method": method}
    script = (f"import atomica as at; r=at.demo('{w.name}',do_run=False); r=r.run_sim(r.parsets[0])\n"
              f"d=at.PlotData(r,outputs={[out_arg(o)]!r},pops={[pop_arg(g)]!r},output_aggregation={uni['oa']!r},pop_aggregation={uni['pa']!r})\n"
              f"print(d.series[0].vals[{ti}])  # parts at that time: {parts[:, ti].tolist()!r} method={method}")
    ctx.violation(key, f"{w.name}: {level} aggregate ({out_name(o)}, {pop_name(g)}) method={method} reports {v[ti]!r} at t[{ti}] but its parts are {parts[:, ti].tolist()!r} (weights {wts[:, ti].tolist()!r})",
                  {"kind": "ref", "universe": uni, "out": o, "pop": g, "ti": ti, "script": script})


# ----------------------------------------------------------------------------------------------
# Part 2: interpolation and time aggregation
# ----------------------------------------------------------------------------------------------
def pts_tokens(tvec, vals):
    tk = [str(len(tvec))]
    for t, v in zip(tvec, vals):
        tk += [q(t), q(v)]
    return tk


def check_resampling(ctx, w, uni, rs_seed):
    rng = random.Random(rs_seed)
    outs, pops, oa, pa = uni["outs"], uni["pops"], uni["oa"], uni["pa"]
    o = rng.choice(outs)
    g = rng.choice(pops)
    t0, t1 = float(w.t[0]), float(w.t[-1])
    # ---- interpolate ----
    d = run_plotdata(w, [o], [g], oa, pa)
    s = d.series[0]
    base_t, base_v = s.tvec.copy(), s.vals.copy()
    if np.all(np.isfinite(base_v)):
        new_t = []
        for _ in range(rng.randint(1, 6)):
            r = rng.random()
            if r < 0.5:
                new_t.append(t0 + rng.random() * (t1 - t0))
                ctx.count("interp.inside")
            elif r < 0.75:
                new_t.append(float(rng.choice(list(w.t))))
                ctx.count("interp.gridpoint")
            elif r < 0.85:
                new_t.append(rng.choice([t0, t1]))
                ctx.count("interp.gridpoint")
            else:
                new_t.append(rng.choice([t0 - rng.random() - 1e-9, t1 + rng.random() + 1e-9]))
                ctx.count("interp.outside_nan")
        new_t = sorted(new_t) if rng.random() < 0.7 else new_t
        with np.errstate(all="ignore"):
            d.interpolate(np.array(new_t))
        rep = core.drive([" ".join(["agg", "interp"] + pts_tokens(base_t, base_v) + [str(len(new_t))] + [q(x) for x in new_t])])[0]
        mv = parse_vals(rep)
        sc = float(np.max(np.abs(base_v)))
        for x, m, iv in zip(new_t, mv, d.series[0].vals):
            ctx.traces += 1
            if not core.close(m, float(iv), scale=sc, rtol=1e-11):
                ctx.disagreements_checked += 1
                ctx.violation({"api": "PlotData.interpolate", "defect": "value_differs_from_linear_interpolation"},
                              f"{w.name}: interpolate({x!r}) of ({out_name(o)}, {pop_name(g)}) = {iv!r}, linear interpolation (NaN outside) = {None if m is None else float(m)!r}",
                              {"kind": "resample", "universe": uni, "rs_seed": rs_seed})
        if not np.array_equal(d.series[0].tvec, np.array(new_t)):
            ctx.violation({"api": "PlotData.interpolate", "defect": "tvec_not_replaced"}, f"{w.name}: interpolate did not set tvec", {"kind": "resample", "universe": uni, "rs_seed": rs_seed})
    # ---- time aggregation ----
    d = run_plotdata(w, [o], [g], oa, pa)
    s = d.series[0]
    if not np.all(np.isfinite(s.vals)) or w.T < 3:
        return
    units_before = s.units
    if rng.random() < 0.3:
        # Series.timescale is a public attribute (flows per day/month...): exercise timescales other than 1 year
        s.timescale = rng.choice([0.5, 1 / 12, 2.0, 1 / 365])
        ctx.count("tagg.timescale_not_1")
    tscale = s.timescale
    scale = float(tscale) if (tscale is not None and not (isinstance(tscale, float) and math.isnan(tscale))) else 1.0
    r = rng.random()
    if r < 0.2:
        bins_arg = "all"
        edges = np.array([t0, t1])
        ctx.count("tagg.all")
    elif r < 0.45:
        width = rng.choice([1, 2, 5, 0.5, 3, 10, 2.5])
        bins_arg = width
        if width > (t1 - t0):
            edges = np.array([t0, t1])
        else:
            upper = t1 + width if not (t1 - t0) % width else t1
            edges = np.arange(t0, upper, width)
        ctx.count("tagg.scalar_bins")
    else:
        nb = rng.randint(1, 5)
        lo_ = t0 - (1.0 if rng.random() < 0.1 else 0.0)
        hi_ = t1 + (1.0 if rng.random() < 0.1 else 0.0)
        cut = sorted({round(lo_ + rng.random() * (hi_ - lo_), rng.choice([0, 1, 2, 6])) for _ in range(nb + 1)} | ({float(rng.choice(list(w.t)))} if rng.random() < 0.5 else set()))
        cut = [c for c in cut if lo_ <= c <= hi_]
        if len(cut) < 2:
            cut = [t0, t1]
        edges = np.array(cut, dtype=float)
        bins_arg = list(edges)
    if len(edges) < 2:
        return
    method = rng.choice([None, "integrate", "average"])
    ctx.count("tagg." + (method or "default"))
    with np.errstate(all="ignore"):
        d.time_aggregate(bins_arg, method)
    out_v = d.series[0].vals
    rep = core.drive([" ".join(["agg", "tagg", mstr(method), str(ucode(units_before)), q(scale)] + pts_tokens(base_t, base_v) + [str(len(edges))] + [q(x) for x in edges])])[0]
    if rep.startswith("err"):
        ctx.brk("correspondence", f"driver: {rep}", universe=uni)
        return
    toks = rep.split()
    if len(out_v) != len(edges) - 1:
        ctx.violation({"api": "PlotData.time_aggregate", "defect": "bin_count"}, f"{w.name}: {len(out_v)} values for {len(edges) - 1} bins (t_bins={bins_arg!r})", {"kind": "resample", "universe": uni, "rs_seed": rs_seed})
        return
    max_step = 0.5 * float(np.min(np.diff(base_t)))
    vscale = float(np.max(np.abs(base_v))) / scale
    for b in range(len(edges) - 1):
        n_model = int(toks[2 * b])
        m = unq(toks[2 * b + 1])
        l, u = float(edges[b]), float(edges[b + 1])
        n_impl = int(np.ceil((u - l) / max_step) + 1)
        ctx.traces += 1
        if n_model != n_impl:
            ctx.ambiguous += 1
            continue
        is_avg = (method == "average") or (method is None and ucode(units_before) in TIME_AVG)
        sc = vscale * ((u - l) if not is_avg else scale)
        if not core.close(m, float(out_v[b]), scale=max(sc, 1e-300), rtol=1e-9):
            ctx.disagreements_checked += 1
            ctx.violation({"api": "PlotData.time_aggregate", "defect": "value_differs_from_trapezoid", "method": mstr(method)},
                          f"{w.name}: time_aggregate bin [{l},{u}] of ({out_name(o)}, {pop_name(g)}) units={units_before!r} timescale={tscale!r} method={method} = {out_v[b]!r}, model = {None if m is None else float(m)!r}",
                          {"kind": "resample", "universe": uni, "rs_seed": rs_seed})
    # ---- additivity: time aggregate (integrate) of a summed aggregate = sum of the parts' time aggregates ----
    if o[0] == "agg" and (oa or ("average" if ucode(w.raw(o[2][0])[0]) in DIMLESS else "sum")) == "sum" and g[0] == "single":
        with np.errstate(all="ignore"):
            whole = run_plotdata(w, [o], [g], oa, pa).time_aggregate(list(edges), "integrate").series[0].vals
            parts = [run_plotdata(w, [("plain", x)], [g], oa, pa).time_aggregate(list(edges), "integrate").series[0].vals for x in o[2]]
        tot = np.sum(parts, axis=0)
        fin = np.isfinite(tot) & np.isfinite(whole)
        ctx.hyp_checked += 1
        ctx.hyp_held += 1
        if not np.array_equal(np.isnan(tot), np.isnan(whole)) or np.any(np.abs(whole[fin] - tot[fin]) > 1e-9 * np.maximum(1e-300, np.sum(np.abs(np.array(parts)), axis=0)[fin])):
            ctx.violation({"api": "PlotData.time_aggregate", "defect": "not_additive"}, f"{w.name}: time aggregate of the sum {o[2]} = {whole.tolist()} but sum of time aggregates = {tot.tolist()}",
                          {"kind": "resample", "universe": uni, "rs_seed": rs_seed})


# ----------------------------------------------------------------------------------------------
# Part 3: cascades
# ----------------------------------------------------------------------------------------------

def check_resampling_multi(ctx, w, uni, rs_seed):
    """time aggregation of SEVERAL outputs in one call, with differing Series.timescale (some without a timescale):
    every series must equal the one obtained when that output is requested (and aggregated) on its own."""
    rng = random.Random(rs_seed ^ 0x5EED)
    outs, pops, oa, pa = uni["outs"], uni["pops"], uni["oa"], uni["pa"]
    if len(outs) < 2 or w.T < 3:
        return
    sel = rng.sample(outs, rng.randint(2, min(3, len(outs))))
    g = rng.choice(pops)
    t0, t1 = float(w.t[0]), float(w.t[-1])
    nb = rng.randint(1, 3)
    edges = sorted({round(t0 + rng.random() * (t1 - t0), 2) for _ in range(nb + 1)} | {t0})
    if len(edges) < 2:
        edges = [t0, t1]
    method = rng.choice(["integrate", "average", None])
    # timescales: at least one numeric one followed by one without a timescale (the order matters for carried-over state)
    tss = [rng.choice([1 / 12, 1 / 52, 0.5, 2.0]) if rng.random() < 0.6 else float("nan") for _ in sel]
    if all(not math.isnan(x) for x in tss):
        tss[-1] = float("nan")
    if all(math.isnan(x) for x in tss):
        tss[0] = 1 / 12
    d = run_plotdata(w, sel, [g], oa, pa)
    order = [series_of(d, g, o) for o in sel]
    if not all(np.all(np.isfinite(sr.vals)) for sr in order):
        return
    for sr, ts in zip(order, tss):
        sr.timescale = ts
    with np.errstate(all="ignore"):
        d.time_aggregate(list(edges), method)
    ctx.count("tagg.multi_series")
    for o, ts in zip(sel, tss):
        d1 = run_plotdata(w, [o], [g], oa, pa)
        d1.series[0].timescale = ts
        with np.errstate(all="ignore"):
            d1.time_aggregate(list(edges), method)
        a, b = series_of(d, g, o).vals, d1.series[0].vals
        ctx.traces += 1
        if not same(np.asarray(a, dtype=float), np.asarray(b, dtype=float)):
            ctx.violation({"api": "PlotData.time_aggregate", "defect": "depends_on_other_outputs"},
                          f"{w.name}: time aggregate of ({out_name(o)}, {pop_name(g)}) timescale={ts!r} method={method} onto {edges} = {np.asarray(a).tolist()} when requested with {[out_name(x) for x in sel]} (timescales {tss}) but {np.asarray(b).tolist()} when requested alone",
                          {"kind": "resample_multi", "universe": uni, "rs_seed": rs_seed})
            return

def expand_constituent(fw, name):
    """compartments of a constituent, by the framework's 'components' column (independent of get_charac_includes)"""
    if name in fw.characs.index:
        out = []
        for x in str(fw.characs.at[name, "components"]).split(","):
            out += expand_constituent(fw, x.strip())
        return out
    return [name]


def has_denominator(fw, name):
    if name not in fw.characs.index:
        return False
    den = fw.characs.at[name, "denominator"] if "denominator" in fw.characs.columns else None
    return isinstance(den, str) and den.strip() != ""


_LATER_BREAKS: list = []


def gen_cascades(w, rng, n_adhoc):
    fw = w.P.framework
    cs = []
    for i, name in enumerate(fw.cascades.keys()):
        df = fw.cascades[name]
        stages = [(row.iloc[0], [x.strip() for x in row.iloc[1].split(",")]) for _, row in df.iterrows()]
        cs.append({"kind": "framework", "arg": rng.choice([name, i] + ([None] if i == 0 else [])), "stages": stages})
    from atomica.model import SourceCompartment, SinkCompartment, JunctionCompartment

    p0 = w.result.model.pops[0]
    plain = [c.name for c in p0.comps if not isinstance(c, (SourceCompartment, SinkCompartment, JunctionCompartment))]
    characs = [c for c in w.charac_names if not has_denominator(fw, c)]
    fracs = [c for c in w.charac_names if has_denominator(fw, c)]
    for _ in range(n_adhoc):
        r = rng.random()
        if fracs and rng.random() < 0.1:
            # a characteristic with a denominator (a proportion) heading a cascade of numbers
            ch = rng.choice(fracs)
            ex = expand_constituent(fw, ch)
            cs.append({"kind": "adhoc_dict", "arg": {"prop": [ch], "part": [rng.choice(ex)]}, "stages": [("prop", [ch]), ("part", [rng.choice(ex)])]})
            cs[-1]["arg"]["part"] = cs[-1]["stages"][1][1]
            continue
        if len(w.data_labels) >= 2 and rng.random() < 0.2:
            # constituents with databook entries, the first one recurring in later stages (boundary for the in-place += of get_cascade_data)
            labs = rng.sample(w.data_labels, min(len(w.data_labels), rng.choice([2, 3])))
            stages = [("s0", list(labs)), ("s1", [labs[0]] + labs[2:])] + ([("s2", [labs[0]])] if len(labs) > 2 else [])
            cs.append({"kind": "adhoc_dict", "arg": {nm: cons for nm, cons in stages}, "stages": stages})
            continue
        if len(plain) >= 3 and rng.random() < 0.2:
            # three stages, the third inside the first but NOT inside the second: must be rejected (nesting is between consecutive stages)
            base = rng.sample(plain, rng.randint(3, min(6, len(plain))))
            a = rng.sample(base, rng.randint(1, len(base) - 1))
            rest = [x for x in base if x not in a]
            b = [rng.choice(rest)] + (rng.sample(a, rng.randint(0, len(a) - 1)) if len(a) > 1 else [])
            stages = [("stage0", list(base)), ("stage1", a), ("stage2", b)]
            _LATER_BREAKS.append(1)
            cs.append({"kind": "adhoc_dict", "arg": {nm: cons for nm, cons in stages}, "stages": stages})
            continue
        if r < 0.3 and len(characs) >= 2:
            # ad hoc list of characteristic / compartment names, ordered by inclusion where possible
            names = rng.sample(characs + plain, rng.randint(1, 3))
            names.sort(key=lambda x: -len(set(expand_constituent(fw, x))))
            stages = [(str(fw.get_variable(x)[0]["display name"]), [x]) for x in names]
            cs.append({"kind": "adhoc_list", "arg": names, "stages": stages})
            continue
        # nested chain of compartment subsets, some constituents replaced by a characteristic with the same expansion
        base = rng.sample(plain, rng.randint(1, min(6, len(plain))))
        stages = []
        cur = list(base)
        for k in range(rng.randint(1, 4)):
            cons = list(cur)
            rng.shuffle(cons)
            if rng.random() < 0.3:
                for ch in characs:
                    ex = expand_constituent(fw, ch)
                    if len(set(ex)) == len(ex) and set(ex) <= set(cons) and len(ex) > 0:
                        cons = [x for x in cons if x not in ex] + [ch]
                        break
            stages.append((f"stage{k}", cons))
            if len(cur) > 1 and rng.random() < 0.8:
                cur = rng.sample(cur, rng.randint(1, len(cur) - 1)) if rng.random() < 0.8 else list(cur)
        rr = rng.random()
        if rr < 0.25 and stages:
            # a repeated constituent somewhere after the first stage, or in a single-stage / first stage (D17 region)
            k = rng.randrange(len(stages))
            nm, cons = stages[k]
            stages[k] = (nm, cons + [rng.choice(cons)])
        elif rr < 0.5 and len(stages) >= 3:
            # break the nesting between two LATER stages only: a compartment of the first stage that stage k-1 lacks, put into stage k
            k = rng.randrange(2, len(stages))
            have = set(expand_all(fw, stages[k - 1][1])) | set(expand_all(fw, stages[k][1]))
            cand = [x for x in expand_all(fw, stages[0][1]) if x not in have]
            if cand:
                nm, cons = stages[k]
                stages[k] = (nm, cons + [rng.choice(cand)])
                _LATER_BREAKS.append(1)
        elif rr < 0.6 and len(stages) >= 2:
            # break the nesting: a compartment in a later stage that the earlier stage lacks
            extra = [x for x in plain if x not in expand_all(fw, stages[0][1])]
            if extra:
                nm, cons = stages[-1]
                stages[-1] = (nm, cons + [rng.choice(extra)])
        cs.append({"kind": "adhoc_dict", "arg": {nm: cons for nm, cons in stages}, "stages": stages})
    return cs


def expand_all(fw, cons):
    out = []
    for c in cons:
        out += expand_constituent(fw, c)
    return out


def directed_cascades(w, rng):
    """two shapes every world gets (the random stream reaches them only now and then):
    (a) a stage that lists a characteristic together with one of its own compartments -- nothing is repeated literally, but a compartment is counted twice;
    (b) databook constituents, the first-listed of a multi-constituent stage heading a later stage too (its databook series must not have been summed into)."""
    fw = w.P.framework
    out = []
    characs = [c for c in w.charac_names if not has_denominator(fw, c)]
    cands = []
    for ch in characs:
        ex = expand_constituent(fw, ch)
        if len(ex) >= 2 and len(set(ex)) == len(ex):
            cands.append((ch, ex))
    if cands:
        ch, ex = rng.choice(cands)
        own = rng.choice(ex)
        stages = [("everyone", [ch]), ("twice", [ch, own] if rng.random() < 0.5 else [own, ch])]
        out.append({"kind": "adhoc_dict", "arg": {nm: cons for nm, cons in stages}, "stages": stages, "directed": "charac+own-compartment"})
    fracs = [c for c in w.charac_names if has_denominator(fw, c) and expand_constituent(fw, c)]
    if fracs:
        # (c) a fraction (a characteristic with a denominator) heading a cascade, written as a BARE STRING: cascade stages are numbers of people, however the stage is spelt
        ch = rng.choice(fracs)
        part = rng.choice(expand_constituent(fw, ch))
        out.append({"kind": "adhoc_dict", "arg": {"prop": ch, "part": [part]}, "stages": [("prop", [ch]), ("part", [part])], "directed": "fraction-stage-bare-string"})
    # databook constituents (numbers, not fractions) whose expansions are pairwise disjoint, so that the cascade is valid
    pool = [c for c in w.data_labels if not has_denominator(fw, c) and expand_constituent(fw, c)]
    rng.shuffle(pool)
    labs, seen = [], set()
    for c in pool:
        ex = set(expand_constituent(fw, c))
        if not (ex & seen) and len(ex) == len(expand_constituent(fw, c)):
            labs.append(c)
            seen |= ex
        if len(labs) == 3:
            break
    if len(labs) >= 2:
        stages = [("s0", list(labs)), ("s1", [labs[0]])]
        out.append({"kind": "adhoc_dict", "arg": {nm: cons for nm, cons in stages}, "stages": stages, "directed": "first-constituent-recurs"})
    return out


def check_cascades(ctx, w, n_adhoc):
    for cas in directed_cascades(w, ctx.rng) + gen_cascades(w, ctx.rng, n_adhoc):
        if cas.get("directed"):
            ctx.count("cascade.directed." + cas["directed"])
        check_one_cascade(ctx, w, cas, ctx.rng.getrandbits(48))


def check_one_cascade(ctx, w, cas, cs_seed):
    """one cascade; every random choice (population selection, years) derives from `cs_seed` so that a replay is exact"""
    import atomica as at
    from atomica.cascade import get_cascade_vals, get_cascade_data, InvalidCascade
    import sciris as sc

    rng = random.Random(cs_seed)
    fw = w.P.framework
    comp_idx = {c: i for i, c in enumerate(w.comp_names)}
    pidx = {p: i for i, p in enumerate(w.pops)}
    ctx.count("cascade." + cas["kind"])
    if _LATER_BREAKS:
        ctx.count("cascade.later_stage_nesting_break", len(_LATER_BREAKS))
        _LATER_BREAKS.clear()
    stages = cas["stages"]
    arg = cas["arg"] if not isinstance(cas["arg"], dict) else sc.odict(cas["arg"])
    if isinstance(cas["arg"], dict) and rng.random() < 0.35:
        # a single-constituent stage may be written as the bare name instead of a one-element list
        arg = sc.odict((k, (v[0] if isinstance(v, list) and len(v) == 1 else v)) for k, v in cas["arg"].items())
        if any(isinstance(v, str) for v in arg.values()):
            ctx.count("cascade.bare_string_stage")
    # population selection
    r = rng.random()
    if r < 0.4:
        pops_arg, members = rng.choice([None, "all", "total"]), list(w.pops)
    elif r < 0.7 or len(w.pops) == 1:
        p = rng.choice(w.pops)
        pops_arg, members = rng.choice([p, [p]]), [p]
    else:
        members = rng.sample(w.pops, rng.randint(2, len(w.pops)))
        pops_arg = rng.choice([list(members), {"sel": list(members)}])
    # expansion and model flags
    exp = [[expand_constituent(fw, c) for c in cons] for _, cons in stages]
    tis = list(range(w.T)) if w.T <= 24 else sorted(set([0, w.T - 1] + rng.sample(range(w.T), 10)))
    lines = []
    for ti in tis:
        tk = ["cascade", "vals", str(len(w.comp_names)), str(len(w.pops))]
        for p in w.pops:
            tk += [q(w.raw(c)[2][p][0][ti]) for c in w.comp_names]
        tk += [str(len(members))] + [str(pidx[p]) for p in members]
        tk.append(str(len(exp)))
        for st in exp:
            tk.append(str(len(st)))
            for con in st:
                tk += [str(len(con))] + [str(comp_idx[c]) for c in con]
        lines.append(" ".join(tk))
    reps = core.drive(lines)
    nested_m, nodup_m = reps[0].split()[0] == "1", reps[0].split()[1] == "1"
    key = {"demo": w.name, "cascade": cas["arg"] if not isinstance(cas["arg"], dict) else dict(cas["arg"]), "pops": pops_arg}
    replay = {"kind": "cascade", "demo": w.name, "cas": cas, "cs_seed": cs_seed, "pops": pops_arg}
    try:
        with np.errstate(all="ignore"):
            cv, tt = get_cascade_vals(w.result, arg, pops=pops_arg)
        accepted = True
    except InvalidCascade:
        accepted = False
    ctx.case(key, nontrivial=len(stages) >= 2, sample=key)
    ctx.hyp_checked += 1
    # the public validator called directly on the same cascade must give the same verdict as the evaluation did (a cascade is valid or it is not)
    if isinstance(arg, (dict, sc.odict)):
        try:
            at.cascade.validate_cascade(fw, arg)
            direct_ok = True
        except InvalidCascade:
            direct_ok = False
        except Exception as ex:
            direct_ok = f"{type(ex).__name__}: {str(ex)[:80]}"
        ctx.count("cascade.validated_directly")
        if direct_ok is not accepted:
            ctx.violation({"api": "validate_cascade", "defect": "verdict_differs_from_get_cascade_vals"},
                          f"{w.name}: validate_cascade({dict(arg)!r}) -> {'valid' if direct_ok is True else ('InvalidCascade' if direct_ok is False else direct_ok)}, but get_cascade_vals {'evaluates it' if accepted else 'refuses it as InvalidCascade'}", replay)
    has_den = any(has_denominator(fw, c) for _, cons in stages for c in cons)
    if not accepted:
        ctx.count("cascade.rejected")
        # specification of "valid": nested, no compartment counted twice in a stage, stages are numbers (no denominator);
        # the unchanged code only tests nesting -- rejecting more of the specification-invalid cascades is not a disagreement
        if nested_m and nodup_m and not has_den:
            ctx.brk("correspondence", f"{w.name}: validate_cascade rejected a cascade the model's nesting test accepts: {cas['arg']!r}", case=replay)
        return
    if not nodup_m:
        ctx.violation({"api": "validate_cascade", "defect": "duplicate_constituents_accepted"}, f"{w.name}: cascade {cas['arg']!r} accepted although a stage counts a compartment twice once its characteristics are expanded", replay)
        return
    if not nested_m:
        ctx.violation({"api": "validate_cascade", "defect": "accepts_non_nested"}, f"{w.name}: cascade {cas['arg']!r} accepted although a stage contains compartments its predecessor lacks", replay)
        return
    nonneg = all(np.min(w.raw(c)[2][p][0]) >= 0 for p in members for c in {x for st in exp for con in st for x in con})
    nodup_tail = all(len(set(sum(st, []))) == len(sum(st, [])) for st in exp[1:])
    if nonneg and nodup_tail and not has_den:
        ctx.hyp_held += 1
    vals = np.array([cv[nm] for nm, _ in stages])
    # correspondence: stage values at sampled times
    for ti, rep in zip(tis, reps):
        mv = parse_vals(" ".join(rep.split()[3:]))
        for k, m in enumerate(mv):
            ctx.traces += 1
            sc_ = sum(abs(w.raw(c)[2][p][0][ti]) for p in members for con in exp[k] for c in con)
            if not has_den and not core.close(m, float(vals[k][ti]), scale=sc_, rtol=1e-10):
                ctx.disagreements_checked += 1
                ctx.violation({"api": "get_cascade_vals", "defect": "stage_value_not_sum_of_constituents"},
                              f"{w.name}: stage {stages[k][0]!r} = {vals[k][ti]!r} at t[{ti}], sum of constituents over {members} = {float(m)!r}", dict(replay, ti=ti))
    # oracle: stage values never increase (at every time)
    tol = 1e-9 * np.maximum(1.0, np.abs(vals[0]))
    for k in range(len(stages) - 1):
        inc = vals[k + 1] > vals[k] + tol
        if np.any(inc):
            ti = int(np.argmax(inc))
            dup = len(set(sum(exp[k + 1], []))) != len(sum(exp[k + 1], []))
            if dup:
                kk = {"api": "validate_cascade", "defect": "duplicate_constituents_accepted"}
            elif has_den:
                kk = {"api": "validate_cascade", "defect": "fraction_characteristic_accepted"}
            else:
                kk = {"api": "get_cascade_vals", "defect": "stage_values_increase"}
            script = (f"import atomica as at; P=at.demo('{w.name}',do_run=False); r=P.run_sim(P.parsets[0])\n"
                      f"v,t=at.cascade.get_cascade_vals(r,{cas['arg']!r},pops={pops_arg!r})\n"
                      f"print([x[{ti}] for x in v.values()])  # accepted as valid, but stage {k + 2} > stage {k + 1}")
            ctx.violation(kk, f"{w.name}: cascade {cas['arg']!r} passes validate_cascade but stage {stages[k + 1][0]!r} = {vals[k + 1][ti]!r} > stage {stages[k][0]!r} = {vals[k][ti]!r} at t = {tt[ti]}"
                              + (" (a compartment is counted twice after expansion)" if dup else ""), dict(replay, ti=ti, script=script))
            break
    # years: values at requested years are the linear interpolation of the full series
    if rng.random() < 0.6:
        ctx.count("cascade.year")
        years = [float(rng.choice(list(w.t))) if rng.random() < 0.5 else float(w.t[0] + rng.random() * (w.t[-1] - w.t[0])) for _ in range(rng.randint(1, 3))]
        yarg = years[0] if len(years) == 1 and rng.random() < 0.5 else years
        with np.errstate(all="ignore"):
            cv2, t2 = get_cascade_vals(w.result, arg, pops=pops_arg, year=yarg)
        for k, (nm, _) in enumerate(stages):
            if not np.all(np.isfinite(vals[k])):
                continue
            rep = core.drive([" ".join(["agg", "interp"] + pts_tokens(w.t, vals[k]) + [str(len(years))] + [q(y) for y in years])])[0]
            for y, m, iv in zip(years, parse_vals(rep), cv2[nm]):
                ctx.traces += 1
                if not core.close(m, float(iv), scale=float(np.max(np.abs(vals[k]))), rtol=1e-11):
                    ctx.violation({"api": "get_cascade_vals", "defect": "year_value_not_interpolated"}, f"{w.name}: stage {nm!r} at year {y} = {iv!r}, interpolation of the series = {None if m is None else float(m)!r}", dict(replay, year=years))
    # ---- cascade values from data ----
    check_cascade_data(ctx, w, cas, arg, pops_arg, members, rng, cs_seed)


def check_cascade_data(ctx, w, cas, arg, pops_arg, members, rng, cs_seed):
    from atomica.cascade import get_cascade_data
    import sciris as sc

    data = w.P.data
    hole = None
    if cas.get("directed") == "first-constituent-recurs" and len(members) >= 2:
        # directed: the FIRST of the requested populations has no databook entry for a constituent in some year while the later ones do -- the stage has no value there (NaN), never the sum over the others
        data = sc.dcp(w.P.data)
        lab = cas["stages"][0][1][0]
        ts0 = data.get_ts(lab, members[0])
        if ts0 is not None and len(ts0.t) >= 1:
            hole = float(ts0.t[len(ts0.t) // 2])
            if cs_seed % 2:
                ts0.remove(hole)                      # one year missing
            else:
                for t_ in list(ts0.t):                # no entry at all in the leading population
                    ts0.remove(t_)
            ctx.count("cascade.data.hole_in_leading_population")
    fw = w.P.framework
    stages = cas["stages"]
    if isinstance(pops_arg, dict):
        pops_d = dict(pops_arg)
    else:
        pops_d = pops_arg
    cons_all = []
    for _, cons in stages:
        for c in cons:
            if c not in cons_all:
                cons_all.append(c)
    # databook entries
    tss = {(c, p): data.get_ts(c, p) for c in cons_all for p in members}
    if rng.random() < 0.5 and hole is None:
        years = None
        tt = np.array(data.tvec, dtype=float)
    else:
        pool = sorted({float(x) for ts in tss.values() if ts is not None for x in ts.t}) or [float(data.tvec[0])]
        years = sorted({rng.choice(pool) if rng.random() < 0.7 else float(rng.choice(list(data.tvec))) + rng.choice([0.0, 0.5]) for _ in range(rng.randint(1, 3))})
        if rng.random() < 0.4:
            years = sorted(set(years) | {float(rng.choice(pool)) + rng.choice([0.01, -0.01, 0.004])})   # close to a data year but not equal to it: there is no entry for that time
            ctx.count("cascade.data.near_year")
        if hole is not None:
            years = sorted(set(years) | {hole})
        if len(years) > 1 and rng.random() < 0.4:
            # the requested years in another order than ascending (legal: each requested year is looked up on its own); seeded change R6-c20-2
            # (np.searchsorted over the requested years) was missed while the list was always sorted
            years = years[::-1] if len(years) == 2 or rng.random() < 0.5 else years[1:] + years[:1]
            ctx.count("cascade.data.unsorted_years")
        tt = np.array(years)
    snap = {k: (None if ts is None else (list(ts.t), list(ts.vals))) for k, ts in tss.items()}
    try:
        with np.errstate(all="ignore"):
            cd, t_out = get_cascade_data(data, fw, arg, pops=pops_d, year=(years if years is None or len(years) > 1 or rng.random() < 0.5 else years[0]))
    except Exception as ex:
        from atomica.cascade import InvalidCascade
        if isinstance(ex, InvalidCascade):
            return
        ctx.violation({"api": "get_cascade_data", "defect": "raises", "exc": type(ex).__name__}, f"{w.name}: get_cascade_data raised {type(ex).__name__}: {ex}", {"kind": "cascade", "demo": w.name, "cas": cas, "cs_seed": cs_seed, "pops": pops_arg})
        return
    ctx.count("cascade.data")
    for k, ts in tss.items():
        if snap[k] != (None if ts is None else (list(ts.t), list(ts.vals))):
            ctx.violation({"api": "get_cascade_data", "defect": "modifies_databook"}, f"{w.name}: get_cascade_data modified the databook series {k}", {"kind": "cascade", "demo": w.name, "cas": cas, "cs_seed": cs_seed, "pops": pops_arg})
    cidx = {c: i for i, c in enumerate(cons_all)}
    impl = np.array([np.array(cd[nm], dtype=float) for nm, _ in stages])
    if len(tt) > 1:
        # order oracle: every requested year is looked up on its own, so the same years asked for in descending order give the same value per year
        # (seeded change R6-c20-2 -- np.searchsorted over the requested years -- returned NaN for every year of an unsorted request)
        ctx.count("cascade.data.order_probe")
        rev = [float(x) for x in tt][::-1]
        try:
            with np.errstate(all="ignore"):
                cd2, t2 = get_cascade_data(data, fw, arg, pops=pops_d, year=rev)
            impl2 = np.array([np.array(cd2[nm], dtype=float) for nm, _ in stages])[:, ::-1]
            same = impl2.shape == impl.shape and bool(np.all((impl2 == impl) | (np.isnan(impl2) & np.isnan(impl))))
            why = None if same else "values differ"
        except Exception as ex:
            same, why = False, f"raised {type(ex).__name__}: {str(ex)[:120]}"
        ctx.traces += 1
        if not same:
            script = (f"import atomica as at; P=at.demo('{w.name}',do_run=False)\n"
                      f"a,_=at.cascade.get_cascade_data(P.data,P.framework,{cas['arg']!r},pops={pops_arg!r},year={[float(x) for x in tt]!r})\n"
                      f"b,_=at.cascade.get_cascade_data(P.data,P.framework,{cas['arg']!r},pops={pops_arg!r},year={rev!r})\n"
                      f"print({{k:(a[k], b[k][::-1]) for k in a}})  # the two should be equal")
            ctx.violation({"api": "get_cascade_data", "defect": "depends_on_order_of_requested_years"},
                          f"{w.name}: cascade {cas['arg']!r} pops={pops_arg!r}: the data values for the years {[float(x) for x in tt]!r} change when the same years are requested in descending order ({why})",
                          {"kind": "cascade", "demo": w.name, "cas": cas, "cs_seed": cs_seed, "pops": pops_arg, "script": script})
    any_data = False
    first_bad = None
    lines = []
    entries = []
    for yi, y in enumerate(tt):
        entry = []
        for c in cons_all:
            es = []
            for p in members:
                ts = tss[(c, p)]
                v = None
                if ts is not None:
                    for tv, vv in zip(ts.t, ts.vals):
                        if tv == y:
                            v = vv
                            break
                es.append(v)
            tot = None if any(e is None for e in es) or not es else sum(Fraction(float(e)) for e in es if math.isfinite(float(e)))
            if any(e is not None and not math.isfinite(float(e)) for e in es):
                tot = None
            entry.append(tot)
        if any(e is not None for e in entry):
            any_data = True
        entries.append(entry)
        tk = ["cascade", "data", "0", str(len(entry))] + ["nan" if e is None else q(e) for e in entry] + [str(len(stages))]
        for _, cons in stages:
            tk += [str(len(cons))] + [str(cidx[c]) for c in cons]
        lines.append(" ".join(tk))
        lines.append(" ".join(tk[:2] + ["1"] + tk[3:]))
    reps = core.drive(lines)
    for yi, y in enumerate(tt):
        entry = entries[yi]
        mv, mc = parse_vals(reps[2 * yi]), parse_vals(reps[2 * yi + 1])
        for k, (nm, cons) in enumerate(stages):
            ctx.traces += 1
            sc_ = sum(abs(float(entry[cidx[c]])) for c in cons if entry[cidx[c]] is not None)
            if not core.close(mv[k], float(impl[k][yi]), scale=sc_, rtol=1e-12):
                ctx.disagreements_checked += 1
                if first_bad is None:
                    first_bad = (yi, k, mv[k], mc[k])
    if any_data:
        ctx.hyp_checked += 1
        heads_fresh = all(cons[0] not in cons[1:] and all(cons[0] not in later for _, later in stages[k + 1:]) for k, (_, cons) in enumerate(stages))
        if heads_fresh:
            ctx.hyp_held += 1
    if first_bad is not None:
        yi, k, m, mcur = first_bad
        explained = core.close(mcur, float(impl[k][yi]), scale=1.0, rtol=1e-12)
        ctx.count("d8b.reproduced_by_dataCurrent" if explained else "d8b.not_reproduced_by_dataCurrent")
        script = (f"import atomica as at; P=at.demo('{w.name}',do_run=False)\n"
                  f"v,t=at.cascade.get_cascade_data(P.data,P.framework,{cas['arg']!r},pops={pops_arg!r},year={years!r})\n"
                  f"print(t[{yi}], {{k:x[{yi}] for k,x in v.items()}})  # stage {stages[k][0]!r} should be the sum of the databook entries of {stages[k][1]!r}: {None if m is None else float(m)!r}")
        ctx.violation({"api": "get_cascade_data", "defect": "stage_array_aliased" if explained else "stage_value_not_sum_of_entries"},
                      f"{w.name}: cascade {cas['arg']!r} pops={pops_arg!r}: data value of stage {stages[k][0]!r} in {tt[yi]} = {impl[k][yi]!r} but the sum of the databook entries of its constituents {stages[k][1]!r} is {None if m is None else float(m)!r}"
                      + ("; reproduced by the code-shaped model (first constituent's array aliased and updated in place)" if explained else ""),
                      {"kind": "cascade", "demo": w.name, "cas": cas, "cs_seed": cs_seed, "pops": pops_arg, "script": script})


# ----------------------------------------------------------------------------------------------
# Part 4 (mode E): plotting / export never modifies the result
# ----------------------------------------------------------------------------------------------
def snapshot(result, data=None):
    snap = {}
    m = result.model
    snap[("t",)] = m.t.tobytes()
    for pop in m.pops:
        for kind, objs in (("comp", pop.comps), ("charac", pop.characs), ("par", pop.pars), ("link", pop.links)):
            for i, x in enumerate(objs):
                v = x.vals
                snap[(pop.name, kind, i, x.name)] = None if v is None else np.array(v).tobytes()
    if data is not None:
        for name, tdve in data.tdve.items():
            for k, ts in tdve.ts.items():
                snap[("data", name, k)] = (tuple(ts.t), tuple(ts.vals), ts.assumption)
    return snap


def modeE_ops(w, rng, tmpdir, res_prog):
    """a random sequence of (name, thunk) plotting / export operations on w.result"""
    import atomica as at
    import matplotlib.pyplot as plt

    P, r = w.P, w.result
    fw = P.framework

    def some_universe():
        return gen_universe(w, rng)

    def op_plotdata():
        u = some_universe()
        d = run_plotdata(w, u["outs"], u["pops"], u["oa"], u["pa"])
        for s in d.series:
            s.vals *= 2.0  # a caller may scale what PlotData gave them
            s.vals += 1.0
        return d

    def op_plot_series():
        u = some_universe()
        d = run_plotdata(w, u["outs"], u["pops"], u["oa"], u["pa"])
        at.plot_series(d, axis=rng.choice(["outputs", "pops", "results"]), plot_type=rng.choice(["line", "stacked", "proportion"]), data=rng.choice([None, P.data]))

    def op_plot_bars():
        u = some_universe()
        d = run_plotdata(w, u["outs"], u["pops"], u["oa"], u["pa"], t_bins=rng.choice(["all", 5, 2]))
        at.plot_bars(d, stack_outputs=rng.choice([None, "all"]), stack_pops=rng.choice([None, "all"]))

    def op_interp():
        u = some_universe()
        d = run_plotdata(w, u["outs"], u["pops"], u["oa"], u["pa"])
        d.interpolate(np.array([w.t[0], (w.t[0] + w.t[-1]) / 2]))
        for s in d.series:
            s.vals[:] = -1.0

    def op_tagg_accum():
        u = some_universe()
        d = run_plotdata(w, u["outs"], u["pops"], u["oa"], u["pa"], t_bins=rng.choice([1, 2, "all"]), accumulate=rng.choice([None, "integrate"]))
        for s in d.series:
            s.vals[:] = -1.0

    def op_accumulate():
        d = at.PlotData(r, outputs=w.comp_names[:2], pops=w.pops[:1])
        d.accumulate(rng.choice(["sum", "integrate"]))
        for s in d.series:
            s.vals[:] = -1.0

    def op_cascade_plot():
        at.plot_cascade(r, cascade=rng.choice([None, 0]), pops=rng.choice([None, "all", w.pops[0]]), year=float(rng.choice(list(w.t))), data=rng.choice([None, P.data]))

    def op_multi_cascade():
        at.plot_cascade(r, cascade=0, pops="all", year=[float(w.t[0]), float(w.t[-1])], data=P.data)

    def op_cascade_series():
        at.cascade.plot_single_cascade_series(r, cascade=0, pops=rng.choice(["all", w.pops[0]]), data=P.data)

    def op_cascade_vals():
        v, t = at.cascade.get_cascade_vals(r, rng.choice([None, 0]), pops=rng.choice([None, w.pops[0]]), year=rng.choice([None, float(w.t[1])]))
        for k in v.keys():
            v[k] *= 0.0

    def op_cascade_data():
        v, t = at.cascade.get_cascade_data(P.data, fw, 0, pops=rng.choice([None, w.pops[0]]))
        for k in v.keys():
            v[k] *= 0.0

    def op_cascade_summary():
        import io
        import contextlib
        with contextlib.redirect_stdout(io.StringIO()):
            at.cascade.cascade_summary(r, year=float(w.t[1]), pops="all", cascade=0)

    def op_export():
        rs = [r] if res_prog is None or rng.random() < 0.5 else [r, res_prog]
        at.export_results(rs, os.path.join(tmpdir, f"exp{rng.randrange(10**6)}.xlsx"))

    def op_export_raw():
        df = r.export_raw()
        df.iloc[:, :] = 0.0

    def op_result_plot():
        names = list(fw.sheets["plots"][0]["name"].dropna()) if "plots" in fw.sheets else []
        if names:
            r.plot(plot_name=rng.choice(names), project=rng.choice([None, P]))

    def op_programs():
        if res_prog is None:
            return
        d = at.PlotData.programs(res_prog, quantity=rng.choice(["spending", "coverage_number", "coverage_eligible", "coverage_fraction", "coverage_capacity"]), nan_outside=rng.random() < 0.5, t_bins=rng.choice([None, 5]))
        for s in d.series:
            s.vals[:] = -1.0

    def op_get_variable_copy():
        d = at.PlotData(r, outputs=[w.comp_names[0]], pops=[w.pops[0]])
        d.series[0].vals[:] = 12345.0
        d.series[0].tvec[:] = 0.0

    ops = [("PlotData+scale", op_plotdata), ("plot_series", op_plot_series), ("plot_bars", op_plot_bars), ("interpolate", op_interp), ("time_aggregate", op_tagg_accum), ("accumulate", op_accumulate),
           ("plot_cascade", op_cascade_plot), ("plot_multi_cascade", op_multi_cascade), ("cascade_series", op_cascade_series), ("get_cascade_vals", op_cascade_vals), ("get_cascade_data", op_cascade_data),
           ("cascade_summary", op_cascade_summary), ("export_raw", op_export_raw), ("Result.plot", op_result_plot), ("PlotData.programs", op_programs), ("series_overwrite", op_get_variable_copy)]
    seq = [rng.choice(ops) for _ in range(rng.randint(3, 7))]
    if rng.random() < 0.25:
        seq.insert(rng.randrange(len(seq) + 1), ("export_results", op_export))
    return seq


def check_modeE(ctx, w, n_seq, with_programs, seq_seeds=None):
    import atomica as at
    import matplotlib.pyplot as plt

    rng = ctx.rng if seq_seeds is None else random.Random(0)
    res_prog = None
    if with_programs and len(w.P.progsets) > 0:
        try:
            years = w.t
            res_prog = w.P.run_sim(w.P.parsets[0], progset=w.P.progsets[0], progset_instructions=at.ProgramInstructions(start_year=float(years[len(years) // 2])), result_name="prog")
        except Exception:
            res_prog = None
    with tempfile.TemporaryDirectory() as tmpdir:
        for si in range(n_seq):
            before = snapshot(w.result, w.P.data)
            before_p = snapshot(res_prog) if res_prog is not None else None
            seq_seed = rng.getrandbits(48) if seq_seeds is None else seq_seeds[si]
            seq = modeE_ops(w, random.Random(seq_seed), tmpdir, res_prog)
            names = []
            for name, thunk in seq:
                names.append(name)
                try:
                    with np.errstate(all="ignore"):
                        thunk()
                    ctx.count("modeE.op." + name)
                except Exception as ex:
                    ctx.count("modeE.op_error." + name + "." + type(ex).__name__)
                finally:
                    plt.close("all")
            ctx.count("modeE.sequence")
            after = snapshot(w.result, w.P.data)
            ctx.case({"demo": w.name, "modeE": names, "n": ctx.evaluations}, nontrivial=len(names) >= 3, sample={"demo": w.name, "ops": names})
            ctx.traces += 1
            changed = [k for k in before if before[k] != after.get(k)] + [k for k in after if k not in before]
            if res_prog is not None:
                after_p = snapshot(res_prog)
                changed += [("prog",) + k for k in before_p if before_p[k] != after_p.get(k)]
            if changed:
                ctx.violation({"api": "plotting/export", "defect": "modifies_result"},
                              f"{w.name}: after the calls {names} the result/databook arrays {changed[:4]} (of {len(changed)}) differ from the snapshot taken before",
                              {"kind": "modeE", "demo": w.name, "ops": names, "seq_seed": seq_seed, "with_programs": res_prog is not None, "changed": [list(map(str, k)) for k in changed[:10]]})


# ----------------------------------------------------------------------------------------------
# driver
# ----------------------------------------------------------------------------------------------
def check_defaults(ctx, w):
    """PlotData(result) with every argument defaulted: all ordinary compartments in all populations, each series = the compartment;
    pops='total' alone: each compartment's total = sum over populations"""
    import atomica as at
    from atomica.model import SourceCompartment, SinkCompartment, JunctionCompartment

    p0 = w.result.model.pops[0]
    expect = [c.name for c in p0.comps if not isinstance(c, (SourceCompartment, SinkCompartment, JunctionCompartment))]
    d = at.PlotData(w.result)
    got = {(s.pop, s.output): s.vals for s in d.series}
    ctx.case({"demo": w.name, "defaults": True}, nontrivial=True)
    ctx.count("call.all_defaults")
    if sorted(got) != sorted((p, c) for p in w.pops for c in expect):
        ctx.violation({"api": "PlotData.__init__", "defect": "default_outputs_or_pops"}, f"{w.name}: PlotData(result) has series {sorted(got)[:6]}..., expected every ordinary compartment in every population", {"kind": "defaults", "demo": w.name})
        return
    for (p, c), v in got.items():
        ctx.traces += 1
        if not np.array_equal(v, w.raw(c)[2][p][0], equal_nan=True):
            ctx.violation({"api": "PlotData.__init__", "defect": "plain_output_differs_from_variable"}, f"{w.name}: PlotData(result) series ({c}, {p}) differs from the compartment's values", {"kind": "defaults", "demo": w.name})
    with np.errstate(all="ignore"):
        dt = at.PlotData(w.result, pops="total")
    for s in dt.series:
        ctx.traces += 1
        tot = np.sum([w.raw(s.output)[2][p][0] for p in w.pops], axis=0)
        if not np.allclose(s.vals, tot, rtol=1e-12, atol=0):
            ctx.violation({"api": "PlotData.__init__", "defect": "total_number_is_not_sum"}, f"{w.name}: PlotData(result, pops='total') series {s.output} = {s.vals[0]!r}, sum over populations = {tot[0]!r}", {"kind": "defaults", "demo": w.name})


def check_multi_cascade_rows(ctx, w):
    """the multi-year cascade table reports one row per requested (result, year) -- also when two requested years fall in the same calendar year"""
    import atomica as at
    import matplotlib.pyplot as plt

    if w.name not in ("udt", "tb_simple", "hypertension_dyn", "diabetes"):
        return
    y0 = float(w.t[min(2, len(w.t) - 1)])
    years = [math.floor(y0) + 0.0, math.floor(y0) + 0.5] if math.floor(y0) + 0.5 <= float(w.t[-1]) else [float(w.t[0]), float(w.t[0]) + 0.5]
    try:
        fig, table = at.cascade.plot_multi_cascade(w.result, cascade=0, pops="all", year=years, show_table=False)
        plt.close("all")
    except Exception as ex:
        ctx.notes.append(f"multi-cascade rows probe on {w.name}: {type(ex).__name__}: {str(ex)[:120]}")
        return
    ctx.count("probe.multi_cascade_rows")
    ctx.case({"probe": "multi-cascade-rows", "demo": w.name}, nontrivial=True)
    rows = list(table["rowlabels"])
    if len(rows) != len(years) or len(set(rows)) != len(years) or len(table["text"]) != len(years):
        ctx.violation({"api": "plot_multi_cascade", "defect": "rows_collapse_within_calendar_year"},
                      f"{w.name}: plot_multi_cascade(year={years}) returns a table with rows {rows} ({len(table['text'])} rows of values) for {len(years)} requested years", {"kind": "multi_cascade_rows", "demo": w.name, "years": years})


def check_mixed_dt(ctx, w):
    """'depends only on the quantities, populations and period that were asked for': what PlotData reports for one result does not depend on which OTHER result is passed in the same
    call -- in particular not on the other result's step size (flows are annualised with the step of their own run)."""
    import atomica as at
    import sciris as sc

    if w.name not in ("udt", "tb_simple", "hypertension_dyn"):
        return
    try:
        P2 = sc.dcp(w.P)
        P2.settings.update_time_vector(dt=w.dt / 2)
        r2 = P2.run_sim(P2.parsets[0], result_name="halfstep")
        sel = [x for x in w.link_selectors if x.count(":") == 1 and not x.startswith(":") and not x.endswith(":")][:2] + [w.comp_names[0]]
        pop = w.pops[0]
        alone = {r.name: at.PlotData(r, outputs=sel, pops=pop) for r in (w.result, r2)}
        orders = [[w.result, r2], [r2, w.result]]
        both = [at.PlotData(rs, outputs=sel, pops=pop) for rs in orders]
    except Exception as ex:
        ctx.notes.append(f"mixed-dt probe on {w.name}: {type(ex).__name__}: {str(ex)[:120]}")
        return
    ctx.count("probe.mixed_dt_results")
    ctx.case({"probe": "mixed-dt", "demo": w.name}, nontrivial=True)
    for d, rs in zip(both, orders):
        for s_ in d.series:
            ref = next(x for x in alone[s_.result].series if x.output == s_.output and x.pop == s_.pop)
            if len(ref.vals) != len(s_.vals) or not np.array_equal(np.asarray(ref.vals), np.asarray(s_.vals), equal_nan=True):
                ctx.violation({"api": "PlotData.__init__", "defect": "value_depends_on_other_results_in_the_call"},
                              f"{w.name}: PlotData({[r.name for r in rs]}, outputs={sel}) reports {s_.output} of result {s_.result!r} as {np.asarray(s_.vals)[:2].tolist()}..., the same request for that result alone gives {np.asarray(ref.vals)[:2].tolist()}... (step sizes {w.dt} and {w.dt / 2})",
                              {"kind": "mixed_dt", "demo": w.name, "outputs": sel, "order": [r.name for r in rs]})
                return


def run_demo(ctx, name, n_uni, max_calls, n_adhoc, n_seq):
    try:
        w = world(name)
    except Exception as ex:
        ctx.notes.append(f"demo {name} could not be loaded: {type(ex).__name__}: {str(ex)[:100]}")
        return
    check_defaults(ctx, w)
    check_mixed_dt(ctx, w)
    check_multi_cascade_rows(ctx, w)
    if len(w.junction_link_selectors) >= 2:
        # directed: a weighted average of flows that leave junctions (the random stream reaches it only now and then)
        labs = ctx.rng.sample(w.junction_link_selectors, min(len(w.junction_link_selectors), ctx.rng.choice([2, 3])))
        ctx.count("directed.weighted_junction_flows")
        check_universe(ctx, w, {"demo": w.name, "oa": "weighted", "pa": None, "outs": [("agg", "jflows", labs), ("plain", labs[0])], "pops": [("single", ctx.rng.choice(w.pops))]}, max_calls)
    for _ in range(n_uni):
        uni = gen_universe(w, ctx.rng)
        check_universe(ctx, w, uni, max_calls)
    check_cascades(ctx, w, n_adhoc)
    check_modeE(ctx, w, n_seq, with_programs=(name in ("tb", "hypertension_dyn", "tb_simple", "udt")))


def _worker(args):
    name, seed, tier, n_uni, max_calls, n_adhoc, n_seq = args
    import logging
    import atomica
    atomica.logger.setLevel(logging.ERROR)
    sub = core.Ctx(PROPERTY, tier, seed)
    sub.rng.seed(f"{seed}:{name}:{tier}")
    try:
        run_demo(sub, name, n_uni, max_calls, n_adhoc, n_seq)
    except Exception:
        import traceback
        sub.brk("machinery", f"worker {name} raised: " + traceback.format_exc()[-600:])
    return {"name": name, "evaluations": sub.evaluations, "keys": sorted(sub.nontrivial_keys), "samples": sub.samples, "branches": sub.branches, "traces": sub.traces, "dis": sub.disagreements_checked,
            "hc": sub.hyp_checked, "hh": sub.hyp_held, "amb": sub.ambiguous, "breaks": sub.breaks, "violations": sub.violations, "notes": sub.notes}


def merge(ctx, res):
    ctx.evaluations += res["evaluations"]
    ctx.nontrivial_keys |= set(res["keys"])
    for s in res["samples"]:
        if len(ctx.samples) < 3:
            ctx.samples.append(s)
    for k, v in res["branches"].items():
        ctx.count(k, v)
    ctx.traces += res["traces"]
    ctx.disagreements_checked += res["dis"]
    ctx.hyp_checked += res["hc"]
    ctx.hyp_held += res["hh"]
    ctx.ambiguous += res["amb"]
    ctx.breaks += res["breaks"]
    ctx.violations += res["violations"]
    ctx.notes += res["notes"]


def run(ctx):
    demos = QUICK_DEMOS if ctx.quick else THOROUGH_DEMOS
    n_uni = ctx.n(6, 80)
    max_calls = ctx.n(80, 400)
    n_adhoc = ctx.n(6, 100)
    n_seq = ctx.n(2, 12)
    jobs = [(name, ctx.seed, ctx.tier, n_uni, max_calls, n_adhoc, n_seq) for name in demos]
    import multiprocessing as mp

    with mp.get_context("fork").Pool(min(len(jobs), 12)) as pool:
        for res in pool.imap(_worker, jobs):
            merge(ctx, res)
    # one violation per distinct key is enough for the verdict; keep the list short and deterministic
    seen = {}
    for v in ctx.violations:
        k = str(sorted(v["key"].items()))
        seen.setdefault(k, v)
    ctx.extra["violations_total_before_dedup"] = len(ctx.violations)
    ctx.violations = list(seen.values())
    ctx.exhaustive = False


def _uni_from_json(u):
    u = dict(u)
    u["outs"] = [tuple(o) for o in u["outs"]]
    u["pops"] = [tuple(g) for g in u["pops"]]
    return u


def replay(ctx, data):
    """re-run a stored failing input on the implementation (same seeds, same spelling of the call); exit 1 iff it still violates"""
    import atomica as at
    import logging
    at.logger.setLevel(logging.ERROR)
    if "replay" not in data:
        print("this file records broken obligations / correspondences without a concrete failing input:")
        for b_ in data.get("broken", [])[:10]:
            print("  ", b_.get("kind"), b_.get("what", "")[:300])
        return 0
    rp = data["replay"]
    print("what:", data.get("what"))
    if "script" in rp:
        print("--- minimal script ---")
        print(rp["script"])
        print("--- its output ---")
        try:
            with np.errstate(all="ignore"):
                exec(rp["script"], {})
        except Exception as ex:
            print(f"(script raised {type(ex).__name__}: {ex})")
    kind = rp.get("kind")
    c2 = core.Ctx(PROPERTY, "quick", 0)
    if kind == "plotdata":
        uni = _uni_from_json(rp["universe"])
        w = world(uni["demo"])
        outs, pops = uni["outs"], uni["pops"]
        co = [outs[i] for i in rp["outs"]]
        cp = [pops[i] for i in rp["pops"]]
        style = random.Random(rp["call_seed"])
        multi = style.random() < 0.1
        try:
            d = run_plotdata(w, co, cp, uni["oa"], uni["pa"], style=style, results=[w.result, w.second_result()] if multi else None)
        except Exception as ex:
            print(f"call raised {type(ex).__name__}: {ex}")
            c2.violation({"api": "PlotData.__init__", "defect": "raises"}, str(ex), {})
            d = None
        if d is not None:
            for oi, gi in ([rp["entry"]] if "entry" in rp else [(oi, gi) for oi in rp["outs"] for gi in rp["pops"]]):
                try:
                    a = series_of(d, pops[gi], outs[oi], result=w.result.name).vals
                except AssertionError:
                    c2.violation({"api": "PlotData.__init__"}, "series missing", {})
                    continue
                b = series_of(run_plotdata(w, [outs[oi]], [pops[gi]], uni["oa"], uni["pa"]), pops[gi], outs[oi]).vals
                print(f"({out_name(outs[oi])}, {pop_name(pops[gi])}) in call: {a[:3]} alone: {b[:3]} same: {same(a, b)}")
                if not same(a, b):
                    c2.violation({"api": "PlotData.__init__"}, "differs", {})
    elif kind == "ref":
        uni = _uni_from_json(rp["universe"])
        w = world(uni["demo"])
        sub = dict(uni, outs=[tuple(rp["out"])], pops=[tuple(rp["pop"])])
        check_universe(c2, w, sub, max_calls=4)
    elif kind == "resample":
        uni = _uni_from_json(rp["universe"])
        check_resampling(c2, world(uni["demo"]), uni, rp["rs_seed"])
    elif kind == "cascade":
        cas = dict(rp["cas"])
        cas["stages"] = [(nm, list(cons)) for nm, cons in cas["stages"]]
        check_one_cascade(c2, world(rp["demo"]), cas, rp["cs_seed"])
    elif kind == "defaults":
        check_defaults(c2, world(rp["demo"]))
    elif kind == "modeE":
        check_modeE(c2, world(rp["demo"]), 1, rp.get("with_programs", False), seq_seeds=[rp["seq_seed"]])
    for v in c2.violations[:5]:
        print("  violation:", v["key"], "--", v["what"][:300])
    for b_ in c2.breaks[:5]:
        print("  break:", b_["what"][:300])
    bad = bool(c2.violations or c2.breaks)
    print("REPLAY:", "property violated on this input" if bad else "no violation on this input")
    return 1 if bad else 0


if __name__ == "__main__":
    core.main(sys.modules[__name__])
