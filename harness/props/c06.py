"""
C06 -- Parameter values follow data x calibration -> function -> program -> limits.

Part 1 (this file, `run_series`): `TimeSeries.interpolate` (methods 'linear' and 'previous', also reached
through `Parameter.interpolate`) and `TimeSeries.insert` vs `Atomica.Series` (mode A), plus the direct oracle
"exact at entered years, on the chord in between, constant outside, constant assumption" and the C09 prefix law
for stepped series.
Part 2 (`run_pipeline`, added with the parameter-pipeline model): per-step parameter values vs `Atomica.Params`.
"""
import math
import sys
from fractions import Fraction

import numpy as np

from vlib import core, params_corr
from vlib.core import q, unq

PROPERTY = "C06"

# ---- obligations (lists are extended by the parameter-pipeline half) -------------------------------------
SERIES_LEAN_MODS = ["AtomicaProofs.Properties.C06Series"]
SERIES_THEOREMS = [
    "Atomica.C06.interp_knot",
    "Atomica.C06.interp_between",
    "Atomica.C06.interp_outside",
    "Atomica.C06.interp_single",
    "Atomica.C06.interp_assumption",
    "Atomica.C06.interp_ignores_assumption",
    "Atomica.C06.interp_all_nan",
    "Atomica.C06.interp_nan_dropped",
    "Atomica.C06.previous_knot",
    "Atomica.C06.previous_between",
    "Atomica.C06.previous_outside",
    "Atomica.C06.insert_wf",
    "Atomica.C06.insert_spec",
    "Atomica.C06.clean_sorted",
    "Atomica.C06.previous_prefix",
    "Atomica.C06.previous_prefix_needs_point",
]
PIPE_LEAN_MODS = ["AtomicaProofs.Properties.C06Params", "AtomicaProofs.Properties.C13Closed", "AtomicaProofs.Properties.C03ClosedExt"]
PIPE_THEOREMS = [
    "Atomica.C06.precedence_program",
    "Atomica.C06.precedence_function",
    "Atomica.C06.precedence_data",
    "Atomica.C06.precedence_skip",
    "Atomica.C06.precedence_aggregation",
    "Atomica.C06.data_scaled",
    "Atomica.C06.clip_before_use",
    "Atomica.C06.clipV_idem",
    "Atomica.C06.evalStep_frame",
    "Atomica.C06.evalStep_fixpoint",
    "Atomica.C06.evalStep_function_fixpoint",
    "Atomica.C06.evalStep_clipped",
    "Atomica.C06.current_eq_spec",
    "Atomica.C06.current_precompute_skip_nan",
    "Atomica.C06.current_ne_spec",
    # closed loop with programs: untargeted / inactive parameters follow the program-free rule on the same-index values
    "Atomica.C13.closedprog_untargeted_rule",
    "Atomica.C13.closedprog_inactive_rule",
    "Atomica.C13.closedprog_untargeted_unchanged_rule",
    "Atomica.C13.closedprog_no_covouts",
    "Atomica.C13.parVal_is_evalOne",
    "Atomica.C13.evalParsP_clipped",
    # closed loop: inside a skip window the scenario value stands (clipped), whatever the function says; derivative parameters follow the Euler recurrence on the same-index values
    "Atomica.C03.closed_skip_uses_data",
    "Atomica.C03.closed_derivative_step",
    "Atomica.C03.closed_derivative_value",
]
LEAN_MODS = list(SERIES_LEAN_MODS) + PIPE_LEAN_MODS
THEOREMS = list(SERIES_THEOREMS) + PIPE_THEOREMS

TRUSTED = [
    "float rounding inside numpy.interp (slope*(x-xp[j])+fp[j]) compared with the exact chord to 1e-11 * max(|v_j|,|v_j+1|); values at entered years, outside the range, single-point and assumption-only series are compared exactly",
    "the model reads the stored lists ts.t / ts.vals / ts.assumption after construction through the public API (TimeSeries(...), insert, remove); assumption None and NaN are the same model input (indistinguishable through interpolate)",
]
ASSUMPTIONS = [
    "requested times are finite (simulation times); NaN/inf requests and infinite stored values are not modelled",
    "series whose non-NaN times are not strictly increasing (only reachable by storing a NaN time or writing ts.t directly) are outside the theorems' hypothesis; they are counted and skipped",
    "methods 'pchip' and callables (smoothing) are not modelled",
]
RULE = (
    "series: structured random TimeSeries built through the public API (none / assumption only / one year / many years / yearly / years outside the "
    "simulation range / NaN values / rare NaN time / near-coincident years; unsorted and duplicated constructor input; random insert/remove afterwards); "
    "requests: a simulation grid plus every entered year, midpoints, adjacent floats of entered years and far-outside times; one case = (series, method); "
    "non-trivial = at least one request strictly between two entered years with different values, or a NaN entry dropped with another entry remaining"
)
EXPECTED_BRANCHES = [
    "series.none", "series.assumption_only", "series.single", "series.many", "series.nan_value_dropped", "series.nan_time_dropped",
    "series.all_nan_error", "series.assumption_ignored", "query.knot", "query.between", "query.left", "query.right",
    "method.linear", "method.previous", "via.parameter", "via.timeseries",
    "insert.new", "insert.overwrite", "insert.nan_value", "prefix.hyp_held", "prefix.hyp_fails_changed",
]

PIPE_RULE = (
    " | pipeline: cases = (processed model, parameter, population), every time index compared; generated frameworks with dependency chains/diamonds, "
    "precompute / dynamic / output-only functions, SRC/TGT_POP_AVG/SUM aggregations (no / interaction / compartment / characteristic / parameter weights), limits, "
    "calibration factors, parameter scenarios (skip windows), with and without generated program sets; demos udt, tb_simple (hiv, tb thorough); "
    "non-trivial = set at some index by a function, program, aggregation or skip window, calibration factor != 1, or clipped at a limit"
)
RULE = RULE + PIPE_RULE
EXPECTED_BRANCHES += ["derivscen.first_point", "derivscen.later", "allrow.scenario", "allrow.insert", "ratio.dynamic+output", "ratio.output-only", "ratio.dynamic-only", "ratio.numerator_near_tolerance", "ratio.numerator_ordinary"]
EXPECTED_BRANCHES += [
    "stage.data", "stage.data.transfer", "stage.function.dynamic", "stage.function.precompute", "stage.function.postcompute", "stage.aggregation",
    "stage.skip.dynamic", "stage.skip.precompute", "stage.skip.postcompute", "stage.program.number", "stage.program.pertime", "stage.program.other",
    "clip.at_limit", "clip.function_value", "clip.program_value", "order.topological.dynamic_pars", "order.topological.all_pars", "run.generated", "run.directed",
]
TRUSTED += [
    "pipeline half: the value of a parameter function on given dependency values and the interpolated databook value are oracle inputs (implementation's parsed function / ParameterSet.interpolate evaluated by the harness on the finished arrays); only their placement in the pipeline, the calibration factors and the clip are modelled",
]
ASSUMPTIONS += [
    "derivative parameters (Euler state) are excluded from the pipeline comparison and from the fixpoint statement (counted)",
]

NAN = float("nan")
VALUE_POOL = [0.0, 1.0, 0.5, 0.1, 0.3, 2.0, 100.0, 1e6, -1.0, -0.25, 1e-6, 0.999, 12345.678, 1 / 3, 7.0]
DTS = [1.0, 0.5, 0.25, 1 / 12, 0.1, 0.3, 0.2, 1 / 52]


# ----------------------------------------------------------------------------------------------------------
# JSON-able specs
# ----------------------------------------------------------------------------------------------------------
def enc(z):
    if z is None:
        return None
    if isinstance(z, float) and math.isnan(z):
        return "nan"
    return z


def dec(z):
    return NAN if z == "nan" else z


def build(spec):
    """Construct the TimeSeries of a spec through the public API only."""
    import atomica as at

    ts = at.TimeSeries(t=[dec(z) for z in spec["t"]], vals=[dec(z) for z in spec["v"]], assumption=dec(spec["a"]))
    for op in spec.get("ops", []):
        if op[0] == "insert":
            ts.insert(dec(op[1]), dec(op[2]))
        elif op[0] == "remove":
            ts.remove(dec(op[1]))
    return ts


def isnan(z):
    return isinstance(z, float) and math.isnan(z)


# ----------------------------------------------------------------------------------------------------------
# generators
# ----------------------------------------------------------------------------------------------------------
def gen_value(r):
    c = r.random()
    if c < 0.6:
        return r.choice(VALUE_POOL)
    if c < 0.8:
        return round(r.uniform(0, 1), r.choice([1, 2, 6]))
    if c < 0.9:
        return r.uniform(-1000, 1000)
    return r.random() * 10 ** r.randint(-8, 9)


def gen_year(r, lo=1990, hi=2040):
    c = r.random()
    if c < 0.55:
        return r.randint(lo, hi)  # int, as read from a databook header
    if c < 0.75:
        return float(r.randint(lo, hi))
    if c < 0.9:
        return r.randint(lo, hi) + r.choice([0.5, 0.25, 0.75, 0.1, 1 / 12, 0.3])
    return r.uniform(lo, hi)


def gen_spec(r):
    kind = r.choices(
        ["none", "assumption", "one", "many", "yearly", "outside", "nanvals", "nantime", "close", "flat"],
        weights=[3, 8, 10, 30, 8, 10, 14, 3, 6, 8],
    )[0]
    a = None
    if kind == "assumption" or (kind != "none" and r.random() < 0.35):
        a = gen_value(r)
        if r.random() < 0.05:
            a = NAN
        elif r.random() < 0.2:
            a = r.choice([0, 1, 3])  # int assumption, stored unconverted by the constructor
    t, v = [], []
    if kind == "one":
        t, v = [gen_year(r)], [gen_value(r)]
    elif kind in ("many", "nanvals", "nantime", "flat"):
        n = r.choice([2, 2, 3, 3, 4, 5, 6, 8])
        t = [gen_year(r) for _ in range(n)]
        v = [gen_value(r) for _ in range(n)]
        if kind == "flat":
            c = gen_value(r)
            v = [c if r.random() < 0.7 else x for x in v]
        if r.random() < 0.3:  # duplicated year in the constructor input: the later value wins
            j = r.randrange(n)
            t.append(t[j])
            v.append(gen_value(r))
        if kind == "nanvals":
            if r.random() < 0.2:
                v = [NAN for _ in v]
            else:
                for j in range(len(v)):
                    if r.random() < 0.4:
                        v[j] = NAN
        if kind == "nantime":
            j = r.randrange(len(t))
            t[j] = NAN
        if r.random() < 0.15:
            j = r.randrange(len(v))
            v[j] = None  # skipped by insert
    elif kind == "yearly":
        y0 = r.randint(1990, 2010)
        n = r.randint(5, 25)
        t = [y0 + k for k in range(n)]
        base = gen_value(r)
        v = [base + r.choice([0, 0, 0.01, -0.02, 0.1]) * k for k in range(n)]
    elif kind == "outside":
        lo, hi = r.choice([(1950, 1989), (2041, 2100), (1950, 2100)])
        n = r.choice([1, 2, 3, 4])
        t = [gen_year(r, lo, hi) for _ in range(n)]
        v = [gen_value(r) for _ in range(n)]
    elif kind == "close":
        y = float(r.randint(2000, 2020))
        d = r.choice([1e-9, 1e-6, 2.0 ** -30, 1e-3])
        t = [y, y + d, y + 1.0][: r.choice([2, 3])]
        if r.random() < 0.3:
            t.append(math.nextafter(y, math.inf))
        v = [gen_value(r) for _ in t]
    if t and r.random() < 0.5:  # sorted input, as a databook provides it
        finite = [(a_, b_) for a_, b_ in zip(t, v) if not isnan(a_)]
        rest = [(a_, b_) for a_, b_ in zip(t, v) if isnan(a_)]
        finite.sort(key=lambda p: p[0])
        t = [p[0] for p in finite + rest]
        v = [p[1] for p in finite + rest]
    ops = []
    if r.random() < 0.3:
        cur = [x for x, y in zip(t, v) if not isnan(x) and y is not None]  # years actually stored (None values are skipped)
        for _ in range(r.choice([1, 1, 2, 3])):
            c = r.random()
            if c < 0.55:
                y = r.choice(cur) if cur and r.random() < 0.3 else gen_year(r)
                w = NAN if r.random() < 0.12 else gen_value(r)
                ops.append(["insert", y, w])
                cur.append(y)
            elif c < 0.7:
                ops.append(["insert", None, gen_value(r)])
            elif c < 0.9 and cur and kind != "nantime":
                y = r.choice(cur)
                ops.append(["remove", y])
                cur = [x for x in cur if x != y]
            elif c >= 0.9:
                ops.append(["remove", None])
    return {"kind": kind, "t": [enc(x) for x in t], "v": [enc(x) for x in v], "a": enc(a), "ops": [[enc(z) for z in op] for op in ops]}


def gen_queries(r, knots):
    start = r.choice([2000, 2000.5, 1995, 2010.25, 2015])
    dt = r.choice(DTS)
    n = r.randint(3, 30)
    xs = [start + k * dt for k in range(n)]
    ks = [float(k) for k in knots]
    for k in ks:
        xs.append(k)
        if r.random() < 0.5:
            xs.append(math.nextafter(k, math.inf))
            xs.append(math.nextafter(k, -math.inf))
    for a_, b_ in zip(ks, ks[1:]):
        xs.append(a_ + (b_ - a_) * r.choice([0.5, 0.25, 0.1, 0.9, r.random()]))
    if ks:
        xs += [ks[0] - r.choice([1e-9, 1.0, 37.5]), ks[-1] + r.choice([1e-9, 1.0, 50.25])]
    xs += [r.uniform(1980, 2050) for _ in range(3)]
    if r.random() < 0.3:
        xs = [int(x) if float(x).is_integer() and r.random() < 0.5 else x for x in xs]
    return xs


# ----------------------------------------------------------------------------------------------------------
# the property's own predicate, evaluated in exact arithmetic on the stored points (independent of Lean)
# ----------------------------------------------------------------------------------------------------------
def clean_points(ts_t, ts_vals):
    """(time, value) as Fractions for entries whose time and value are not NaN; plus counts of dropped entries"""
    pts, nan_v, nan_t = [], 0, 0
    for t, v in zip(ts_t, ts_vals):
        if isnan(float(t)):
            nan_t += 1
        elif isnan(float(v)):
            nan_v += 1
        else:
            pts.append((Fraction(t), Fraction(v)))
    return pts, nan_v, nan_t


def expected(pts, has_raw, assumption, x, method):
    """-> (law, exact value | None for NaN | 'err', scale).  `law` names the clause of the property that applies."""
    if not has_raw:
        if assumption is None or isnan(float(assumption)):
            return "nodata", None, 0.0
        return "assumption", Fraction(assumption), 0.0
    if not pts:
        return "error", "err", 0.0
    if len(pts) == 1:
        return "single", pts[0][1], 0.0
    x = Fraction(x)
    if x <= pts[0][0]:
        return ("knot" if x == pts[0][0] else "left"), pts[0][1], 0.0
    if x >= pts[-1][0]:
        return ("knot" if x == pts[-1][0] else "right"), pts[-1][1], 0.0
    # bisect for the neighbouring entered years
    lo, hi = 0, len(pts) - 1
    while hi - lo > 1:
        mid = (lo + hi) // 2
        if pts[mid][0] <= x:
            lo = mid
        else:
            hi = mid
    (t0, v0), (t1, v1) = pts[lo], pts[hi]
    if x == t0:
        return "knot", v0, 0.0
    if method == "previous":
        return "step", v0, 0.0
    return "between", v0 + (v1 - v0) * (x - t0) / (t1 - t0), float(max(abs(v0), abs(v1)))


def oracle_ok(law, want, scale, got):
    """Does the implementation's value satisfy the clause?  Exact except on the open chord."""
    if want is None:
        return isinstance(got, float) and math.isnan(got)
    if isnan(got):
        return False
    if law == "between":
        return core.close(want, got, scale=scale, rtol=1e-11)
    return Fraction(got) == want


def call_impl(ts, xs, method, via_parameter):
    import atomica as at

    try:
        if via_parameter:
            par = at.Parameter("par", ts={"pop": ts})
            par._interpolation_method = method
            out = par.interpolate(xs, "pop")
        else:
            out = ts.interpolate(xs, method=method)
    except Exception as ex:  # only the documented "No time points remained" failure is expected
        return None, f"{type(ex).__name__}: {ex}"
    return [float(z) for z in np.asarray(out).ravel()], None


def request(kind, ts_t, ts_vals, assumption, xs):
    a = "nan" if assumption is None else q(assumption)
    body = " ".join(f"{q(t)} {q(v)}" for t, v in zip(ts_t, ts_vals))
    return f"{kind} {a} {len(ts_t)}{' ' + body if body else ''} {len(xs)} {' '.join(q(x) for x in xs)}"


def strictly_increasing(seq):
    return all(a < b for a, b in zip(seq, seq[1:]))


SCRIPT = """import atomica as at, json, sys; sys.path.insert(0, 'harness')
from props.c06 import build
ts = build({spec!r})
print(ts.t, ts.vals, ts.assumption)
print(ts.interpolate({xs!r}, method={method!r}))   # property: {law} -> {want}
"""


# ----------------------------------------------------------------------------------------------------------
# run
# ----------------------------------------------------------------------------------------------------------
def run_series(ctx):
    r = ctx.rng
    jobs = []  # (spec, ts state, xs, method, via, impl out, impl exc)
    n_series = ctx.n(1500, 30000)
    for _ in range(n_series):
        spec = gen_spec(r)
        try:
            ts = build(spec)
        except Exception as ex:
            ctx.violation({"api": "TimeSeries", "law": "construct"}, f"building a TimeSeries raised {type(ex).__name__}: {ex}", {"spec": spec})
            continue
        state_t, state_v, state_a = list(ts.t), list(ts.vals), ts.assumption
        pts, nan_v, nan_t = clean_points(state_t, state_v)
        xs = gen_queries(r, [p[0] for p in pts])
        for method in ("linear", "previous"):
            via = r.random() < 0.25
            out, exc = call_impl(ts, xs, method, via)
            jobs.append((spec, (state_t, state_v, state_a), (pts, nan_v, nan_t), xs, method, via, out, exc))
        if (list(ts.t), list(ts.vals)) != (state_t, state_v) and not any(isnan(float(z)) for z in state_t + state_v):
            ctx.violation({"api": "TimeSeries.interpolate", "law": "pure"}, "interpolate modified the stored series", {"spec": spec})

    replies = core.drive([request("interp-" + m, st[0], st[1], st[2], xs) for (_, st, _, xs, m, _, _, _) in jobs])

    for (spec, st, (pts, nan_v, nan_t), xs, method, via, out, exc), rep in zip(jobs, replies):
        state_t, state_v, state_a = st
        has_raw = len(state_t) > 0
        # theorem hypothesis: the entered (non-NaN) years are strictly increasing
        ctx.hyp_checked += 1
        sorted_ok = strictly_increasing([p[0] for p in pts])
        if sorted_ok:
            ctx.hyp_held += 1
        else:
            if nan_t == 0:  # no NaN time stored, so `insert` itself broke the strictly-increasing storage invariant (insert_wf)
                ctx.violation({"api": "TimeSeries.insert", "law": "sorted-overwrite"}, f"the public API stored times that are not strictly increasing: t={state_t} vals={state_v}", {"spec": spec, "insert": None})
            ctx.count("series.unsorted_after_nan_time(skipped)")
            continue
        ctx.count("method." + method)
        ctx.count("via.parameter" if via else "via.timeseries")
        if not has_raw:
            ctx.count("series.none" if state_a is None or isnan(float(state_a)) else "series.assumption_only")
        elif not pts:
            ctx.count("series.all_nan_error")
        else:
            ctx.count("series.single" if len(pts) == 1 else "series.many")
            if nan_v:
                ctx.count("series.nan_value_dropped")
            if nan_t:
                ctx.count("series.nan_time_dropped")
            if state_a is not None:
                ctx.count("series.assumption_ignored")
        base_key = {"api": "Parameter.interpolate" if via else "TimeSeries.interpolate", "method": method}
        rp = {"spec": spec, "xs": xs, "method": method, "via_parameter": via, "stored": [[enc(float(a)), enc(float(b))] for a, b in zip(state_t, state_v)]}
        model = rep.split()
        interior = False
        # -- whole-call outcomes (exception or not) --
        law0, want0, _ = expected(pts, has_raw, state_a, xs[0], method)
        if want0 == "err":
            ctx.case({"spec": spec, "m": method}, nontrivial=False, sample={"spec": spec, "method": method})
            if exc is None:
                ctx.violation({**base_key, "law": "error"}, f"all dated entries are NaN but interpolate returned {out[:3]} instead of raising", rp)
            if model[:1] != ["err"]:
                ctx.brk("correspondence", f"model replied {rep[:60]!r} for an all-NaN series", replay=rp)
            ctx.traces += 1
            continue
        if exc is not None:
            ctx.violation({**base_key, "law": "raises"}, f"interpolate raised {exc} on a series with usable data", rp)
            continue
        if len(out) != len(xs) or len(model) != len(xs):
            ctx.brk("correspondence", f"lengths differ: {len(out)} values, {len(model)} model replies, {len(xs)} requests", replay=rp)
            continue
        bad = None
        for x, got, mrep in zip(xs, out, model):
            law, want, scale = expected(pts, has_raw, state_a, x, method)
            if has_raw and len(pts) >= 2:
                ctx.count("query." + law)
                if law in ("between", "step"):  # strictly inside an interval between two entered years
                    interior = True
            ok = oracle_ok(law, want, scale, got)
            mval = unq(mrep) if mrep not in ("err",) else "err"
            agree = mval != "err" and core.close(mval, got, scale=scale, rtol=1e-11 if law == "between" else 0.0)
            if not ok and bad is None:
                bad = (law, x, got, want)
            if not agree:
                ctx.disagreements_checked += 1
                if ok:
                    ctx.brk("correspondence", f"model {mrep} vs implementation {got!r} at t={x!r} ({method}, clause {law}); the direct oracle accepts the implementation", replay={**rp, "x": x})
        if bad:
            law, x, got, want = bad
            wantf = None if want is None else float(want)
            ctx.violation(
                {**base_key, "law": law},
                f"TimeSeries.interpolate(method={method!r}) at t={x!r} gave {got!r}; the property requires {wantf!r} ({law}); stored t={state_t} vals={state_v} assumption={state_a}",
                {**rp, "x": x, "got": enc(got), "want": wantf, "script": SCRIPT.format(spec=spec, xs=[x], method=method, law=law, want=wantf)},
            )
        ctx.traces += 1
        distinct_vals = len({p[1] for p in pts}) > 1
        ctx.case({"spec": spec, "m": method}, nontrivial=(interior and distinct_vals) or ((nan_v + nan_t) > 0 and len(pts) >= 1), sample={"spec": spec, "method": method})

    run_insert(ctx, [j[0] for j in jobs[::2]])
    ctx.exhaustive = False


def run_insert(ctx, specs):
    """`TimeSeries.insert` vs `insertRaw`, and the stepped prefix law on the implementation."""
    r = ctx.rng
    work = []
    for spec in specs:
        ts = build(spec)
        t0, v0 = list(ts.t), list(ts.vals)
        wf = (not any(isnan(float(z)) for z in t0)) and strictly_increasing([Fraction(z) for z in t0])
        ctx.hyp_checked += 1
        if not wf:
            ctx.count("insert.not_wf(skipped)")
            continue
        ctx.hyp_held += 1
        c = r.random()
        if t0 and c < 0.3:
            Y = r.choice(t0)
        elif t0 and c < 0.5:
            Y = r.choice([float(t0[0]) - r.choice([1, 0.5, 1e-9]), float(t0[-1]) + r.choice([1, 0.5, 1e-9])])
        else:
            Y = gen_year(r)
        w = NAN if r.random() < 0.15 else gen_value(r)
        xs = gen_queries(r, [Fraction(z) for z in t0])
        before, exc_b = call_impl(ts, xs, "previous", False)
        ts2 = ts.copy()
        ts2.insert(Y, w)
        after, exc_a = call_impl(ts2, xs, "previous", False)
        work.append((spec, t0, v0, ts.assumption, Y, w, list(ts2.t), list(ts2.vals), xs, before, exc_b, after, exc_a))
    replies = core.drive([f"series-insert {len(t0)}{''.join(f' {q(a)} {q(b)}' for a, b in zip(t0, v0))} {q(Y)} {q(w)}" for (_, t0, v0, _, Y, w, *_rest) in work])
    for (spec, t0, v0, a0, Y, w, t1, v1, xs, before, exc_b, after, exc_a), rep in zip(work, replies):
        rp = {"spec": spec, "insert": [Y, enc(w)], "xs": xs}
        key = {"api": "TimeSeries.insert"}
        if Y in t0:
            ctx.count("insert.overwrite")
        else:
            ctx.count("insert.new")
            if t0 and Y < t0[0]:
                ctx.count("insert.front")
            if t0 and Y > t0[-1]:
                ctx.count("insert.back")
        if isnan(w):
            ctx.count("insert.nan_value")
        # direct oracle: times stay strictly increasing, (Y, w) is stored, every other entry is untouched
        want = sorted([(Fraction(a), b) for a, b in zip(t0, v0) if a != Y] + [(Fraction(Y), w)], key=lambda p: p[0])
        got = [(Fraction(a), b) for a, b in zip(t1, v1)]
        same = len(want) == len(got) and all(a[0] == b[0] and (a[1] == b[1] or (isnan(a[1]) and isnan(b[1]))) for a, b in zip(want, got))
        if not same:
            ctx.violation({**key, "law": "sorted-overwrite"}, f"insert({Y!r}, {w!r}) into t={t0} vals={v0} gave t={t1} vals={v1}", rp)
        toks = rep.split()
        mod = [(unq(toks[1 + 2 * i]), unq(toks[2 + 2 * i])) for i in range(int(toks[0]))] if toks and toks[0].isdigit() else None
        magree = mod is not None and len(mod) == len(got) and all(m[0] == g[0] and ((m[1] is None and isnan(g[1])) or (m[1] is not None and not isnan(g[1]) and m[1] == Fraction(g[1]))) for m, g in zip(mod, got))
        ctx.case({"spec": spec, "ins": [Y, enc(w)]}, nontrivial=len(t0) >= 2 and 0 < sum(1 for z in t0 if z < Y) < len(t0))
        ctx.traces += 1
        if not magree:
            ctx.disagreements_checked += 1
            if same:
                ctx.brk("correspondence", f"model insert reply {rep[:80]!r} differs from implementation t={t1} vals={v1}; the direct oracle accepts the implementation", replay=rp)
        # prefix law (previous_prefix): with a non-NaN point at or before x and x < Y the stepped value is unchanged
        if exc_b is not None or exc_a is not None:
            continue
        pts, _, _ = clean_points(t0, v0)
        for x, b, a in zip(xs, before, after):
            if not Fraction(x) < Fraction(Y):
                continue
            ctx.hyp_checked += 1
            if any(p[0] <= Fraction(x) for p in pts):
                ctx.hyp_held += 1
                ctx.count("prefix.hyp_held")
                if not (a == b or (isnan(a) and isnan(b))):
                    ctx.violation({"api": "TimeSeries.interpolate", "method": "previous", "law": "prefix"},
                                  f"stepped value at t={x!r} changed from {b!r} to {a!r} after insert({Y!r}, {w!r}) although an earlier point states the value in force; t={t0} vals={v0}", {**rp, "x": x})
            else:
                ctx.count("prefix.hyp_fails_changed" if not (a == b or (isnan(a) and isnan(b))) else "prefix.hyp_fails_unchanged")


def run_init_scaled(ctx):
    """'Initial-size data are scaled by calibration factors in the same way': the right-hand side of the initialization system
    (captured by wrapping numpy.linalg.lstsq while the Model is built) must be databook value x y_factor x meta_y_factor, a fraction
    additionally x its denominator's (value x y_factor x meta_y_factor); and the accepted run starts from those quantities."""
    import numpy as np
    from vlib import genfw
    from atomica.model import Model, BadInitialization

    r = ctx.rng
    for _ in range(ctx.n(25, 400)):
        pops = ["pa", "pb"][: r.choice([1, 2])]
        tot = {p: round(200 + r.random() * 800, 2) for p in pops}
        frac = {p: round(0.05 + r.random() * 0.8, 3) for p in pops}
        t0 = r.choice([2000, 2001.5])
        series = r.random() < 0.4
        def ent(v):
            return {"t": [1999.0, 2003.0], "v": [v * 0.5, v * 1.5], "assumption": None} if series else v   # linear in between: value at t0 known
        yf = {"alive": {**{p: r.choice([1.0, 0.8, 1.25, 1.1]) for p in pops}, "_meta": r.choice([1.0, 0.9, 1.2, 0.7])},
              "prev": {**{p: r.choice([1.0, 0.5, 1.3]) for p in pops}, "_meta": r.choice([1.0, 0.6, 1.1, 1.4])}}
        spec = {"comps": [{"name": "c0", "kind": "normal"}, {"name": "c1", "kind": "normal"}],
                "characs": [{"name": "alive", "components": ["c0", "c1"], "denominator": None, "databook": True, "init": {p: ent(tot[p]) for p in pops}},
                            {"name": "prev", "components": ["c0"], "denominator": "alive", "databook": True, "init": {p: ent(frac[p]) for p in pops}}],
                "pars": [{"name": "ra0", "format": "rate", "timescale": None, "function": None, "min": None, "max": None, "timed": False, "targetable": False, "databook": True, "value": {p: 0.1 for p in pops}}],
                "transitions": [["c0", "c1", "ra0"]], "pops": pops, "transfers": [], "settings": [t0, t0 + 2, 0.5], "y_factors": yf}
        def at_t0(v):
            if not series:
                return v
            w = (t0 - 1999.0) / 4.0
            return v * 0.5 * (1 - w) + v * 1.5 * w
        key = {"api": "initialize_compartments", "oracle": "init-scaled", "pops": len(pops), "series": series}
        caps = []
        orig = np.linalg.lstsq
        def wrapped(A, b, *a, **k):
            out = orig(A, b, *a, **k)
            caps.append((np.array(A), np.array(b)))
            return out
        np.linalg.lstsq = wrapped
        try:
            fw, data, parset, settings = genfw.build(spec)
            m = Model(settings, fw, parset)
        except BadInitialization:
            ctx.count("init.refused")
            continue
        finally:
            np.linalg.lstsq = orig
        ctx.count("init.scaled_checked")
        ctx.case({**key, "yf": yf, "tot": tot, "frac": frac, "t0": t0}, nontrivial=any(v != 1.0 for d in yf.values() for v in d.values()), sample={"spec": "alive=c0+c1, prev=c0/alive", "yf": yf})
        for k_, p in enumerate(pops):
            A, b = caps[k_]
            # rows: characteristics in framework order (alive, prev)
            e_alive = at_t0(tot[p]) * yf["alive"][p] * yf["alive"]["_meta"]
            e_prev = at_t0(frac[p]) * yf["prev"][p] * yf["prev"]["_meta"] * e_alive
            got = sorted(float(x) for x in b)
            exp = sorted([e_alive, e_prev])
            if not all(abs(g - e) <= 1e-9 * max(1.0, abs(e)) for g, e in zip(got, exp)):
                ctx.violation(key, f"population {p}: initialization targets {got}, databook x calibration factors gives alive={e_alive!r}, prev x alive={e_prev!r} (y_factors {yf}, databook alive={tot[p]}, prev={frac[p]}, t0={t0})",
                              {"kind": "init_scaled", "spec": spec})
                break
            c0 = float(m.pops[k_].get_comp("c0").vals[0]); c1 = float(m.pops[k_].get_comp("c1").vals[0])
            if abs(c0 + c1 - e_alive) > 1e-6 * max(1, e_alive) * 10 or abs(c0 - e_prev) > 1e-6 * max(1, e_prev) * 10:
                ctx.violation(key, f"population {p}: run starts with c0={c0!r}, c0+c1={c0 + c1!r}; databook x calibration factors gives {e_prev!r}, {e_alive!r}", {"kind": "init_scaled", "spec": spec})
                break


def run_ratio_function(ctx):
    """'Function parameters are the function of the same-step values of their dependencies': a function of a ratio characteristic
    frac0 = c0 / (c0 + c1) must have the value f(c0[t] / (c0[t] + c1[t])) at every step whenever the denominator is positive, whether the
    parameter drives a transition (evaluated during the run, Characteristic.update), is a pure output (evaluated after the run from
    Characteristic.vals), or both; and the characteristic the Result reports must be that same quotient -- except that, as C07 states, a numerator
    below 1e-6 people is reported as 0 (the in-loop rule divides; either is accepted there, see DESIGN 13.4)."""
    from vlib import genfw

    r = ctx.rng
    P = dict(timescale=None, min=None, max=None, timed=False, targetable=False, databook=False, value={})
    for i in range(ctx.n(24, 300)):
        c0 = r.choice([5e-7, 1e-7, 9.9e-7, 1e-6, 2e-6, 1e-3, 0.0, 10.0, 250.0]) if i >= 4 else [5e-7, 0.0, 10.0, 1e-6][i]
        c1 = r.choice([0.0, 0.0, 1e-7, 5.0, 100.0])
        k = r.choice([0.1, 0.25, 0.5])
        variant = r.choice(["dynamic+output", "output-only", "dynamic-only"]) if i >= 4 else ["dynamic+output", "output-only", "output-only", "dynamic+output"][i]
        pars = []
        if variant != "output-only":
            pars.append(dict(P, name="ra0", format="rate", function=f"{k}*frac0"))
        else:
            pars.append(dict(P, name="ra0", format="rate", databook=True, value={"pa": 0.2}))
        if variant != "dynamic-only":
            pars.append(dict(P, name="out0", format="number", function=f"{k}*frac0"))
        spec = {"comps": [{"name": "c0", "kind": "normal", "databook": True, "init": {"pa": c0}}, {"name": "c1", "kind": "normal", "databook": True, "init": {"pa": c1}}],
                "characs": [{"name": "alive", "components": ["c0", "c1"], "denominator": None, "databook": False}, {"name": "frac0", "components": ["c0"], "denominator": "alive", "databook": False}],
                "pars": pars, "transitions": [["c0", "c1", "ra0"]], "pops": ["pa"], "transfers": [], "interactions": [], "settings": [2000, 2003, 1.0]}
        key = {"api": "Parameter.update", "oracle": "ratio-function", "variant": variant}
        try:
            pop = genfw.run(spec).pops[0]
        except Exception as ex:
            ctx.brk("correspondence", f"ratio-function model could not be run: {type(ex).__name__}: {str(ex)[:200]}", case=key, spec=spec)
            continue
        a = [float(x) for x in pop.get_comp("c0").vals]; b = [float(x) for x in pop.get_comp("c1").vals]
        small = 0 < c0 <= 2e-6
        ctx.count("ratio." + variant); ctx.count("ratio.numerator_near_tolerance" if small else "ratio.numerator_ordinary" if c0 > 0 else "ratio.numerator_zero")
        ctx.case({**key, "c0": c0, "c1": c1, "k": k}, nontrivial=c0 > 0, sample={"c0": c0, "c1": c1, "variant": variant})
        bad = None
        for ti in range(len(a)):
            den = a[ti] + b[ti]
            if not den > 0:
                continue   # 0/0 is defined as 0 by the library; not the subject here
            want = a[ti] / den
            # C07 states the reporting rule: a numerator below 1e-6 people is reported as 0; inside the loop the quotient is used. Both are accepted there.
            alt = 0.0 if a[ti] < 1e-6 * (1 + 1e-9) else want
            seen = {"reported characteristic frac0": float(pop.get_charac("frac0").vals[ti]) }
            for nm in ("ra0", "out0"):
                if any(p_["name"] == nm and p_.get("function") for p_ in pars):
                    seen[f"parameter {nm} / {k}"] = float(pop.get_par(nm).vals[ti]) / k
            for what, got in seen.items():
                if abs(got - want) > 1e-9 * max(1.0, abs(want)) and abs(got - alt) > 1e-9 * max(1.0, abs(alt)):
                    bad = f"index {ti}: c0={a[ti]!r}, c0+c1={den!r}, quotient {want!r}, but {what} = {got!r}"
                    break
            if bad:
                break
        if bad:
            ctx.violation(key, f"{variant}, initial c0={c0!r} c1={c1!r}: {bad}", {"kind": "ratio_function", "spec": spec, "k": k})


def run_all_row(ctx):
    """'The value of every parameter at every simulation time is the databook series ... multiplied by the population's ... calibration factors': a parameter
    entered with one databook row "All" gives every population its own copy of that series. Editing one population of the ParameterSet (a parameter scenario,
    or `ts[pop].insert`) must leave the other populations on databook x calibration factors."""
    import atomica as at
    from vlib import genfw

    r = ctx.rng
    P = dict(timescale=None, function=None, min=None, max=None, timed=False, targetable=False, databook=True)
    for i in range(ctx.n(6, 60)):
        pops = ["pa", "pb", "pc"][: r.choice([2, 3])]
        v = r.choice([0.1, 0.25, 0.4])
        yf = {p: r.choice([1.0, 0.8, 1.25]) for p in pops}
        spec = {"comps": [{"name": "c0", "kind": "normal", "databook": True, "init": {p: 100.0 for p in pops}}, {"name": "c1", "kind": "normal", "databook": True, "init": {p: 10.0 for p in pops}}],
                "characs": [], "pars": [dict(P, name="ra0", format="rate", value={p: v for p in pops}, all_row=True)],
                "transitions": [["c0", "c1", "ra0"]], "pops": pops, "transfers": [], "interactions": [], "settings": [2000, 2004, 1.0], "y_factors": {"ra0": yf}}
        how = r.choice(["scenario", "insert"]) if i >= 2 else ["scenario", "insert"][i]
        key = {"api": "ParameterSet", "oracle": "all-row", "how": how}
        try:
            fw, data, parset, settings = genfw.build(spec)
            assert list(data.tdve["ra0"].ts.keys()) == ["All"]
            ps2 = at.ParameterSet(fw, data, "edited")
            for p in pops:
                ps2.pars["ra0"].y_factor[p] = yf[p]
            edited, newv = pops[0], 0.9
            if how == "scenario":
                ps2 = params_corr.apply_scenarios([{"par": "ra0", "pop": edited, "t": [2002], "y": [newv], "interp": "previous"}], ps2, fw, settings)
            else:
                ps2.pars["ra0"].ts[edited].insert(2002, newv)
            m = at.Model(settings, fw, ps2); m.process()
        except Exception as ex:
            ctx.brk("correspondence", f"all-row model could not be run: {type(ex).__name__}: {str(ex)[:200]}", case=key, spec=spec)
            continue
        ctx.count("allrow." + how)
        ctx.case({**key, "pops": len(pops), "v": v, "yf": yf}, nontrivial=True, sample={"pops": pops, "how": how})
        for k_, p in enumerate(pops[1:], start=1):
            got = [float(x) for x in m.pops[k_].get_par("ra0").vals]
            want = v * yf[p]
            if any(abs(g - want) > 1e-12 * max(1.0, abs(want)) for g in got):
                ctx.violation(key, f"population {p} entered through the databook row 'All' (value {v}, calibration factor {yf[p]}): after a {how} on population {edited} only, its values are {got} instead of {want!r} at every time",
                              {"kind": "all_row", "spec": spec, "how": how})
                break


def run_derivative_scenario(ctx):
    """'a scenario on a function parameter suspends the function from its first overwrite year onward, so the scenario values are used there' -- also when the
    function parameter is a DERIVATIVE parameter (its function is a rate of change): before the first overwrite year the value is stepped forward with the rate,
    from that year on it is the scenario value, and parameters that read it see those values."""
    from vlib import genfw

    r = ctx.rng
    P = dict(timescale=None, min=None, max=None, timed=False, targetable=False, databook=False, value={})
    for i in range(ctx.n(4, 40)):
        dt = r.choice([0.5, 1.0, 0.25])
        rate = r.choice([0.2, -0.1, 0.0])
        v0 = r.choice([1.0, 2.5])
        k = [0, 2, 1, 3][i % 4]                      # the scenario starts at the first time point, or k steps later
        Y = 2000.0 + k * dt
        yv = r.choice([5.0, 0.5])
        nsteps = 6
        spec = {"comps": [{"name": "c0", "kind": "normal", "databook": True, "init": {"pa": 100.0}}, {"name": "c1", "kind": "normal", "databook": True, "init": {"pa": 10.0}}], "characs": [],
                "pars": [dict(P, name="dd", format="number", function=repr(rate), derivative=True, databook=True, value={"pa": v0}), dict(P, name="ra0", format="rate", function="0.01*dd")],
                "transitions": [["c0", "c1", "ra0"]], "pops": ["pa"], "transfers": [], "interactions": [], "settings": [2000.0, 2000.0 + nsteps * dt, dt],
                "scenarios": [{"par": "dd", "pop": "pa", "t": [Y], "y": [yv], "interp": "previous"}]}
        key = {"api": "Model.update_pars", "oracle": "derivative-scenario", "first_point": k == 0}
        try:
            pop = genfw.run(spec).pops[0]
            got = [float(x) for x in pop.get_par("dd").vals]
            reader = [float(x) for x in pop.get_par("ra0").vals]
        except Exception as ex:
            if core.impl_raised(ctx, ex):
                ctx.breaks.pop()
                ctx.violation(key, f"a parameter scenario from {Y} on the derivative parameter dd (rate {rate}, start value {v0}, dt {dt}) makes the run fail: {type(ex).__name__}: {str(ex)[:160]}", {"kind": "derivative_scenario", "spec": spec})
                continue
            raise
        ctx.count("derivscen.first_point" if k == 0 else "derivscen.later")
        ctx.case({**key, "dt": dt, "rate": rate, "k": k}, nontrivial=True, sample={"Y": Y, "rate": rate})
        want = [v0 + j * rate * dt if j < k else yv for j in range(nsteps + 1)]
        if any(abs(g - w_) > 1e-9 * max(1.0, abs(w_)) for g, w_ in zip(got, want)) or any(abs(rv - 0.01 * w_) > 1e-9 for rv, w_ in zip(reader, want)):
            ctx.violation(key, f"derivative parameter dd (rate {rate}, start value {v0}, dt {dt}) with a scenario value {yv} from {Y}: values {got}, expected {want} (stepped with the rate before {Y}, the scenario value from then on); the reader 0.01*dd has {reader}",
                          {"kind": "derivative_scenario", "spec": spec, "want": want})


def run(ctx):
    run_series(ctx)
    run_derivative_scenario(ctx)
    run_init_scaled(ctx)
    run_ratio_function(ctx)
    run_all_row(ctx)
    params_corr.run_params(ctx, PROPERTY)


def replay(ctx, data):
    rp = data["replay"]
    if rp.get("kind") == "init_scaled":
        print("spec:", rp["spec"]); print("re-run: vlib.genfw.build(spec) with numpy.linalg.lstsq wrapped; compare b with databook x y_factor x meta_y_factor (x denominator)")
        return 0
    if rp.get("kind") == "derivative_scenario":
        from vlib import genfw
        try:
            got = [float(x) for x in genfw.run(rp["spec"]).pops[0].get_par("dd").vals]
        except Exception as ex:
            print("run fails:", type(ex).__name__, str(ex)[:200]); return 1
        print("values:", got, "expected:", rp.get("want"))
        return 1 if rp.get("want") and any(abs(g - w_) > 1e-9 * max(1.0, abs(w_)) for g, w_ in zip(got, rp["want"])) else 0
    if rp.get("kind") == "all_row":
        print("spec:", rp["spec"], "how:", rp["how"]); print("re-run: props/c06.run_all_row (build, edit population", rp["spec"]["pops"][0], "only, compare the others with databook x calibration factor)")
        return 0
    if rp.get("kind") == "ratio_function":
        from vlib import genfw
        pop = genfw.run(rp["spec"]).pops[0]; k = rp["k"]; bad = False
        a = pop.get_comp("c0").vals; b = pop.get_comp("c1").vals
        for ti in range(len(a)):
            den = float(a[ti] + b[ti])
            if den > 0:
                want = float(a[ti]) / den; got = float(pop.get_charac("frac0").vals[ti])
                vals = {"frac0": got, **{nm: float(pop.get_par(nm).vals[ti]) / k for nm in ("ra0", "out0") if any(p_["name"] == nm and p_.get("function") for p_ in rp["spec"]["pars"])}}
                print(f"index {ti}: quotient {want!r}  seen {vals}")
                alt = 0.0 if float(a[ti]) < 1e-6 * (1 + 1e-9) else want
                bad = bad or any(abs(v - want) > 1e-9 * max(1.0, abs(want)) and abs(v - alt) > 1e-9 * max(1.0, abs(alt)) for v in vals.values())
        print("FAILS" if bad else "passes")
        return 1 if bad else 0
    if rp.get("kind") in ("generated", "demo", "spec"):
        return params_corr.replay_params(ctx, PROPERTY, data)
    spec = rp["spec"]
    ts = build(spec)
    print("spec:", spec)
    print("stored: t=", ts.t, "vals=", ts.vals, "assumption=", ts.assumption)
    if "insert" in rp and rp["insert"] is None:
        bad = not strictly_increasing([Fraction(z) for z in ts.t])
        print("FAILS (stored times not strictly increasing)" if bad else "passes")
        return 1 if bad else 0
    if "insert" in rp and "method" not in rp:
        Y, w = rp["insert"][0], dec(rp["insert"][1])
        t0, v0 = list(ts.t), list(ts.vals)
        xs = [rp["x"]] if "x" in rp else rp["xs"]
        before, exc_b = call_impl(ts, xs, "previous", False)
        print("previous before:", before, exc_b)
        ts.insert(Y, w)
        t1, v1 = list(ts.t), list(ts.vals)
        print(f"after insert({Y!r},{w!r}): t=", t1, "vals=", v1)
        after, exc_a = call_impl(ts, xs, "previous", False)
        print("previous after: ", after, exc_a)
        print("model insert:", core.drive([f"series-insert {len(t0)}{''.join(f' {q(a)} {q(b)}' for a, b in zip(t0, v0))} {q(Y)} {q(w)}"]))
        want = sorted([(Fraction(a), b) for a, b in zip(t0, v0) if a != Y] + [(Fraction(Y), w)], key=lambda p: p[0])
        got = [(Fraction(a), b) for a, b in zip(t1, v1)]
        bad = not (len(want) == len(got) and all(a[0] == b[0] and (a[1] == b[1] or (isnan(a[1]) and isnan(b[1]))) for a, b in zip(want, got)))
        if bad:
            print("insert did not store (Y, w) in order / left another entry changed")
        pts, _, _ = clean_points(t0, v0)
        if before is not None and after is not None:
            for x, b, a in zip(xs, before, after):
                if Fraction(x) < Fraction(Y) and any(p[0] <= Fraction(x) for p in pts) and not (a == b or (isnan(a) and isnan(b))):
                    print(f"prefix law broken at t={x!r}: {b!r} -> {a!r}")
                    bad = True
        print("FAILS" if bad else "passes")
        return 1 if bad else 0
    xs = [rp["x"]] if "x" in rp else rp["xs"]
    method = rp["method"]
    out, exc = call_impl(ts, xs, method, rp.get("via_parameter", False))
    print("impl :", out, exc)
    print("model:", core.drive([request("interp-" + method, ts.t, ts.vals, ts.assumption, xs)]))
    pts, _, _ = clean_points(ts.t, ts.vals)
    exp = [expected(pts, len(ts.t) > 0, ts.assumption, x, method) for x in xs]
    print("property:", [(law, None if w is None else (w if w == "err" else float(w))) for law, w, _ in exp])
    bad = exc is not None and exp[0][1] != "err"
    if out is not None:
        bad = bad or any(not oracle_ok(law, w, sc, g) for (law, w, sc), g in zip(exp, out))
    print("FAILS" if bad else "passes")
    return 1 if bad else 0


if __name__ == "__main__":
    core.main(sys.modules[__name__])
