"""
C01 -- People are conserved: stocks change only by recorded flows.
Theorems: lean/AtomicaProofs/Properties/C01.lean about Atomica.Engine.step (AtomicaModel/Engine.lean).
Correspondence: mode B (vlib.engine_corr) on generated models; oracle: balance / junction pass-through / total on the Result arrays.
"""
import sys

from vlib import core, engine_corr

PROPERTY = "C01"
LEAN_MODS = ["AtomicaProofs.Properties.C01", "AtomicaProofs.Properties.C01Step"]
THEOREMS = [
    "Atomica.C01.timed_transfer_total",   # a timed link delivers exactly its total for any row-count mismatch
    "Atomica.C01.balance_normal",
    "Atomica.C01.balance_sink",
    "Atomica.C01.balance_timed",
    "Atomica.C01.step_balance",           # per compartment: next = current - recorded out + recorded in
    "Atomica.C01.junction_unchanged",
    "Atomica.C01.update_total",           # grand total changes only by source outflow
    # composition with C02 (flows_facts) and C04 (balance_chain): no hypothesis on the flow left
    "Atomica.C01.passthrough_of_rowwise",
    "Atomica.C01.step_good",
    "Atomica.C01.step_balance_model",     # one model step, per compartment, any well-formed net, any parameter values
    "Atomica.C01.step_junction_passthrough",
    "Atomica.C01.step_total",             # one model step, grand total
    "Atomica.C01.run_total",              # every reachable state (induction over the number of steps)
]
TRUSTED = ["floating-point cancellation in x - out + in (the theorem is exact; the code is compared to the exact step to 1e-11 relative)", "overflow to inf not modelled"]
RULE = "generated models (vlib.genfw.random_spec; regimes calibrated/extreme/boundary) run by the real Model; every step compared with one exact model step; non-trivial = model has a junction, timed compartment, transfer, source, active rescale, zero stock or negative parameter"
EXPECTED_BRANCHES = ["has.timed", "has.junction", "has.resjunction", "has.transfer", "has.source", "rescale.active", "has.timedlink", "flush.nonempty_junction"]


def focus(r):
    """a third of the models get duration groups with junctions inside them (several timed inflows, residual outflows): the row-wise balancing of a
    junction that belongs to a duration group is where people can be lost or duplicated without any untimed flow being wrong"""
    if r.random() < 0.35:
        f = {"timed": r.choice([1, 1, 2]), "max_rows": 12, "group_size": r.choice([2, 2, 3]), "n_tr_extra": r.choice([0, 2])}
        if r.random() < 0.6:
            f["jgroup"] = True
            f["residual"] = r.random() < 0.5
        else:
            f["group_junction"] = 1.0
        return f
    return {}


def run(ctx):
    engine_corr.selfcheck_ref(ctx, 2)
    engine_corr.run_stream(ctx, PROPERTY, ctx.n(120, 3000), focus=focus)


def replay(ctx, data):
    return engine_corr.replay_spec(ctx, PROPERTY, data)


if __name__ == "__main__":
    core.main(sys.modules[__name__])
