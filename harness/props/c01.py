"""
C01 -- People are conserved: stocks change only by recorded flows.
Theorems: lean/AtomicaProofs/Properties/C01.lean about Atomica.Engine.step (AtomicaModel/Engine.lean).
Correspondence: mode B (vlib.engine_corr) on generated models; oracle: balance / junction pass-through / total on the Result arrays.
"""
import sys

from vlib import core, engine_corr

PROPERTY = "C01"
LEAN_MODS = []
THEOREMS = []
TRUSTED = ["floating-point cancellation in x - out + in (the theorem is exact; the code is compared to the exact step to 1e-11 relative)", "overflow to inf not modelled"]
RULE = "generated models (vlib.genfw.random_spec; regimes calibrated/extreme/boundary) run by the real Model; every step compared with one exact model step; non-trivial = model has a junction, timed compartment, transfer, source, active rescale, zero stock or negative parameter"
EXPECTED_BRANCHES = ["has.timed", "has.junction", "has.resjunction", "has.transfer", "has.source", "rescale.active", "has.timedlink", "flush.nonempty_junction"]


def run(ctx):
    engine_corr.selfcheck_ref(ctx, 2)
    engine_corr.run_stream(ctx, PROPERTY, ctx.n(120, 3000))


if __name__ == "__main__":
    core.main(sys.modules[__name__])
