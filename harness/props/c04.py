"""
C04 -- Junctions are always empty and split their inflow by the stated proportions.
Theorems: lean/AtomicaProofs/Properties/C04.lean (+ Lemmas/Junctions.lean, Lemmas/JunctionFlush.lean) about
Atomica.Engine.balanceOne/balanceAll/updateComps/step/flushOne/flushAll (AtomicaModel/Engine.lean).
Correspondence: mode B (vlib.engine_corr) on junction-heavy generated models: every step of the real Model against one exact
model step (stages wf / nan / balance), the initial flush against `flushAll` (stage flush).
Oracles (on the implementation's own arrays): junction .vals == 0 at every index, out-link = inflow x normalised proportion
(plain / residual rule), in == out per junction (per row for duration-group junctions), and for the initial flush: total
preserved, only junctions and their direct destinations change.
"""
import sys

import numpy as np

from vlib import core, engine_corr, genfw

PROPERTY = "C04"
LEAN_MODS = ["AtomicaProofs.Properties.C04"]
THEOREMS = [
    "Atomica.C04.junction_unchanged",            # updateComps never writes a junction
    "Atomica.C04.run_junction_unchanged",        # ... along every run
    "Atomica.C04.junction_always_empty",         # flushAll then any run: every junction holds 0
    "Atomica.C04.junction_in_eq_out_every_step",
    "Atomica.C04.topoCheck_sound",               # wfCheck => jorder is a duplicate-free topological order of all junctions
    "Atomica.C04.balance_final",                 # each junction balanced once, on a final inflow; out-links final afterwards
    "Atomica.C04.balance_plain",                 # out_l = inflow * p_l / sum p   (final flow, row-wise)
    "Atomica.C04.balance_plain_sum",
    "Atomica.C04.balance_plain_zero",            # sum p = 0: defined only if nothing flows in, then nothing flows out
    "Atomica.C04.balance_residual_lt",
    "Atomica.C04.balance_residual_eq",
    "Atomica.C04.balance_residual_gt",
    "Atomica.C04.balance_zero_some",
    "Atomica.C04.balanceOne_writes_own_links",
    "Atomica.C04.balanceAll_passthrough",        # all junctions simultaneously: out = in in the final flow (also used by C01)
    "Atomica.C04.balanceAll_passthrough_of_pTot",
    "Atomica.C04.balance_chain",                 # the same for `step`, no hypothesis on the flow
    "Atomica.C04.step_rowsOk",
    "Atomica.C04.balanceAll_frame",
    "Atomica.C04.balanceAll_succeeds",
    "Atomica.C04.balanceOne_fails_iff",
    "Atomica.C04.flush_empties",
    "Atomica.C04.flush_total",
    "Atomica.C04.flushOne_only_dests",
    "Atomica.C04.flush_only_downstream",
    "Atomica.C04.flush_chain",
    "Atomica.C04.flush_noop_of_empty",
    "Atomica.C04.flush_noop_of_empty_jorder",
    "Atomica.C04.flush_idempotent",
    "Atomica.C04.flush_fails_of_zero",
    "Atomica.C04.wfCheck_not_passthrough",       # counterexample: wfCheck without resCheck does not give pass-through
]
TRUSTED = [
    "floating-point rounding in inflow*frac/total (theorems are exact; the code is compared with the exact step to 1e-11 relative)",
    "networkx.topological_sort is trusted to return some order; the order it returned is checked (wfCheck on every extracted net)",
    "parameter values of each step (data, functions, programs) are inputs of the model step",
]
RULE = ("junction-heavy generated models (vlib.genfw.random_spec with junction features: 1-4 junctions as chain / fan / diamond / random DAG, "
        "with and without residual link, proportions constant / time-varying / functions of state / program-driven, sum <1 =1 >1 with some zeros, "
        "junctions inside a duration group, junctions initialised through the databook) run by the real Model; every step compared with one "
        "exact model step and the initial flush with flushAll; non-trivial = the run has a junction (always, by construction) -- the distinct "
        "count is over (sub_seed, regime, features)")
EXPECTED_BRANCHES = [
    "has.junction", "has.resjunction", "junction.chain", "junction.diamond", "junction.fan", "junction.group", "junction.group_multirow",
    "res.lt1", "res.eq1", "res.gt1", "plain.lt1", "plain.gt1", "prop.zero_some", "prop.timevarying", "prop.function", "prop.program",
    "flush.nonempty_junction", "flush.through_chain", "flush.into_timed", "junction.inflow_positive",
]  # probe.double_residual_rejected / probe.double_residual_accepted: exactly one of the two is counted

REGIMES = ("calibrated", "boundary", "extreme", "calibrated", "boundary")


def focus(r):
    f = {"junctions": r.choice([1, 2, 2, 3, 4]), "jinit": 0.5, "jtv": 0.3, "jfunc": 0.25, "nsteps": r.randint(4, 12), "max_rows": 60}
    shape = r.choice([None, None, "chain", "fan", "diamond"])
    if shape:
        f["jshape"] = shape
        if shape == "diamond":
            f["junctions"] = 4
        elif shape == "chain":
            f["junctions"] = max(2, f["junctions"])
    if r.random() < 0.4:
        f["timed"] = r.choice([1, 1, 2])
        f["jgroup"] = True
    if r.random() < 0.3:
        f["progs"] = True
    if f["junctions"] >= 2 and (f["junctions"] + int(f["nsteps"])) % 3 == 0:
        f["jreverse"] = True
        f["residual"] = True
    return f


# ----------------------------------------------------------------------------------------------
# C04-specific oracles and coverage tags, added to the shared ones of vlib.engine_corr
# ----------------------------------------------------------------------------------------------
_base_oracles = engine_corr.oracles
_base_tags = engine_corr.nontrivial_features


def _outs(net, c):
    return [l for l in range(len(net["links"])) if net["src"][l] == c]


def _ins(net, c):
    return [l for l in range(len(net["links"])) if net["dst"][l] == c]


def c04_oracles(m, net):
    out, illposed = _base_oracles(m, net)
    from atomica import model as M

    kinds, links, comps = net["kinds"], net["links"], net["comps"]
    T = len(m.t)
    # ---- row-wise rule for duration-group junctions
    for c, comp in enumerate(comps):
        if kinds[c] not in "jr" or not net["jgroup"][c]:
            continue
        ins, outs = _ins(net, c), _outs(net, c)
        if not all(isinstance(links[l], M.TimedLink) for l in ins + outs):
            out.append(("C04", {"oracle": "group-junction-links"}, f"duration-group junction {comp.id} has a link that is not a TimedLink"))
            continue
        nr = max([links[l]._vals.shape[0] for l in ins + outs] or [1])

        def rows(l):
            v = np.asarray(links[l]._vals, dtype=float)
            if v.shape[0] == nr:
                return v
            z = np.zeros((nr, T))
            z[: v.shape[0]] = v
            return z

        inn = sum((rows(l) for l in ins), np.zeros((nr, T)))
        outv = sum((rows(l) for l in outs), np.zeros((nr, T)))
        if not (np.isfinite(inn).all() and np.isfinite(outv).all()):
            continue
        tol = 1e-9 * np.maximum(1.0, np.abs(inn))
        bad = np.abs(inn - outv) > tol
        if bad.any():
            r_, t_ = np.argwhere(bad)[0]
            out.append(("C04", {"oracle": "junction-passthrough-row"}, f"duration-group junction {comp.id} row {r_} index {t_}: in {inn[r_, t_]!r} != out {outv[r_, t_]!r}"))
        ps = [np.asarray(links[l].parameter.vals, dtype=float) if links[l].parameter is not None else np.zeros(T) for l in outs]
        psum = sum(ps) if ps else np.zeros(T)
        for l, pv_ in zip(outs, ps):
            with np.errstate(divide="ignore", invalid="ignore"):
                if kinds[c] == "j":
                    frac = np.where((psum == 0), 0.0, pv_ / np.where(psum == 0, 1, psum))
                else:
                    frac = np.where(psum < 1, (1 - psum), 0.0) if links[l].parameter is None else pv_ / np.where(psum > 1, psum, 1.0)
            expect = inn * frac[None, :]
            bad = np.abs(rows(l) - expect) > tol
            if kinds[c] == "j":
                bad &= ~((psum == 0) & (np.abs(inn).sum(axis=0) > 0))[None, :]  # outside the domain (NaN): handled by the finite oracle
            if bad.any():
                r_, t_ = np.argwhere(bad)[0]
                out.append(("C04", {"oracle": "junction-split-row", "residual": kinds[c] == "r"}, f"link {links[l].id} row {r_} index {t_}: {rows(l)[r_, t_]!r}, expected {expect[r_, t_]!r}"))
                break
    # ---- initial flush
    pre = getattr(m, "_verif_preflush", None)
    if pre and pre.get("stock"):
        before = pre["stock"]
        after = genfw.snapshot_stock(m, 0)
        pv0 = pre["pv"]
        finite = all(np.isfinite(v) for rows_ in before + after for v in rows_)
        juncs = [c for c in range(len(comps)) if kinds[c] in "jr"]
        p0 = {l: (pv0.get(links[l].parameter.id, 0.0) if links[l].parameter is not None else 0.0) for c in juncs for l in _outs(net, c)}
        domain = finite and all(v >= 0 for v in p0.values()) and all(before[c][0] >= 0 for c in juncs)
        if domain:
            # flush_empties
            for c in juncs:
                if after[c][0] != 0:
                    out.append(("C04", {"oracle": "flush-empties"}, f"junction {comps[c].id} holds {after[c][0]!r} after the initial flush (held {before[c][0]!r} before)"))
                    break
            # flush_only_downstream (exact)
            touched = set(juncs) | {net["dst"][l] for c in juncs for l in _outs(net, c)}
            for c in range(len(comps)):
                if c not in touched and before[c] != after[c]:
                    out.append(("C04", {"oracle": "flush-only-downstream"}, f"compartment {comps[c].id} is not downstream of a junction but changed in the initial flush: {before[c]} -> {after[c]}"))
                    break
            # flush_total: sum p != 0 for plain junctions (an empty junction without content is never divided)
            ok = True
            for c in juncs:
                if kinds[c] == "j" and sum(p0[l] for l in _outs(net, c)) == 0:
                    ok = False
                if kinds[c] == "r" and sum(1 for l in _outs(net, c) if links[l].parameter is None) != 1:
                    ok = False
            if ok:
                tb = sum(v for rows_ in before for v in rows_)
                ta = sum(v for rows_ in after for v in rows_)
                if abs(tb - ta) > 1e-9 * max(1.0, abs(tb)):
                    out.append(("C04", {"oracle": "flush-total"}, f"initial flush changed the number of people: {tb!r} -> {ta!r}"))
                # flush-split: the property's own rule, pushed through chains in a topological order computed here (Kahn)
                tot = [sum(rows_) for rows_ in before]
                indeg = {c: sum(1 for l in _ins(net, c) if net["src"][l] in juncs) for c in juncs}
                ready = sorted(c for c in juncs if indeg[c] == 0)
                order = []
                while ready:
                    c = ready.pop(0)
                    order.append(c)
                    for l in _outs(net, c):
                        d = net["dst"][l]
                        if d in indeg:
                            indeg[d] -= 1
                            if indeg[d] == 0:
                                ready.append(d)
                if len(order) == len(juncs):
                    for c in order:
                        v = tot[c]
                        if not v > 0:
                            continue
                        outs = _outs(net, c)
                        psum = sum(p0[l] for l in outs)
                        for l in outs:
                            if kinds[c] == "j":
                                frac = p0[l] / psum
                            elif links[l].parameter is None:
                                frac = (1 - psum) if psum < 1 else 0.0
                            else:
                                frac = p0[l] if psum < 1 else p0[l] / psum
                            tot[net["dst"][l]] += v * frac
                        tot[c] = 0.0
                    scale = max(1.0, abs(tb))
                    for c in range(len(comps)):
                        if abs(sum(after[c]) - tot[c]) > 1e-9 * scale:
                            out.append(("C04", {"oracle": "flush-split", "dest": kinds[c]}, f"after the initial flush compartment {comps[c].id} holds {sum(after[c])!r}; the stated split rule gives {tot[c]!r} (held {sum(before[c])!r} before)"))
                            break
    return out, illposed


def c04_tags(m, net):
    tags = _base_tags(m, net)
    kinds, links = net["kinds"], net["links"]
    T = len(m.t)
    juncs = [c for c in range(len(kinds)) if kinds[c] in "jr"]
    jj = [(net["src"][l], net["dst"][l]) for l in range(len(links)) if kinds[net["src"][l]] in "jr" and kinds[net["dst"][l]] in "jr"]
    if jj:
        tags.add("junction.chain")
    succ = {}
    for a, b in jj:
        succ.setdefault(a, set()).add(b)
    if any(len(v) >= 2 for v in succ.values()):
        tags.add("junction.fan")
    pred = {}
    for a, b in jj:
        pred.setdefault(b, set()).add(a)
    if any(len(v) >= 2 for v in pred.values()):
        tags.add("junction.diamond")
    for c in juncs:
        if net["jgroup"][c]:
            tags.add("junction.group")
            if any(net["lrows"][l] > 1 for l in _outs(net, c)):
                tags.add("junction.group_multirow")
        outs = _outs(net, c)
        ps = [np.asarray(links[l].parameter.vals, dtype=float) for l in outs if links[l].parameter is not None]
        if not ps:
            continue
        psum = sum(ps)
        kind = "res" if kinds[c] == "r" else "plain"
        if (psum < 1).any():
            tags.add(kind + ".lt1")
        if (psum == 1).any():
            tags.add(kind + ".eq1")
        if (psum > 1).any():
            tags.add(kind + ".gt1")
        if any(((p == 0) & (psum > 0)).any() for p in ps):
            tags.add("prop.zero_some")
        if any(len(set(p.tolist())) > 1 for p in ps):
            tags.add("prop.timevarying")
        for l in outs:
            par = links[l].parameter
            if par is not None and getattr(par, "fcn_str", None):
                tags.add("prop.function")
            if par is not None and m.programs_active and (par.name, par.pop.name) in m.progset.covouts:
                tags.add("prop.program")
        inflow = sum((np.asarray(links[l].vals, dtype=float) for l in _ins(net, c)), np.zeros(T))
        if (inflow > 0).any():
            tags.add("junction.inflow_positive")
    pre = getattr(m, "_verif_preflush", None)
    if pre and pre.get("stock"):
        st = pre["stock"]
        full = [c for c in juncs if st[c][0] > 0]
        if any(kinds[net["dst"][l]] in "jr" for c in full for l in _outs(net, c)):
            tags.add("flush.through_chain")
        if any(kinds[net["dst"][l]] == "t" for c in full for l in _outs(net, c)):
            tags.add("flush.into_timed")
    return tags


_base_compare_trace = engine_corr.compare_trace


def _exact_inflow_with_unit_proportions(m, net, t, zero_juncs):
    """The exact model's inflow into the junctions `zero_juncs` at index t: ask the driver for the same step with the proportions of those
    junctions replaced by 1 (so the step is defined); the flows into a junction do not depend on its own proportions."""
    from vlib.core import q

    pv = genfw.pv_at(net, t)
    for c in zero_juncs:
        for l in _outs(net, c):
            if net["par"][l] >= 0:
                pv[net["par"][l]] = 1.0
    stock = genfw.snapshot_stock(m, t)
    rq = f"estep {genfw.net_tokens(net)} {q(m.dt)} " + " ".join(q(v) for v in pv) + " " + " ".join(q(v) for rows in stock for v in rows)
    parsed = engine_corr.parse_step_reply(net, core.drive([rq])[0])
    if isinstance(parsed, str):
        return None
    mfl, _ = parsed
    return {c: sum(abs(v) for l in _ins(net, c) for v in mfl[l]) for c in zero_juncs}


def c04_compare_trace(ctx, spec, m, net, label):
    """
    Mode B with the one domain boundary of the balance stage made explicit: `JunctionCompartment.balance` takes the branch
    "nothing flows in" on `not np.any(net_inflow)` (exact comparison with 0).  When ALL proportions of a plain junction are 0 (outside the
    property's domain as soon as anybody arrives) and the inflow is floating-point dust on one side and exactly 0 on the other
    (implementation 1e-13 left by `x - out`, exact step 0  => implementation NaN, model 0;  or implementation underflow to 0.0, exact step
    1e-320 => implementation 0, model undefined), the difference is accepted either way and counted as ambiguous.  Both inflows are
    checked to be <= 1e-9 x stock: the implementation's on its arrays, the model's by an exact query.
    """
    brs = _base_compare_trace(ctx, spec, m, net, label)
    keep = []
    kinds, links = net["kinds"], net["links"]
    for b in brs:
        nan_vs_zero = b["stage"] in ("balance", "balance-timed", "nan") and "impl nan" in b["what"]
        undefined_vs_finite = b["stage"] == "nan" and "implementation flows are all finite" in b["what"]
        if nan_vs_zero or undefined_vs_finite:
            t = b["t"]
            scale = max(1.0, sum(abs(v) for rows in genfw.snapshot_stock(m, t) for v in rows if np.isfinite(v)))
            zero_juncs, impl_in = [], {}
            for c in range(len(kinds)):
                if kinds[c] != "j":
                    continue
                ps = sum(float(links[l].parameter.vals[t]) for l in _outs(net, c) if links[l].parameter is not None)
                if ps == 0:
                    zero_juncs.append(c)
                    inn = [float(np.abs(np.asarray(links[l]._vals[:, t] if net["tlink"][l] else links[l].vals[t])).sum()) for l in _ins(net, c)]
                    impl_in[c] = sum(v for v in inn if np.isfinite(v))
            model_in = _exact_inflow_with_unit_proportions(m, net, t, zero_juncs) if zero_juncs else None
            if model_in is not None:
                differ = [c for c in zero_juncs if (impl_in[c] == 0) != (model_in[c] == 0)]
                if differ and all(impl_in[c] <= 1e-9 * scale and model_in[c] <= 1e-9 * scale for c in differ):
                    ctx.ambiguous += 1
                    ctx.count("domain.dust_inflow_zero_proportions")
                    continue
        keep.append(b)
    return keep


engine_corr.oracles = c04_oracles
engine_corr.nontrivial_features = c04_tags
engine_corr.compare_trace = c04_compare_trace


def _par(name, fmt, val):
    return {"name": name, "format": fmt, "timescale": None, "function": None, "min": None, "max": None, "timed": False, "targetable": False, "databook": True, "value": {"pa": val}}


def double_residual_spec(p):
    """c0 -> j0 (probability 0.5); j0 -> c1 with proportion p; j0 -> c2 and j0 -> c3 BOTH marked as the residual outflow ('>')"""
    return {"comps": [{"name": "c0", "kind": "normal", "databook": True, "init": {"pa": 100.0}}] + [{"name": f"c{i}", "kind": "normal", "databook": True, "init": {"pa": 0.0}} for i in (1, 2, 3)] + [{"name": "j0", "kind": "junction"}],
            "characs": [], "pars": [_par("ra0", "probability", 0.5), _par("pr1", "proportion", p)],
            "transitions": [["c0", "j0", "ra0"], ["j0", "c1", "pr1"], ["j0", "c2", ">"], ["j0", "c3", ">"]], "pops": ["pa"], "transfers": [], "settings": [2000, 2003, 1.0]}


def probe_double_residual(ctx):
    """
    Hypothesis `resCheck` ("one residual link per residual junction") on an input the framework should refuse: the documentation defines the
    residual junction as 'all outflows except one have been specified'.  If the framework accepts two '>' outflows each of them receives the
    whole remainder and people are created.
    """
    import atomica as at

    for p in (0.2, 0.0):
        spec = double_residual_spec(p)
        key = {"probe": "double-residual", "p": p}
        try:
            m = genfw.run(spec, capture_preflush=True)
        except at.InvalidFramework:
            ctx.count("probe.double_residual_rejected")
            ctx.case(key, nontrivial=True)
            continue
        ctx.count("probe.double_residual_accepted")
        ctx.case(key, nontrivial=True)
        net = genfw.extract_net(m)
        ctx.hyp_checked += 1
        if core.drive([f"ewf {genfw.net_tokens(net)}"])[0] == "true":
            ctx.hyp_held += 1
        mine = [o for o in c04_oracles(m, net)[0] if o[0] == PROPERTY]
        if mine:
            ctx.violation({"api": "ProjectFramework._validate", "case": "two-residual-outflows", "oracle": mine[0][1]["oracle"]},
                          f"framework accepts a junction with two residual ('>') outflows; each receives the whole remainder: {mine[0][2]}",
                          {"spec": spec, "how": "vlib.genfw.run(spec); vlib.engine_corr.oracles -> junction in != out, people created"})


def probe_two_types(ctx):
    """
    Residual junctions in EVERY population type of a framework with several types: each junction must pass on its whole inflow (stated proportions + remainder
    through the '>' link) and must be emptied by the initial flush, whichever transition matrix its type belongs to.
    """
    from vlib import initgen
    from atomica.model import Model

    r = ctx.rng
    P = dict(timescale=None, function=None, min=None, max=None, timed=False, targetable=False, databook=True)
    for k in range(ctx.n(2, 12)):
        types = ["ta", "tb"]
        pops, pt_of = ["pa", "pb"], {"pa": "ta", "pb": "tb"}
        comps, pars, trans = [], [], []
        for t, pop, sfx in (("ta", "pa", "x"), ("tb", "pb", "y")):
            comps += [{"name": "c0" + sfx, "kind": "normal", "databook": True, "pop_type": t, "init": {pop: r.choice([100.0, 250.0])}},
                      {"name": "c1" + sfx, "kind": "normal", "databook": True, "pop_type": t, "init": {pop: r.choice([10.0, 40.0])}},
                      {"name": "j0" + sfx, "kind": "junction", "databook": True, "pop_type": t, "init": {pop: r.choice([0.0, 20.0])}}]
            pars += [dict(P, name="ra0" + sfx, format="rate", pop_type=t, value={pop: r.choice([0.2, 0.5])}), dict(P, name="pr0" + sfx, format="proportion", pop_type=t, value={pop: r.choice([0.3, 0.25, 0.0])})]
            trans += [["c0" + sfx, "j0" + sfx, "ra0" + sfx], ["j0" + sfx, "c0" + sfx, "pr0" + sfx], ["j0" + sfx, "c1" + sfx, ">"]]
        spec = {"comps": comps, "characs": [], "pars": pars, "transitions": trans, "pops": pops, "pop_types": types, "pop_type_of": pt_of, "transfers": [], "settings": [2000, 2003, r.choice([1.0, 0.5])]}
        key = {"probe": "residual-junction-in-every-population-type", "k": k}
        try:
            fw, data, parset, settings = initgen.build(spec)
            m = Model(settings, fw, parset)
            m.process()
        except Exception as e:
            ctx.brk("correspondence", f"two-type residual-junction model could not be run: {type(e).__name__}: {str(e)[:200]}", case=key, spec=spec)
            continue
        ctx.count("probe.two_types")
        ctx.case(key, nontrivial=True)
        for pop in m.pops:
            sfx = "x" if pop.name == "pa" else "y"
            j = pop.get_comp("j0" + sfx)
            jin = sum(np.asarray(l.vals, dtype=float) for l in j.inlinks)
            jout = sum(np.asarray(l.vals, dtype=float) for l in j.outlinks)
            n_out = len(j.outlinks)
            bad = None
            if n_out != 2:
                bad = f"junction {j.name} of population {pop.name} (type {pop.type}) has {n_out} outflow links; the framework states 2 (pr0{sfx} and the residual '>')"
            elif not np.allclose(jin[:-1], jout[:-1], rtol=1e-9, atol=1e-9):
                bad = f"junction {j.name} of population {pop.name}: inflow {jin[:-1].tolist()} but outflow {jout[:-1].tolist()}"
            elif np.any(np.abs(np.asarray(j.vals, dtype=float)) > 1e-12):
                bad = f"junction {j.name} of population {pop.name} is not empty: {np.asarray(j.vals).tolist()}"
            else:
                tot = sum(np.asarray(c.vals, dtype=float) for c in pop.comps)
                if not np.allclose(tot, tot[0], rtol=1e-9):
                    bad = f"population {pop.name}: total {tot.tolist()} changes although nobody enters or leaves (people put into the junction by the databook vanish)"
            if bad:
                ctx.violation({"api": "Population.__init__", "case": "residual-link-missing-in-later-population-type"}, bad, {"spec": spec, "how": "vlib.initgen.build(spec); Model(...).process(); junction inflow == outflow, junction empty, total constant"})
                break


def probe_explicit_init_junction(ctx):
    """People that an explicit initialization (ParameterSet.set_initialization / Initialization values) places in a junction are pushed downstream by the junction's
    proportions before the first step: the junction is empty at the first time point and nobody is lost."""
    from atomica.model import Model

    r = ctx.rng
    P = dict(timescale=None, function=None, min=None, max=None, timed=False, targetable=False, databook=True)
    for k in range(ctx.n(2, 8)):
        p0 = r.choice([0.25, 0.6])
        spec = {"comps": [{"name": "c0", "kind": "normal", "databook": True, "init": {"pa": 100.0}}, {"name": "c1", "kind": "normal", "databook": True, "init": {"pa": 10.0}},
                          {"name": "j0", "kind": "junction", "databook": True, "init": {"pa": 0.0}}],
                "characs": [], "pars": [dict(P, name="ra0", format="rate", value={"pa": 0.2}), dict(P, name="pr0", format="proportion", value={"pa": p0}), dict(P, name="pr1", format="proportion", value={"pa": 1 - p0})],
                "transitions": [["c0", "j0", "ra0"], ["j0", "c0", "pr0"], ["j0", "c1", "pr1"]], "pops": ["pa"], "transfers": [], "interactions": [], "settings": [2000, 2003, 1.0]}
        key = {"probe": "explicit-initialization-with-people-in-a-junction", "k": k}
        try:
            fw, data, parset, settings = genfw.build(spec)
            m0 = Model(settings, fw, parset); m0.process()
            import atomica as at
            res = at.Result(model=m0, parset=parset, name="first")
            parset.set_initialization(res, year=2001.0)
            add = r.choice([25.0, 7.5])
            jk = [kk for kk in parset.initialization.values if kk[0] == "j0"]
            if jk:
                parset.initialization.values[jk[0]] = add
            else:
                parset.initialization.values[("j0", "pa")] = add
            want_total = float(sum(np.sum(v) for v in parset.initialization.values.values()))
            m1 = Model(at.ProjectSettings(2001.0, 2003.0, 1.0), fw, parset); m1.process()
        except Exception as e:
            ctx.brk("correspondence", f"explicit-initialization model could not be run: {type(e).__name__}: {str(e)[:200]}", case=key, spec=spec)
            continue
        ctx.count("probe.explicit_init_junction")
        ctx.case(key, nontrivial=True)
        pop = m1.pops[0]
        j = float(np.asarray(pop.get_comp("j0").vals)[0])
        tot0 = float(sum(np.asarray(c.vals, dtype=float)[0] for c in pop.comps))
        if abs(j) > 1e-12 or abs(tot0 - want_total) > 1e-9 * max(1.0, want_total):
            ctx.violation({"api": "Initialization.apply", "case": "people-placed-in-a-junction"},
                          f"explicit initialization with {add} people in junction j0 (proportions {p0}/{1 - p0}): at the first time point the junction holds {j!r} and the population totals {tot0!r}; the initialization holds {want_total!r} people",
                          {"spec": spec, "how": "props/c04.probe_explicit_init_junction"})


def run(ctx):
    probe_double_residual(ctx)
    probe_explicit_init_junction(ctx)
    probe_two_types(ctx)
    engine_corr.selfcheck_ref(ctx, 2)
    engine_corr.run_stream(ctx, PROPERTY, ctx.n(120, 3000), regimes=REGIMES, focus=focus, workers=12)


def search(ctx, breaks):
    """
    Failing-input search for breaks that carry no concrete violation yet: a net that fails `wfCheck`/`resCheck` (e.g. a junction order that
    is not topological) is skipped by the stream before the oracles are evaluated -- regenerate those cases and evaluate the property's
    own predicates on the implementation's arrays.
    """
    import random as _random

    done = 0
    for b in breaks:
        case = b.get("case")
        if b.get("stage") != "wf" or not isinstance(case, dict) or "sub_seed" not in case or done >= 25:
            continue
        done += 1
        ctx.disagreements_checked += 1
        try:
            spec, m, _ = genfw.random_model(_random.Random(case["sub_seed"]), case["regime"], case["features"], capture_preflush=True)
        except RuntimeError:
            continue
        net = genfw.extract_net(m)
        for (p_, okey, what) in c04_oracles(m, net)[0]:
            if p_ == PROPERTY:
                ctx.violation({"api": "Model.process", **okey}, what, {"spec": spec, "case": case, "how": "vlib.genfw.run(spec) then props.c04.c04_oracles"})


def replay(ctx, data):
    """Re-run one recorded case: rebuild the model from the spec, evaluate the oracles and mode B; exit 1 if it still fails."""
    import atomica as at

    rp = data.get("replay", data)
    spec = rp["spec"]
    try:
        m = genfw.run(spec, capture_preflush=True)
    except at.InvalidFramework as e:
        print("input rejected by framework validation:", str(e)[:200])
        print("replay: passes")
        return 0
    net = genfw.extract_net(m)
    ors, illposed = c04_oracles(m, net)
    mine = [o for o in ors if o[0] == PROPERTY]
    brs = [b for b in engine_corr.compare_trace(ctx, spec, m, net, "replay") + engine_corr.compare_flush(ctx, m, net) if PROPERTY in engine_corr.STAGE_PROPS.get(b["stage"], set())]
    for o in mine:
        print("ORACLE FAILS:", o[1], o[2])
    for b in brs:
        print("MODE B DIFFERS:", b["stage"], b["what"])
    print("replay:", "FAILS" if (mine or brs) else "passes")
    return 1 if (mine or brs) else 0


if __name__ == "__main__":
    core.main(sys.modules[__name__])
