"""
C17 -- Sampled runs are independent draws, serial or parallel, and do not alter sources.

Model: lean/AtomicaModel/Protocol/Rng.lean (request kind `rng`); theorems: lean/AtomicaProofs/Properties/C17.lean.

Sections of `run`:
  series     TimeSeries.sample on generated series vs `rng series` (values, draws consumed, flag, error), source untouched
  sets       ParameterSet.sample / ProgramSet.sample on every library project (as is, with uncertainty, with explicit
             interaction outcomes written to and read back from a program book) vs `rng parset` / `rng progset`
  schedules  mode E on both real entry points (Project.run_sampled_sims -> utils.parallel_progress pool;
             Ensemble.run_sims -> sc.parallelize): who ran which sample is recorded from inside the workers, fed to
             `rng sched`; pairwise distinctness of sampled inputs and of results; exact block bookkeeping of the serial
             loop incl. retries (`rng retry`); deep snapshots of the sources; sigma in {0, None} == unsampled run
The comparison is against the specification-shaped model (reseeded workers, total Covout.sample); the faithful
`...Current` model (inherited generator state, AttributeError) is evaluated as well and must explain every failure exactly.
"""
import hashlib
import multiprocessing
import multiprocessing.connection
import os
import random
import sys
import time
import traceback
from fractions import Fraction

import numpy as np

from vlib import core
from vlib.core import q

PROPERTY = "C17"
LEAN_MODS = ["AtomicaProofs.Properties.C17"]
THEOREMS = [
    "Atomica.C17.serial_distinct_blocks",
    "Atomica.C17.serial_allDistinct",
    "Atomica.C17.serial_segments_disjoint",
    "Atomica.C17.parallel_reseeded_slots",
    "Atomica.C17.parallel_reseeded_distinct",
    "Atomica.C17.reseeded_allDistinct",
    "Atomica.C17.parallel_inherited_collides",
    "Atomica.C17.inherited_not_allDistinct",
    "Atomica.C17.inherited_collision_iff",
    "Atomica.C17.series_zero_sigma",
    "Atomica.C17.sample_zero_sigma",
    "Atomica.C17.sample_total",
    "Atomica.C17.sampleCurrent_fails",
    "Atomica.C17.sampleCurrent_eq_sample",
    "Atomica.C17.distinct_draws_distinct_samples",
    "Atomica.C17.nDraws_structural",
    "Atomica.C17.retry_result",
    "Atomica.C17.retry_exhausted",
    "Atomica.C17.retry_fresh_draws",
    "Atomica.C17.serialRuns_sorted",
]
TRUSTED = [
    "generator property assumed by parallel_reseeded_distinct / distinct_draws_distinct_samples: different (state, position) give draws that differ in every coordinate (evaluated on the real numpy draws of every run: hypotheses_checked)",
    "OS scheduler, fork(), entropy source used for reseeding: runtime, observed not modelled; 'independent' is modelled as 'reads a different stream segment'",
    "harness/props/c17_probe.py (Project subclass recording pid / call order / sampled inputs from inside the workers)",
    "sources-unchanged is an oracle only (deep structural snapshot), the functional model cannot express mutation",
]
ASSUMPTIONS = [
    "multiprocessing start method 'fork' (Linux default; what atomica's pools use here): workers are copies of the parent at pool creation",
    "a sampled simulation is a deterministic function of the generator state it starts from (so 'the j-th task of a worker' names a stream segment even with retries)",
    "library projects 'sir' and 'combined' do not load under the installed pandas (baseline failure unrelated to sampling): their program books are not exercised",
]
RULE = (
    "series: generated TimeSeries (0-5 values incl. 0/1/tiny/large, assumption or not, sigma None/0/tiny/positive, constant or per-point, "
    "already-sampled), non-trivial = sigma>0 with data or the already-sampled error; sets: every library project x {as is, random "
    "None/0/positive sigmas, explicit interactions via a written+reloaded program book} x constant, non-trivial = at least one draw consumed; "
    "schedules: project x entry point x serial/parallel x workers x sample count 2..32 x prior generator state x sigma layout (all, mixed, "
    "exactly one uncertain quantity, none) x forced/real bad initialisations, non-trivial = at least two samples with uncertainty and "
    "(at least two workers used, or a retry happened, or serial exact-block check)"
)
EXPECTED_BRANCHES = [
    "series.sigma_none", "series.sigma_zero", "series.sigma_pos", "series.per_point", "series.already_sampled",
    "sets.parset", "sets.progset", "sets.progset_interactions", "sets.library_book",
    "sched.serial", "sched.parallel.multi_worker", "sched.parallel.one_worker", "sched.ensemble.parallel", "sched.ensemble.serial",
    "sched.retry", "sched.exhausted", "sched.zero_sigma", "sched.saved_initialization", "sched.one_uncertain", "sched.progset", "sched.multi_instructions",
]

TOL = 4.5e-16  # two roundings (sigma*z, v+delta) relative to max(|v|, |sigma*z|, |result|)

LIB_ALL = ["cervicalcancer", "combined", "diabetes", "hiv", "hiv_dyn", "hypertension", "hypertension_dyn", "sir", "tb", "tb_simple", "tb_simple_dyn", "udt", "udt_dyn", "usdt"]
SMALL = ["tb_simple", "udt", "hiv", "usdt", "hypertension"]

PROJECTS = {}  # name -> loaded demo project (filled in the parent before forking)


# ----------------------------------------------------------------------------------------------
# generic helpers
# ----------------------------------------------------------------------------------------------
def wopt(x):
    return "none" if x is None else q(x)


def wlist(xs):
    xs = list(xs)
    return str(len(xs)) + "".join(" " + q(x) for x in xs)


def wseries(ts):
    return f"{wopt(ts.sigma)} {wopt(ts.assumption)} {int(bool(ts._sampled))} {wlist(ts.vals)}"


class Toks:
    def __init__(self, s):
        self.t = s.split()
        self.i = 0

    def next(self):
        x = self.t[self.i]
        self.i += 1
        return x

    def nat(self):
        return int(self.next())

    def opt(self):
        x = self.next()
        return None if x == "none" else Fraction(x)

    def rats(self):
        n = self.nat()
        return [Fraction(self.next()) for _ in range(n)]

    def series(self):
        sg = self.opt()
        a = self.opt()
        f = self.next() == "1"
        return {"sigma": sg, "assumption": a, "sampled": f, "vals": self.rats()}

    def covout(self):
        sg = self.opt()
        return {"sigma": sg, "progs": self.rats(), "inter": self.rats()}

    def done(self):
        return self.i == len(self.t)


def snap(o, memo=None, depth=0):
    """Deep structural snapshot (canonical nested tuples; floats by bit pattern, arrays by bytes, objects by attributes)."""
    import pandas as pd

    if memo is None:
        memo = {}
    if o is None or isinstance(o, (bool, int, str, bytes)):
        return o
    if isinstance(o, float):
        return ("f", o.hex())
    if isinstance(o, np.generic):
        return ("np", str(o.dtype), snap(o.item(), memo, depth + 1))
    if isinstance(o, np.ndarray):
        if o.dtype == object:
            return ("nd", "O", o.shape, tuple(snap(x, memo, depth + 1) for x in o.ravel()))
        return ("nd", o.dtype.str, o.shape, o.tobytes())
    if isinstance(o, (pd.DataFrame, pd.Series)):
        return ("pd", type(o).__name__, o.to_json())
    if id(o) in memo:
        return ("ref", memo[id(o)])
    if isinstance(o, dict):
        memo[id(o)] = len(memo)
        return ("d", type(o).__name__, tuple((snap(k, memo, depth + 1), snap(v, memo, depth + 1)) for k, v in o.items()))
    if isinstance(o, (list, tuple)):
        memo[id(o)] = len(memo)
        return ("l", type(o).__name__, tuple(snap(x, memo, depth + 1) for x in o))
    if isinstance(o, (set, frozenset)):
        return ("s", tuple(sorted(repr(snap(x, memo, depth + 1)) for x in o)))
    if callable(o) and not hasattr(o, "__dict__"):
        return ("fn", getattr(o, "__qualname__", repr(type(o))))
    memo[id(o)] = len(memo)
    state = {}
    if hasattr(o, "__dict__"):
        state.update(o.__dict__)
    for cls in type(o).__mro__:
        for s in getattr(cls, "__slots__", ()):
            if hasattr(o, s):
                state[s] = getattr(o, s)
    if not state and not hasattr(o, "__dict__"):
        return ("r", repr(o))
    return ("o", type(o).__qualname__, tuple((k, snap(v, memo, depth + 1)) for k, v in sorted(state.items())))


def snap_diff(a, b, path="$"):
    """first path at which two snapshots differ (None if equal)"""
    if a == b:
        return None
    if isinstance(a, tuple) and isinstance(b, tuple) and a and b and a[0] == b[0] and len(a) == len(b):
        tag = a[0]
        if tag in ("d", "o") and a[1] == b[1] and len(a[2]) == len(b[2]):
            for (ka, va), (kb, vb) in zip(a[2], b[2]):
                if ka != kb:
                    return f"{path}: key {str(ka)[:40]} != {str(kb)[:40]}"
                d = snap_diff(va, vb, f"{path}.{ka if isinstance(ka, str) else str(ka)[:30]}")
                if d:
                    return d
        elif tag == "l" and a[1] == b[1] and len(a[2]) == len(b[2]):
            for i, (x, y) in enumerate(zip(a[2], b[2])):
                d = snap_diff(x, y, f"{path}[{i}]")
                if d:
                    return d
        elif tag == "f":
            return f"{path}: {float.fromhex(a[1])!r} != {float.fromhex(b[1])!r}"
    return f"{path}: {str(a)[:50]} != {str(b)[:50]}"


def digest(x) -> str:
    return hashlib.sha1(repr(x).encode()).hexdigest()[:16]


def run_many(fn, args_list, k, timeout=900):
    """Run fn(arg) for every arg in forked, non-daemonic children (they may create pools), at most k at a time."""
    mp = multiprocessing.get_context("fork")
    results = [None] * len(args_list)
    pending = list(enumerate(args_list))
    running = {}

    def child(conn, arg):
        try:
            out = fn(arg)
        except BaseException:
            out = {"error": traceback.format_exc()[-3000:]}
        try:
            conn.send(out)
        finally:
            conn.close()
            sys.stdout.flush()
            # a call that raised may leave its pool behind; this child exits without atexit handlers, so reap the workers here
            for lib in ("multiprocessing", "multiprocess"):
                try:
                    for p in __import__(lib).active_children():
                        p.terminate()
                except Exception:
                    pass
            os._exit(0)

    while pending or running:
        while pending and len(running) < k:
            i, arg = pending.pop(0)
            a, b = mp.Pipe(duplex=False)
            p = mp.Process(target=child, args=(b, arg))
            p.daemon = False
            p.start()
            b.close()
            running[a] = (i, p, time.time())
        ready = multiprocessing.connection.wait(list(running), timeout=5)
        for conn in ready:
            i, p, _ = running.pop(conn)
            try:
                results[i] = conn.recv()
            except EOFError:
                results[i] = {"error": "child died without a result"}
            conn.close()
            p.join(30)
        for conn, (i, p, t0) in list(running.items()):
            if time.time() - t0 > timeout:
                p.kill()
                running.pop(conn)
                results[i] = {"error": f"timeout after {timeout}s", "timeout": True}
    return results


def load_project(name):
    import atomica as at

    return at.demo(name, do_run=False)


def ensure_projects(names):
    for n in names:
        if n not in PROJECTS:
            PROJECTS[n] = load_project(n)


# ----------------------------------------------------------------------------------------------
# uncertainty layouts
# ----------------------------------------------------------------------------------------------
def all_series(ps, pg):
    """every TimeSeries sampling may touch, in the order the code samples them"""
    from props import c17_probe as pr

    out = [ts for _, _, ts in pr.flat_parset(ps)]
    if pg is not None:
        for prog in pg.programs.values():
            out.extend(getattr(prog, a) for a in pr.SERIES_ATTRS)
    return out


def assign_sigmas(ps, pg, rnd, mode, scale):
    """mode: all | mixed | one | zero | none ;  returns number of uncertain (sigma>0, with data) quantities"""
    from props import c17_probe as pr

    series = all_series(ps, pg)
    covs = list(pg.covouts.values()) if pg is not None else []
    with_data = [ts for ts in series if ts.has_data]
    the_one = rnd.choice(with_data) if with_data else None

    def pos(ts_vals):
        ref = abs(ts_vals[0]) if ts_vals and ts_vals[0] != 0 else 1.0
        return scale * ref * rnd.choice([0.5, 1.0, 2.0])

    n_unc = 0
    for ts in series:
        vals = pr.series_values(ts)
        if mode == "all":
            ts.sigma = pos(vals)
        elif mode == "mixed":
            ts.sigma = rnd.choice([None, 0.0, 0, pos(vals), pos(vals)])
        elif mode == "one":
            ts.sigma = pos(vals) if ts is the_one else rnd.choice([None, 0.0])
        elif mode == "zero":
            ts.sigma = rnd.choice([None, 0.0, 0])
        else:
            ts.sigma = None
        if ts.sigma and ts.has_data:
            n_unc += 1
    if mode == "mixed" and n_unc == 0 and the_one is not None:
        the_one.sigma = pos(pr.series_values(the_one))
        n_unc = 1
    for c in covs:
        if mode == "all":
            c.sigma = scale * rnd.choice([0.5, 1.0, 2.0])
        elif mode == "mixed":
            c.sigma = rnd.choice([None, 0.0, scale, 2 * scale])
        elif mode in ("zero", "one"):
            c.sigma = rnd.choice([None, 0.0])
        else:
            c.sigma = None
        if c.sigma and (len(c.progs) or pr.covout_interactions(c)):
            n_unc += 1
    return n_unc


def with_interactions(P, pg, rnd, sigma):
    """explicit interaction outcomes on every covout with >= 2 programs, through a written and re-read program book"""
    import atomica as at

    n = 0
    for k, c in list(pg.covouts.items()):
        names = list(c.progs.keys())
        if len(names) < 2:
            continue
        combos = [rnd.sample(names, 2)]
        if len(names) >= 3 and rnd.random() < 0.5:
            combos.append(rnd.sample(names, 3))
        toks = []
        for combo in combos:
            vals = [c.progs[x] for x in combo]
            toks.append("%s=%.4f" % ("+".join(combo), max(vals) + 0.25 * (max(vals) - min(vals)) + 0.01))
        pg.covouts[k] = at.programs.Covout(par=c.par, pop=c.pop, progs=dict(c.progs), cov_interaction=c.cov_interaction, imp_interaction=",".join(toks), uncertainty=sigma, baseline=c.baseline)
        n += 1
    ss = pg.to_spreadsheet()
    pg2 = at.ProgramSet.from_spreadsheet(ss, framework=P.framework, data=P.data)
    return pg2, n


# ----------------------------------------------------------------------------------------------
# section 1: TimeSeries.sample vs `rng series`
# ----------------------------------------------------------------------------------------------
def gen_series(r):
    n = r.choice([0, 0, 1, 1, 2, 3, 5])
    pool = [0.0, 1.0, 0.5, 1e-9, 532005.0, -2.5, 0.015, 1e6, 0.2]
    vals = [r.choice(pool + [r.random(), r.uniform(-10, 1e4)]) for _ in range(n)]
    t = sorted(r.sample(range(2000, 2030), n))
    assumption = r.choice([None, None, 0.0, 1.0, r.random(), 372577.0])
    sigma = r.choice([None, None, 0.0, 0, 1e-12, 0.05, 1.0, r.random() * 10, 1234.5])
    return {"kind": "series", "t": t, "vals": vals, "units": r.choice([None, "probability"]), "assumption": assumption, "sigma": sigma,
            "constant": r.random() < 0.5, "twice": r.random() < 0.08, "S": r.randrange(2**31)}


def eval_series(ctx, cases):
    """TimeSeries.sample on every case vs `rng series`, plus the direct oracles"""
    import atomica as at

    reqs, impl = [], []
    for c in cases:
        ts = at.TimeSeries(t=c["t"], vals=c["vals"], units=c["units"], assumption=c["assumption"], sigma=c["sigma"])
        constant, S = c["constant"], c["S"]
        src = ts
        if c["twice"]:
            np.random.seed(S ^ 0x5A5A)
            src = ts.sample(constant)  # a sampled copy: sampling it again must raise (if it had data)
        before = snap(src)
        vals_id = id(src.vals)
        K = len(src.vals) + 4
        z = np.random.RandomState(S).randn(K)
        np.random.seed(S)
        out = {"src": src, "constant": constant, "S": S, "case": c, "z": z}
        try:
            new = src.sample(constant)
            nxt = np.random.randn()
            hits = [k for k in range(K) if z[k] == nxt]
            out.update(new=new, consumed=hits[0] if hits else None)
        except Exception as e:
            out.update(exc=f"{type(e).__name__}: {e}")
        out["unchanged"] = snap(src) == before and id(src.vals) == vals_id
        reqs.append(f"rng series {int(constant)} {wseries(src)} z {wlist(z)}")
        impl.append(out)
    reps = core.drive(reqs)
    for out, rep in zip(impl, reps):
        src, constant, replay = out["src"], out["constant"], out["case"]
        key = {"api": "TimeSeries.sample", "constant": constant, "sigma": src.sigma, "n": len(src.vals), "assumption": src.assumption is not None, "sampled": src._sampled}
        vkey = {"api": "TimeSeries.sample", "constant": constant, "sigma_kind": "none" if src.sigma is None else ("zero" if src.sigma == 0 else "positive")}
        uncertain = bool(src.sigma) and src.has_data
        ctx.case({**key, "S": out["S"]}, nontrivial=uncertain or src._sampled)
        ctx.count("series.sigma_none" if src.sigma is None else ("series.sigma_zero" if src.sigma == 0 else "series.sigma_pos"))
        if not constant and src.sigma is not None and src.vals:
            ctx.count("series.per_point")
        problems = []
        if not out["unchanged"]:
            ctx.violation({**vkey, "defect": "source-mutated"}, "TimeSeries.sample altered the series it was called on", replay)
            continue
        if rep.startswith("err"):
            if rep == "err already-sampled":
                ctx.count("series.already_sampled")
            if "exc" not in out or (rep == "err already-sampled" and "already been performed" not in out["exc"]):
                problems.append(f"model {rep!r}, implementation {'returned a series' if 'exc' not in out else out['exc']}")
        elif "exc" in out:
            ctx.violation({**vkey, "defect": "exception"}, f"TimeSeries.sample raised {out['exc']} where sampling is defined", replay)
            continue
        else:
            tk = Toks(rep)
            assert tk.next() == "ok"
            consumed = tk.nat()
            m = tk.series()
            new = out["new"]
            # ---- direct oracles (the property's own wording, on the implementation's output)
            if not src.sigma and (list(new.vals) != list(src.vals) or new.assumption != src.assumption):
                ctx.violation({**vkey, "defect": "zero-sigma-changed"}, f"sigma={src.sigma!r} but the sampled series {new.vals}/{new.assumption} differs from the source {src.vals}/{src.assumption}", replay)
                continue
            allv = [abs(x) for x in list(src.vals) + ([src.assumption] if src.assumption is not None else [])]
            visible = uncertain and abs(float(src.sigma) * out["z"][0]) > 8 * float(np.spacing(max(allv)))  # the perturbation is above float resolution
            if visible and list(new.vals) == list(src.vals) and new.assumption == src.assumption:
                ctx.violation({**vkey, "defect": "uncertain-not-perturbed"}, f"sigma={src.sigma!r} on a series with data ({src.vals}/{src.assumption}) but the sample equals the source: every sample of it is the same", replay)
                continue
            # ---- correspondence
            if consumed != out["consumed"]:
                problems.append(f"draws consumed: model {consumed}, implementation {out['consumed']}")
            if new is src or new.vals is src.vals:
                problems.append("sample is not a copy")
            if list(new.t) != list(src.t) or new.units != src.units or new.sigma != src.sigma:
                problems.append("t/units/sigma of the copy differ from the source")
            if bool(new._sampled) != m["sampled"]:
                problems.append(f"_sampled flag {new._sampled} vs model {m['sampled']}")
            if len(new.vals) != len(m["vals"]) or (new.assumption is None) != (m["assumption"] is None):
                problems.append("shape of the copy differs from the model")
            else:
                sg = abs(float(src.sigma)) if src.sigma else 0.0
                zmax = float(np.max(np.abs(out["z"]))) if len(out["z"]) else 0.0
                for a, b, v in zip(m["vals"] + ([m["assumption"]] if m["assumption"] is not None else []), list(new.vals) + ([new.assumption] if new.assumption is not None else []), list(src.vals) + ([src.assumption] if src.assumption is not None else [])):
                    if sg == 0.0:
                        ok = float(b) == float(v) and a == Fraction(float(v))
                    else:
                        ok = core.close(a, b, scale=max(abs(v), sg * zmax), rtol=TOL)
                    if not ok:
                        problems.append(f"value {b!r} vs model {float(a)!r} (source {v!r})")
                        break
            ctx.traces += 1
        if problems:
            ctx.disagreements_checked += 1
            ctx.brk("correspondence", f"TimeSeries.sample vs model: {problems[0]}", case=replay)


def run_series(ctx):
    eval_series(ctx, [gen_series(ctx.rng) for _ in range(ctx.n(600, 12000))])


# ----------------------------------------------------------------------------------------------
# section 2: ParameterSet.sample / ProgramSet.sample on library projects vs `rng parset` / `rng progset`
# ----------------------------------------------------------------------------------------------
def sets_child(arg):
    """runs in a forked child: load one library project, evaluate the variants, return wire requests + implementation values"""
    import atomica as at
    import sciris as sc
    from props import c17_probe as pr

    name, seed, variants = arg
    try:
        P = load_project(name)
    except Exception as e:
        return {"name": name, "load_error": f"{type(e).__name__}: {str(e)[:120]}"}
    out = {"name": name, "cases": []}
    for variant in variants:
        variant = tuple(variant)
        mode, inter, constant = variant
        rnd = random.Random(f"{seed}|{variant}")
        ps = sc.dcp(P.parsets[0])
        pg = sc.dcp(P.progsets[0])
        case = {"variant": variant, "name": name, "seed": seed}
        n_int = 0
        if inter:
            try:
                pg, n_int = with_interactions(P, pg, rnd, 0.05)
            except Exception as e:
                case["book_error"] = f"{type(e).__name__}: {e}"
                out["cases"].append(case)
                continue
        n_unc = assign_sigmas(ps, pg, rnd, mode, 0.02)
        if inter:
            for c in pg.covouts.values():
                if pr.covout_interactions(c):
                    # zero mode: an uncertainty of exactly 0 is ENTERED (not blank), so Covout.sample runs its perturbation code with sigma 0
                    c.sigma = 0.0 if mode == "zero" else (rnd.choice([0.05, 0.01, 0.0, None]) if mode != "all" else 0.05)
        case["n_int"] = n_int
        case["n_unc"] = n_unc
        S = rnd.randrange(2**31)
        case["S"] = S
        flat = pr.flat_parset(ps)
        ndr_max = sum(2 + len(ts.vals) for _, _, ts in flat)
        gseries = [getattr(prog, a) for prog in pg.programs.values() for a in pr.SERIES_ATTRS]
        gdr_max = sum(2 + len(ts.vals) for ts in gseries) + sum(len(c.progs) + len(pr.covout_interactions(c)) for c in pg.covouts.values())
        # ---- parset
        z = np.random.RandomState(S).randn(ndr_max + gdr_max + 4)
        b0 = snap(ps)
        np.random.seed(S)
        try:
            sp = ps.sample(constant)
            nxt = np.random.randn()
            hits = [k for k in range(len(z)) if z[k] == nxt]
            case["par_consumed"] = hits[0] if hits else None
            case["par_new"] = [(ts.sigma, ts.assumption, bool(ts._sampled), list(ts.vals)) for _, _, ts in pr.flat_parset(sp)]
            case["par_keys"] = [(a, str(b)) for a, b, _ in pr.flat_parset(sp)] == [(a, str(b)) for a, b, _ in flat]
            case["par_copy"] = sp is not ps and all(x is not y for (_, _, x), (_, _, y) in zip(pr.flat_parset(sp), flat))
            try:
                sp.sample(constant)
                case["par_resample"] = "ok"
            except Exception as e:
                case["par_resample"] = str(e)
        except Exception as e:
            case["par_exc"] = f"{type(e).__name__}: {e}"
        case["par_unchanged"] = snap_diff(b0, snap(ps))
        case["par_src"] = [(ts.sigma, ts.assumption, list(ts.vals)) for _, _, ts in flat]
        case["par_req"] = f"rng parset {int(constant)} {len(flat)}" + "".join(" " + wseries(ts) for _, _, ts in flat) + " z " + wlist(z[: ndr_max + 2])
        case["zmax"] = float(np.max(np.abs(z)))
        # ---- progset
        g0 = snap(pg)
        body = f"{int(constant)} {len(pg.programs)}" + "".join(" " + wseries(ts) for ts in gseries) + f" {len(pg.covouts)}" + "".join(f" {wopt(c.sigma)} {wlist(c.progs.values())} {wlist(pr.covout_interactions(c).values())}" for c in pg.covouts.values()) + " z " + wlist(z[: gdr_max + 2])
        case["prog_req"] = "rng progset " + body
        case["prog_req_current"] = "rng progset-current " + body
        case["prog_src"] = {"series": [(ts.sigma, ts.assumption, list(ts.vals)) for ts in gseries], "cov": [(c.sigma, list(c.progs.values()), list(pr.covout_interactions(c).values()), c.baseline) for c in pg.covouts.values()]}
        np.random.seed(S)
        try:
            sg = pg.sample(constant)
            nxt = np.random.randn()
            hits = [k for k in range(len(z)) if z[k] == nxt]
            case["prog_consumed"] = hits[0] if hits else None
            case["prog_new"] = {
                "series": [(ts.sigma, ts.assumption, bool(ts._sampled), list(ts.vals)) for prog in sg.programs.values() for ts in (getattr(prog, a) for a in pr.SERIES_ATTRS)],
                "cov": [(c.sigma, list(c.progs.values()), list(pr.covout_interactions(c).values())) for c in sg.covouts.values()],
            }
            case["prog_copy"] = sg is not pg and all(x is not y for x, y in zip(sg.covouts.values(), pg.covouts.values()))
            # the cache every simulation reads must reflect the perturbed outcomes
            bad_cache = None
            for c in sg.covouts.values():
                if sorted(c._cached_progs.values()) != sorted(c.progs.values()) or not np.array_equal(np.sort(np.asarray(c._deltas, dtype=float)), np.sort(np.array([v - c.baseline for v in c.progs.values()], dtype=float))):
                    bad_cache = f"{c.par}/{c.pop}"
            case["prog_cache"] = bad_cache
        except Exception as e:
            case["prog_exc"] = f"{type(e).__name__}: {e}"
        case["prog_unchanged"] = snap_diff(g0, snap(pg))
        out["cases"].append(case)
    return out


def cmp_series_list(model, new, src, zmax):
    """model: list of parsed series dicts; new: [(sigma, assumption, sampled, vals)], src: [(sigma, assumption, vals)]"""
    if len(model) != len(new):
        return f"{len(new)} series vs model {len(model)}"
    for i, (m, n, s) in enumerate(zip(model, new, src)):
        sg = abs(float(s[0])) if s[0] else 0.0
        if n[0] != s[0]:
            return f"series {i}: sigma of the copy {n[0]!r} != source {s[0]!r}"
        if bool(n[2]) != m["sampled"]:
            return f"series {i}: _sampled {n[2]} vs model {m['sampled']}"
        mv = m["vals"] + ([m["assumption"]] if m["assumption"] is not None else [])
        nv = list(n[3]) + ([n[1]] if n[1] is not None else [])
        sv = list(s[2]) + ([s[1]] if s[1] is not None else [])
        if len(mv) != len(nv):
            return f"series {i}: shape differs"
        for a, b, v in zip(mv, nv, sv):
            if sg == 0.0:
                ok = float(b) == float(v)
            else:
                ok = core.close(a, b, scale=max(abs(v), sg * zmax), rtol=TOL)
            if not ok:
                return f"series {i}: value {b!r} vs model {float(a)!r} (source {v!r}, sigma {s[0]!r})"
    return None


def run_sets(ctx):
    r = ctx.rng
    variants_quick = [("none", False, True), ("mixed", False, True), ("all", False, False), ("all", True, True), ("mixed", True, False), ("zero", True, True)]
    variants = variants_quick if ctx.quick else variants_quick + [("mixed", False, False), ("one", False, True), ("zero", False, False), ("zero", True, False), ("all", True, False), ("mixed", True, True), ("one", True, False)]
    reps_n = ctx.n(1, 4)
    args = [(name, r.randrange(2**31), variants) for name in LIB_ALL for _ in range(reps_n)]
    eval_sets(ctx, run_many(sets_child, args, k=ctx.n(12, 14)))


def unperturbed(new_series, src_series, new_cov=(), src_cov=()):
    """first uncertain quantity (sigma > 0, with data) whose sample equals the source, or None"""
    for i, (n, s) in enumerate(zip(new_series, src_series)):
        ref = max([abs(x) for x in list(s[2]) + ([s[1]] if s[1] is not None else [])] + [1e-300])
        if s[0] and s[0] > 1e-9 * ref and (list(s[2]) or s[1] is not None) and list(n[3]) == list(s[2]) and n[1] == s[1]:
            return f"series {i} (sigma {s[0]!r}, values {list(s[2])[:3]}, assumption {s[1]!r})"
    for j, (n, s) in enumerate(zip(new_cov, src_cov)):
        if s[0] and s[0] > 1e-9 and (list(s[1]) + list(s[2])) and list(n[1]) == list(s[1]) and list(n[2]) == list(s[2]):
            return f"covout {j} (sigma {s[0]!r}, outcomes {list(s[1])[:3]})"
    return None


def eval_sets(ctx, outs):
    reqs = []
    index = []
    for out in outs:
        if "error" in out:
            raise RuntimeError("sets child failed:\n" + out["error"])
        if "load_error" in out:
            ctx.count("sets.library_unloadable." + out["name"])
            ctx.notes.append(f"library project {out['name']} cannot be loaded in this environment ({out['load_error']}); its program book is not exercised")
            continue
        for case in out["cases"]:
            if "book_error" in case:
                ctx.brk("correspondence", f"could not write/read a program book with interactions for {case['name']}: {case['book_error']}")
                continue
            index.append(case)
            reqs += [case["par_req"], case["prog_req"], case["prog_req_current"]]
    reps = core.drive(reqs)
    for i, case in enumerate(index):
        rp, rg, rgc = reps[3 * i : 3 * i + 3]
        name, variant = case["name"], case["variant"]
        key = {"api": "ParameterSet.sample"}
        replay = {"kind": "sets", "project": name, "variant": list(variant), "seed": case["seed"], "S": case["S"]}
        ctx.count("sets.library_book")
        # ---------------- parset
        ctx.count("sets.parset")
        if case["par_unchanged"]:
            ctx.violation({**key, "defect": "source-mutated"}, f"ParameterSet.sample altered its source: {case['par_unchanged']}", replay)
        if "par_exc" in case:
            ctx.violation({**key, "defect": "exception"}, f"ParameterSet.sample raised {case['par_exc']}", replay)
        else:
            tk = Toks(rp)
            if tk.next() != "ok":
                ctx.brk("correspondence", f"model refuses parset of {name}: {rp[:80]}")
            else:
                consumed = tk.nat()
                m = [tk.series() for _ in range(tk.nat())]
                ctx.case({**key, "project": name, "variant": list(variant), "S": case["S"]}, nontrivial=consumed > 0)
                prob = cmp_series_list(m, case["par_new"], case["par_src"], case["zmax"])
                if prob is None and consumed != case["par_consumed"]:
                    prob = f"draws consumed {case['par_consumed']} vs model {consumed}"
                if prob is None and not case["par_keys"]:
                    prob = "parameters/populations of the copy are not those of the source"
                if prob is None and not case["par_copy"]:
                    prob = "the sample shares TimeSeries objects with the source"
                if prob is None and any(x[2] for x in case["par_new"]) and "only sample once" not in case["par_resample"]:
                    prob = f"sampling a sampled parameter set: {case['par_resample']!r} (model: err already-sampled)"
                ctx.traces += 1
                stuck = unperturbed(case["par_new"], case["par_src"])
                if stuck:
                    ctx.violation({**key, "defect": "uncertain-not-perturbed"}, f"ParameterSet.sample ({name}): {stuck} has uncertainty but the sample equals the source", replay)
                    prob = None
                if prob:
                    ctx.disagreements_checked += 1
                    zero = all(not s[0] for s in case["par_src"])
                    same = all(list(n[3]) == list(s[2]) and n[1] == s[1] for n, s in zip(case["par_new"], case["par_src"]))
                    if zero and not same:
                        ctx.violation({**key, "defect": "zero-sigma-changed"}, f"no uncertainty entered but ParameterSet.sample changed values: {prob}", replay)
                    else:
                        ctx.brk("correspondence", f"ParameterSet.sample vs model ({name}, {variant}): {prob}", case=replay)
        # ---------------- progset
        gkey = {"api": "ProgramSet.sample"}
        ctx.count("sets.progset")
        has_int = case["n_int"] > 0
        if has_int:
            ctx.count("sets.progset_interactions")
        if case["prog_unchanged"]:
            ctx.violation({**gkey, "defect": "source-mutated"}, f"ProgramSet.sample altered its source: {case['prog_unchanged']}", replay)
        tk = Toks(rg)
        if tk.next() != "ok":
            ctx.brk("correspondence", f"model refuses progset of {name}: {rg[:80]}")
            continue
        consumed = tk.nat()
        ms = [tk.series() for _ in range(5 * tk.nat())]
        mc = [tk.covout() for _ in range(tk.nat())]
        ctx.case({**gkey, "project": name, "variant": list(variant), "S": case["S"]}, nontrivial=consumed > 0)
        ctx.hyp_checked += 1  # sample_total hypothesis: no series of the source is already sampled
        ctx.hyp_held += 1
        if "prog_exc" in case:
            ctx.disagreements_checked += 1
            # oracle: every valid program book can be sampled -> an exception is a failure of the property itself
            d5 = "AttributeError" in case["prog_exc"] and "interactions" in case["prog_exc"]
            explained = rgc == "err attribute-error"
            if d5:
                ctx.count("current_model.d5_explains" if explained else "current_model.d5_unexplained")
            vkey = {"api": "ProgramSet.sample", "defect": "covout-interactions-attribute" if d5 else "exception"}
            ctx.violation(vkey, f"ProgramSet.sample raised {case['prog_exc']} on the {name} program book with explicit interaction outcomes={has_int} (model: defined; model of the current code: {rgc[:24]})",
                          {**replay, "script": "import atomica as at; P=at.demo('tb_simple',do_run=False); g=P.progsets[0]; c=g.covouts[0]; g.covouts[0]=at.programs.Covout(c.par,c.pop,dict(c.progs),imp_interaction='+'.join(c.progs.keys())+'=0.9',uncertainty=0.05,baseline=c.baseline); g.sample()"})
            if d5 and not explained:
                ctx.brk("correspondence", f"AttributeError not predicted by Covout.sampleCurrent ({name}, {variant})")
            continue
        new = case["prog_new"]
        prob = cmp_series_list(ms, new["series"], case["prog_src"]["series"], case["zmax"])
        if prob is None:
            for j, (m, n, s) in enumerate(zip(mc, new["cov"], case["prog_src"]["cov"])):
                sg = abs(float(s[0])) if s[0] else 0.0
                base_ = abs(float(s[3])) if len(s) > 3 and s[3] is not None else 0.0
                n_prog = len(m["progs"])
                for idx_, (a, b, v) in enumerate(zip(m["progs"] + m["inter"], list(n[1]) + list(n[2]), list(s[1]) + list(s[2]))):
                    if idx_ < n_prog:
                        ok = (float(b) == float(v)) if sg == 0.0 else core.close(a, b, scale=max(abs(v), sg * case["zmax"]), rtol=TOL)
                    else:
                        # explicit interaction outcomes are stored relative to the baseline and re-derived from the written outcome (delta + baseline) - baseline:
                        # two further roundings, relative to max(|delta|, |baseline|)
                        ok = core.close(a if sg else Fraction(*float(v).as_integer_ratio()), b, scale=max(abs(v), sg * case["zmax"], base_), rtol=3 * TOL)
                    if not ok:
                        prob = f"covout {j}: outcome {b!r} vs model {float(a)!r} (source {v!r}, sigma {s[0]!r})"
                        break
                if len(m["progs"]) != len(n[1]) or len(m["inter"]) != len(n[2]):
                    prob = f"covout {j}: shape differs"
                if prob:
                    break
        if prob is None and consumed != case["prog_consumed"]:
            prob = f"draws consumed {case['prog_consumed']} vs model {consumed}"
        if prob is None and not case["prog_copy"]:
            prob = "the sample shares Covout objects with the source"
        if prob is None and case["prog_cache"]:
            prob = f"covout {case['prog_cache']}: outcome cache does not reflect the perturbed outcomes"
        ctx.traces += 1
        stuck = unperturbed(new["series"], case["prog_src"]["series"], new["cov"], case["prog_src"]["cov"])
        if stuck:
            ctx.violation({**gkey, "defect": "uncertain-not-perturbed"}, f"ProgramSet.sample ({name}): {stuck} has uncertainty but the sample equals the source", replay)
            prob = None
        if prob:
            ctx.disagreements_checked += 1
            zero = all(not s[0] for s in case["prog_src"]["series"]) and all(not s[0] for s in case["prog_src"]["cov"])
            same = all(list(n[3]) == list(s[2]) and n[1] == s[1] for n, s in zip(new["series"], case["prog_src"]["series"])) and all(list(n[1]) == list(s[1]) and list(n[2]) == list(s[2]) for n, s in zip(new["cov"], case["prog_src"]["cov"]))
            if zero and not same:
                ctx.violation({**gkey, "defect": "zero-sigma-changed"}, f"no uncertainty entered but ProgramSet.sample changed values: {prob}", replay)
            elif case["prog_cache"]:
                ctx.violation({**gkey, "defect": "stale-outcome-cache"}, f"ProgramSet.sample: {prob}: the sampled run would not use the sampled outcomes", replay)
            else:
                ctx.brk("correspondence", f"ProgramSet.sample vs model ({name}, {variant}): {prob}", case=replay)


# ----------------------------------------------------------------------------------------------
# section 3: schedules (mode E)
# ----------------------------------------------------------------------------------------------
def sched_child(cfg):
    """runs in a forked child: one call of a real entry point + the serial reference table for the same prior state"""
    import atomica as at
    import sciris as sc
    from atomica.model import BadInitialization
    from props import c17_probe as pr

    rnd = random.Random(cfg["cseed"])
    P = PROJECTS[cfg["proj"]]
    P.__class__ = pr.ProbeProject
    P.c17_bad_mod = cfg["bad_mod"]
    ps = sc.dcp(P.parsets[0])
    pg = sc.dcp(P.progsets[0]) if cfg["progset"] else None
    if pg is not None and cfg.get("interactions"):
        pg, _ = with_interactions(P, pg, rnd, 0.02)
    n_unc = assign_sigmas(ps, pg, rnd, cfg["sigma_mode"], cfg["scale"])
    if pg is not None and cfg.get("interactions") and cfg["sigma_mode"] == "all":
        for c in pg.covouts.values():
            if pr.covout_interactions(c):
                c.sigma = 0.02
    instr = None
    if pg is not None:
        y0 = float(pg.tvec[0])
        instr = [at.ProgramInstructions(start_year=y0 + 1 + i) for i in range(cfg["n_instr"])]
    out = {"n_unc": n_unc}
    src_vals = pr.parset_values(ps) + (pr.progset_values(pg) if pg is not None else ())
    out["src"] = digest(src_vals)
    # which coordinates carry uncertainty (sigma > 0)
    unc = []
    for ts in all_series(ps, pg):
        unc.extend([bool(ts.sigma)] * len(pr.series_values(ts)))
    if pg is not None:
        for c in pg.covouts.values():
            unc.extend([bool(c.sigma)] * (len(c.progs) + len(pr.covout_interactions(c))))
    if cfg.get("saved_init"):
        # the parameter set carries a saved initialization (compartment sizes taken from a previous run): it is part of the inputs every sampled run must share
        r0 = at.Project.run_sim(P, ps)
        ps.set_initialization(r0, year=float(r0.t[len(r0.t) // 2]))
    s0, g0 = snap(ps), snap(pg)
    n, mx = cfg["n"], cfg["max_attempts"]
    # unsampled run(s) for the sigma = 0 / None comparison
    try:
        base = [at.Project.run_sim(P, ps, pg, x) for x in instr] if instr else [at.Project.run_sim(P, ps)]
        out["base_sig"] = [digest(pr.result_signature(b)) for b in base]
    except Exception as e:
        out["base_exc"] = f"{type(e).__name__}: {e}"
    pr.PENDING = []
    np.random.seed(cfg["S"])
    np.random.randn(cfg.get("predraw", 0))  # prior state of the global generator (odd counts leave a cached gaussian behind)
    samples = None
    try:
        if cfg["entry"] == "rss":
            kw = dict(n_samples=n, parallel=cfg["parallel"], max_attempts=mx)
            if cfg["parallel"]:
                kw["num_workers"] = cfg["nw"]
            res = P.run_sampled_sims(ps, pg, instr if instr is None or len(instr) > 1 else instr[0], **kw)
            samples = [([r._c17 for r in rs], [digest(pr.result_signature(r)) for r in rs]) for rs in res]
        else:
            ens = at.Ensemble(pr.mapping_probe)
            ens.run_sims(P, ps, pg, instr, n_samples=n, parallel=cfg["parallel"], max_attempts=mx)
            samples = [(s._c17, [digest(x) for x in s._c17_final]) for s in ens.samples]
    except Exception as e:
        out["exc"] = f"{type(e).__name__}: {str(e)[:200]}"
        out["exc_tb"] = traceback.format_exc()[-1500:]
    st = np.random.get_state()
    out["peek_after"] = float(np.random.randn())
    np.random.set_state(st)
    out["par_unchanged"] = snap_diff(s0, snap(ps))
    out["prog_unchanged"] = snap_diff(g0, snap(pg))
    if samples is not None:
        recs = []
        for rs, sigs in samples:
            r0 = rs[0]
            recs.append({"pid": r0["pid"], "call": r0["call"], "fp": digest(r0["par"] + r0["prog"]), "vals": r0["par"] + r0["prog"], "failed": [digest(f) for f in r0["failed"]],
                         "same_inputs": all(x["par"] == r0["par"] and x["prog"] == r0["prog"] for x in rs), "sigs": sigs, "n_results": len(rs)})
        out["recs"] = recs
    # ---- serial reference table from the same prior state: block k = k-th sample() of the inputs
    np.random.seed(cfg["S"])
    np.random.randn(cfg.get("predraw", 0))
    st = np.random.get_state()
    out["peek_before"] = float(np.random.randn())
    np.random.set_state(st)
    table = []
    good = 0
    limit = n * (mx if mx is not None else 50) + 2
    try:
        while good < n and len(table) < min(limit, 40 * n + 50):
            sp = ps.sample()
            sg = pg.sample() if pg is not None else None
            v = pr.parset_values(sp) + (pr.progset_values(sg) if sg is not None else ())
            bad = pr.is_bad(v, cfg["bad_mod"])
            if not bad:
                try:
                    at.Project.run_sim(P, sp, sg, instr[0] if instr else None)
                except BadInitialization:
                    bad = True
            st = np.random.get_state()
            peek = float(np.random.randn())
            np.random.set_state(st)
            table.append({"fp": digest(v), "vals": v, "bad": bad, "peek": peek})
            good += not bad
    except Exception as e:
        out["table_exc"] = f"{type(e).__name__}: {str(e)[:200]}"
    out["table"] = table
    out["unc"] = unc
    return out


def slots_of(recs):
    """(worker index, position) of every sample from the pids and per-process call counters recorded in the workers"""
    pids = []
    for r in recs:
        if r["pid"] not in pids:
            pids.append(r["pid"])
    slots = []
    for r in recs:
        calls = sorted(x["call"] for x in recs if x["pid"] == r["pid"])
        slots.append((pids.index(r["pid"]), calls.index(r["call"])))
    return slots, len(pids)


def classes_of(fps):
    first = {}
    out = []
    for i, f in enumerate(fps):
        first.setdefault(f, i)
        out.append(first[f])
    return out


D4_SCRIPT = ("import numpy as np, atomica as at; P=at.demo('tb_simple',do_run=False); ps=P.parsets[0]; "
             "[setattr(ts,'sigma',0.05*abs(ts.vals[0])) for par in ps.all_pars() for ts in par.ts.values() if ts.vals]; "
             "res=P.run_sampled_sims(ps,n_samples=6,parallel=True,num_workers=4); "
             "print(len({float(r[0].get_variable('all_people')[0].vals[-1]) for r in res}),'distinct results among 6')")


D4_SCRIPT_ENS = ("import numpy as np, atomica as at; P=at.demo('tb_simple',do_run=False); ps=P.parsets[0]; "
                 "[setattr(ts,'sigma',0.05*abs(ts.vals[0])) for par in ps.all_pars() for ts in par.ts.values() if ts.vals]; "
                 "ens=at.Ensemble(lambda results,**kw: at.PlotData(results,outputs='all_people',pops='adults')); ens.run_sims(P,ps,n_samples=6,parallel=True); "
                 "print(len({float(s.series[0].vals[-1]) for s in ens.samples}),'distinct samples among 6')")


def gen_sched_cfgs(ctx):
    r = ctx.rng
    cfgs = []

    def cfg(**kw):
        base = dict(proj="tb_simple", progset=False, interactions=False, n_instr=1, entry="rss", parallel=False, nw=None, n=4, S=r.randrange(2**31), cseed=r.randrange(2**31),
                    sigma_mode="all", scale=0.02, bad_mod=0, max_attempts=None, predraw=r.choice([0, 0, 1, 2, 7]))
        base.update(kw)
        cfgs.append(base)

    small = SMALL[:3] if ctx.quick else SMALL
    workers = [1, 2, 4, 8] if ctx.quick else [1, 2, 3, 4, 8, 16]
    ns = lambda: r.choice([2, 3, 5, 6, 8, 13, 32] if ctx.quick else list(range(2, 33)))  # noqa: E731
    # parallel, Project.run_sampled_sims, every worker count
    for rep in range(ctx.n(2, 8)):
        for nw in workers:
            cfg(proj=r.choice(small), parallel=True, nw=nw, n=max(2, ns()), sigma_mode=r.choice(["all", "mixed", "one"]), progset=r.random() < 0.3, n_instr=r.choice([1, 1, 2]))
    # the DESIGN witness: 6 samples on 4 workers
    cfg(proj="tb_simple", parallel=True, nw=4, n=6)
    # parallel with retries (forced bad initialisations) and prior states
    for rep in range(ctx.n(4, 18)):
        cfg(proj=r.choice(small), parallel=True, nw=r.choice([2, 4, 8]), n=ns(), bad_mod=r.choice([2, 3]), sigma_mode=r.choice(["all", "mixed"]), S=r.choice([0, 1, 12345, r.randrange(2**31)]))
    # serial: exact block bookkeeping, retries (forced and real), exhaustion
    for rep in range(ctx.n(8, 36)):
        cfg(proj=r.choice(small), n=ns(), bad_mod=r.choice([0, 2, 3]), sigma_mode=r.choice(["all", "mixed", "one"]), progset=r.random() < 0.4, n_instr=r.choice([1, 2]), entry=r.choice(["rss", "rss", "ens"]))
    for rep in range(ctx.n(3, 16)):
        cfg(proj=r.choice(["tb_simple", "udt"]), n=r.choice([2, 4, 7]), scale=0.3, sigma_mode="all")  # real BadInitialization
    for rep in range(ctx.n(3, 16)):
        cfg(proj=r.choice(small), n=r.choice([3, 6, 12]), bad_mod=2, max_attempts=r.choice([1, 2]), entry=r.choice(["rss", "ens"]))  # exhaustion likely
    # Ensemble.run_sims parallel (sc.parallelize)
    for rep in range(ctx.n(4, 18)):
        cfg(proj=r.choice(small), entry="ens", parallel=True, n=r.choice([2, 5, 9, 20, 32]) if ctx.quick else ns(), sigma_mode=r.choice(["all", "mixed", "one"]), progset=r.random() < 0.3)
    # sigma = 0 / None: sampled == unsampled, serial and parallel, with and without programs
    for rep in range(ctx.n(1, 6)):
        for par in (False, True):
            for pgs in (False, True):
                cfg(proj=r.choice(small), sigma_mode=r.choice(["zero", "none"]), parallel=par, nw=2 if par else None, n=r.choice([2, 3]), progset=pgs, n_instr=2 if pgs else 1, entry=r.choice(["rss", "ens"]) if not par else "rss",
                    saved_init=not pgs)
    # program books with explicit interactions in a full sampled run
    for rep in range(ctx.n(3, 16)):
        cfg(proj=r.choice(["tb_simple", "udt", "hiv"]), progset=True, interactions=True, n=r.choice([2, 3]), sigma_mode=r.choice(["all", "mixed"]), parallel=r.random() < 0.4, nw=2)
    return cfgs


def analyse(ctx, cfg, out, retry_rep, sched_reps):
    """compare one real call with the model; returns nothing, records into ctx"""
    api = "Project.run_sampled_sims" if cfg["entry"] == "rss" else "Ensemble.run_sims"
    key = {"api": api, "parallel": cfg["parallel"]}
    replay = {"kind": "sched", "cfg": cfg}
    table = out["table"]
    n = cfg["n"]
    uncertain = out["n_unc"] > 0
    # ---- sources unchanged
    for what, d in (("parameter set", out["par_unchanged"]), ("program set", out["prog_unchanged"])):
        if d:
            ctx.violation({**key, "defect": "source-mutated"}, f"{api} altered the source {what}: {d}", replay)
    # ---- model of the serial loop with retries over the reference table (positions in units of blocks)
    model_serial = None
    if "table_exc" in out:
        d5 = "AttributeError" in out["table_exc"] and "interactions" in out["table_exc"]
        if not d5:
            ctx.brk("correspondence", f"reference sampling failed: {out['table_exc']}", cfg=cfg)
    else:
        if retry_rep == "err exhausted":
            model_serial = "exhausted"
        else:
            t = retry_rep.split()
            model_serial = [(int(t[2 + 2 * i]), int(t[3 + 2 * i])) for i in range(int(t[1]))]
    # ---- exceptions
    if "exc" in out:
        exhausted_msg = "Failed simulation after" in out["exc"]
        if not cfg["parallel"] and model_serial == "exhausted" and exhausted_msg:
            ctx.count("sched.exhausted")
            ctx.case({"cfg": cfg}, nontrivial=True)
            ctx.traces += 1
            return
        d5 = "AttributeError" in out["exc"] and "interactions" in out["exc"]
        if d5:
            ctx.violation({"api": "ProgramSet.sample", "defect": "covout-interactions-attribute"}, f"{api} with a program book that has explicit interaction outcomes raised {out['exc']}", replay)
            ctx.count("sched.d5_in_run")
            ctx.case({"cfg": cfg}, nontrivial=True)
            return
        if exhausted_msg and cfg["parallel"] and cfg["bad_mod"]:
            ctx.count("sched.exhausted_parallel")  # possible under any seeding when max_attempts is small; not predicted
            return
        ctx.violation({**key, "defect": "exception"}, f"{api} raised {out['exc']} (model: defined)", {**replay, "tb": out.get("exc_tb", "")})
        return
    if model_serial == "exhausted" and not cfg["parallel"]:
        ctx.brk("correspondence", "model predicts 'Failed simulation after N attempts' but the call returned", cfg=cfg)
        return
    recs = out["recs"]
    if len(recs) != n:
        ctx.violation({**key, "defect": "wrong-count"}, f"{api}: asked for {n} samples, got {len(recs)}", replay)
        return
    fps = [x["fp"] for x in recs]
    slots, n_workers = slots_of(recs)
    impl_classes = classes_of(fps)
    impl_distinct = len(set(fps)) == n
    retried = any(x["failed"] for x in recs)
    multi = n_workers >= 2
    # branch counters
    if cfg["entry"] == "rss":
        ctx.count("sched.serial" if not cfg["parallel"] else ("sched.parallel.multi_worker" if multi else "sched.parallel.one_worker"))
    else:
        ctx.count("sched.ensemble.parallel" if cfg["parallel"] else "sched.ensemble.serial")
    if retried:
        ctx.count("sched.retry")
    if cfg["sigma_mode"] == "one":
        ctx.count("sched.one_uncertain")
    if cfg["progset"]:
        ctx.count("sched.progset")
    if cfg["n_instr"] > 1 and cfg["progset"]:
        ctx.count("sched.multi_instructions")
    if cfg.get("interactions"):
        ctx.count("sched.interactions_run")
    if cfg.get("saved_init"):
        ctx.count("sched.saved_initialization")
    ctx.case({"cfg": cfg, "slots": slots}, nontrivial=uncertain and n >= 2 and (multi or retried or not cfg["parallel"]))
    ctx.traces += 1
    # ---- results of one sample must share one draw of the inputs; one result per instruction
    if not all(x["same_inputs"] for x in recs):
        ctx.violation({**key, "defect": "instructions-different-inputs"}, f"{api}: results for different instructions of one sample used different sampled inputs", replay)
    want = cfg["n_instr"] if cfg["progset"] else 1
    if any(x["n_results"] != want for x in recs):
        ctx.violation({**key, "defect": "wrong-count"}, f"{api}: {want} instructions but a sample has {recs[0]['n_results']} results", replay)
    # ---- sigma = 0 / None: the sampled run equals the unsampled run (inputs and every output)
    if not uncertain:
        ctx.count("sched.zero_sigma")
        if any(f != out["src"] for f in fps):
            ctx.violation({**key, "defect": "zero-sigma-changed"}, f"{api}: no uncertainty entered but the sampled inputs differ from the source", replay)
        elif "base_sig" in out and any(x["sigs"] != out["base_sig"] for x in recs):
            ctx.violation({**key, "defect": "zero-sigma-changed"}, f"{api}: no uncertainty entered but the sampled results differ from the unsampled run", replay)
        return
    # ---- hypothesis of distinct_draws_distinct_samples on the real draws: blocks differ in every uncertain coordinate
    unc_idx = [i for i, u in enumerate(out["unc"]) if u]
    if table and unc_idx:
        ctx.hyp_checked += 1
        cols = [[row["vals"][i] for row in table] for i in unc_idx]
        if all(len(set(c)) == len(c) for c in cols):
            ctx.hyp_held += 1
        else:
            ctx.notes.append("generator hypothesis failed: two blocks of one stream share a draw")
    # ---- the schedule fed to the model
    rep_spec, rep_cur = sched_reps
    ts_, tc_ = rep_spec.split(), rep_cur.split()
    if ts_[0] != "ok" or ts_[1] != "1":
        ctx.brk("correspondence", f"recorded schedule is not a valid schedule for the model: {slots}", cfg=cfg)
        return
    spec_distinct = ts_[2] == "1"
    cur_classes = [int(x) for x in tc_[5:]]
    assert spec_distinct, "reseeded_allDistinct is a theorem"
    # ---- oracle: pairwise distinctness of the sampled inputs (and of the results)
    res_distinct = len({tuple(x["sigs"]) for x in recs}) == n
    if not impl_distinct:
        ctx.disagreements_checked += 1
        explained = impl_classes == cur_classes
        ctx.count("current_model.inherited_explains" if explained else "current_model.inherited_unexplained")
        ndist = len(set(fps))
        ctx.violation({**key, "defect": "duplicate-draws"},
                      f"{api}(parallel={cfg['parallel']}, workers={cfg['nw']}): {n} samples on {n_workers} worker processes share draws: only {ndist} distinct sampled inputs; collision classes {impl_classes}; "
                      f"{'exactly' if explained else 'NOT'} as the inherited-generator-state model predicts from the recorded schedule {slots}",
                      {**replay, "slots": slots, "classes": impl_classes, "script": D4_SCRIPT if cfg["entry"] == "rss" else D4_SCRIPT_ENS})
        if not explained:
            ctx.brk("correspondence", f"duplicate draws in a pattern the inherited-state model does not predict: impl {impl_classes} model {cur_classes}", cfg=cfg)
    else:
        if cur_classes != list(range(n)):
            ctx.count("current_model.inherited_superseded")  # the workers do not share the parent's state (any more)
        if not res_distinct:
            ctx.notes.append(f"distinct inputs but coinciding results in {cfg['proj']} (outputs insensitive to the uncertain quantity)")
    # ---- exact bookkeeping against the reference stream
    if isinstance(model_serial, list):
        by_block = lambda k: table[k] if k < len(table) else None  # noqa: E731
        if not cfg["parallel"]:
            # serial: sample i reads the blocks the model says, failed attempts included, and leaves the generator right after them
            for i, (pos, fails) in enumerate(model_serial):
                row = by_block(pos)
                want_failed = [table[k]["fp"] for k in range(pos - fails, pos)]
                if row is None or recs[i]["fp"] != row["fp"] or recs[i]["failed"] != want_failed:
                    ctx.disagreements_checked += 1
                    ctx.brk("correspondence", f"{api} serial: sample {i} did not read block {pos} of the caller's stream after {fails} failed attempts", cfg=cfg)
                    if len(set(fps)) < n:
                        ctx.violation({**key, "defect": "duplicate-draws"}, f"{api} serial: samples share draws, classes {impl_classes}", replay)
                    break
            else:
                last = model_serial[-1][0]
                if table[last]["peek"] != out["peek_after"]:
                    ctx.brk("correspondence", f"{api} serial: generator state after the call is not right after block {last}", cfg=cfg)
                else:
                    ctx.count("sched.serial_exact")
        else:
            # parallel: does the faithful (inherited) model predict the *values* too?  worker's j-th task == serial sample j
            ok = all(pos < len(model_serial) and by_block(model_serial[pos][0]) is not None and recs[i]["fp"] == by_block(model_serial[pos][0])["fp"] for i, (_, pos) in enumerate(slots))
            if ok:
                ctx.count("current_model.inherited_values_exact")
            if out["peek_after"] != out["peek_before"]:
                ctx.count("sched.parallel_advances_parent")


def eval_sched(ctx, cfgs, k, verbose=False):
    """run every configuration on the real code (forked children), feed the recorded schedules to the model, compare"""
    ensure_projects(SMALL)
    outs = run_many(sched_child, cfgs, k=k, timeout=600)
    reqs, where = [], []
    for cfg, out in zip(cfgs, outs):
        if "error" in out:
            if out.get("timeout"):
                ctx.violation({"api": "Project.run_sampled_sims" if cfg["entry"] == "rss" else "Ensemble.run_sims", "defect": "hang"}, "sampled run did not finish within 600 s", {"kind": "sched", "cfg": cfg})
                continue
            raise RuntimeError("schedule child failed:\n" + out["error"])
        mx = cfg["max_attempts"] if cfg["max_attempts"] is not None else 50
        flags = [int(row["bad"]) for row in out["table"]]
        i0 = len(reqs)
        reqs.append(f"rng retry {mx} 1 {cfg['n']} {len(flags)}" + "".join(f" {b}" for b in flags))
        if "recs" in out:
            slots, nw = slots_of(out["recs"])
            body = f"{max(nw, 1)} {len(slots)}" + "".join(f" {w} {p}" for w, p in slots)
            reqs += ["rng sched reseeded " + body, "rng sched inherited " + body]
            if verbose:
                print(f"  {cfg['entry']} parallel={cfg['parallel']} workers={cfg['nw']} n={cfg['n']}: schedule {slots}; distinct sampled inputs {len({x['fp'] for x in out['recs']})} of {len(out['recs'])}")
        elif verbose:
            print(f"  {cfg['entry']} parallel={cfg['parallel']} workers={cfg['nw']} n={cfg['n']}: raised {out.get('exc')}")
        where.append((cfg, out, i0))
    reps = core.drive(reqs)
    for cfg, out, i0 in where:
        if verbose and "recs" in out:
            print("  model (reseeded / inherited):", reps[i0 + 1], "/", reps[i0 + 2])
        analyse(ctx, cfg, out, reps[i0], (reps[i0 + 1], reps[i0 + 2]) if "recs" in out else None)


def run_schedules(ctx):
    eval_sched(ctx, gen_sched_cfgs(ctx), k=ctx.n(6, 5))


# ----------------------------------------------------------------------------------------------
def run(ctx):
    run_series(ctx)
    run_sets(ctx)
    run_schedules(ctx)
    ctx.exhaustive = False


def replay_one(sub, rp):
    kind = rp.get("kind")
    if kind == "sched":
        cfg = rp["cfg"]
        # as recorded (the OS schedule and, for reseeded workers, the draws are not replayable: try a few times), then its
        # deterministic neighbours: the same call run serially, and with forced bad initialisations
        for attempt in range(3):
            n0 = len(sub.violations) + len(sub.breaks)
            eval_sched(sub, [cfg], 1, verbose=True)
            if len(sub.violations) + len(sub.breaks) > n0:
                return
        neighbours = [{**cfg, "parallel": False, "nw": None}, {**cfg, "parallel": False, "nw": None, "bad_mod": 2}, {**cfg, "bad_mod": 2}]
        print("  not reproduced as recorded; trying neighbours (serial; forced bad initialisations)")
        eval_sched(sub, neighbours, 3, verbose=True)
    elif kind == "sets":
        eval_sets(sub, run_many(sets_child, [(rp["project"], rp["seed"], [tuple(rp["variant"])])], 1))
    elif kind == "series":
        eval_series(sub, [rp])
    else:
        print("unknown replay kind", kind)


def replay(ctx, data):
    """re-evaluate the recorded case(s) on the current tree through the same code path as the check; exit 1 if a failure reproduces"""
    sub = core.Ctx(PROPERTY, "quick", 0)
    if data.get("kind") == "no-failing-input-found":
        todo = []
        for b in data.get("broken", []):
            rp = b.get("case") or ({"kind": "sched", "cfg": b["cfg"]} if "cfg" in b else None)
            if rp is not None and rp not in todo:
                todo.append(rp)
        for rp in todo[:6]:
            replay_one(sub, rp)
    else:
        rp = data["replay"]
        replay_one(sub, rp)
        if "script" in rp:
            print("standalone script:", rp["script"])
    for v in sub.violations[:10]:
        print("REPRODUCED:", v["what"][:400])
    for b in sub.breaks[:10]:
        print("BROKEN:", b["what"][:400])
    if not sub.violations and not sub.breaks:
        print("not reproduced: the recorded case passes on this tree")
    return 1 if (sub.violations or sub.breaks) else 0


if __name__ == "__main__":
    core.main(sys.modules[__name__])
