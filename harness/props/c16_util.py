"""
Helpers for the C16 check: wire encoding for the Lean driver, generators of names / numbers / tables, extraction of
"visible content" from atomica objects, comparison of simulation results.
"""
from __future__ import annotations

import io
import math
from fractions import Fraction

import numpy as np

from vlib.core import q


# ------------------------------------------------------------------------------------------------
# numbers: what a spreadsheet stores
# ------------------------------------------------------------------------------------------------
def r16(x):
    """The double a spreadsheet hands back for x: xlsxwriter writes numbers with '%.16G'."""
    if x is None:
        return None
    return float("%.16G" % float(x))


def same16(a, b) -> bool:
    """content equality of two optional numbers up to the 16 significant digits a spreadsheet stores"""
    if a is None or b is None:
        return a is None and b is None
    a, b = float(a), float(b)
    return a == b or r16(a) == b or a == r16(b) or r16(a) == r16(b)


# ------------------------------------------------------------------------------------------------
# wire encoding
# ------------------------------------------------------------------------------------------------
def es(s: str) -> str:
    return "s:" + ".".join(str(ord(c)) for c in s)


def ds(tok: str) -> str:
    assert tok.startswith("s:"), tok
    body = tok[2:]
    return "" if body == "" else "".join(chr(int(x)) for x in body.split("."))


def eopt(x, f):
    return "-" if x is None else f(x)


def ecell(c) -> str:
    """c: None | str | number"""
    if c is None:
        return "b"
    if isinstance(c, str):
        return es(c)
    return "n:" + q(c)


def elist(items, f) -> str:
    items = list(items)
    return " ".join([str(len(items))] + [f(x) for x in items])


class Toks:
    def __init__(self, s: str):
        self.t = s.split(" ") if s else []
        self.i = 0

    def next(self):
        v = self.t[self.i]
        self.i += 1
        return v

    def peek(self):
        return self.t[self.i] if self.i < len(self.t) else None

    def nat(self):
        return int(self.next())

    def rat(self):
        return Fraction(self.next())

    def s(self):
        return ds(self.next())

    def opt(self, f):
        if self.peek() == "-":
            self.next()
            return None
        return f()

    def lst(self, f):
        n = self.nat()
        return [f() for _ in range(n)]

    def cell(self):
        t = self.next()
        if t == "b":
            return None
        if t.startswith("n:"):
            return Fraction(t[2:])
        return ds(t)

    def done(self):
        return self.i == len(self.t)


# --- TDVE spec (a plain dict) ---------------------------------------------------------------------
# {"name", "attrs": [names], "tvec": [floats], "wu","wunc","wa": None|True|False, "ahead": "c"|"a",
#  "rows": [{"name","units","assumption","sigma","pts":[(t,v)],"attrs":[cells]}]}
def eflag(b):
    return "n" if b is None else ("1" if b else "0")


def etdve(e) -> str:
    def erow(r):
        return " ".join([es(r["name"]), eopt(r["units"], es), eopt(r["assumption"], q), eopt(r["sigma"], q), elist(r["pts"], lambda p: q(p[0]) + " " + q(p[1])), elist(r["attrs"], ecell)])

    return " ".join([es(e["name"]), elist(e["attrs"], es), elist(e["tvec"], q), eflag(e["wu"]), eflag(e["wunc"]), eflag(e["wa"]), e["ahead"], elist(e["rows"], erow)])


def ptdve(t: Toks):
    def flag():
        v = t.next()
        return None if v == "n" else (v == "1")

    def row():
        return {"name": t.s(), "units": t.opt(t.s), "assumption": t.opt(t.rat), "sigma": t.opt(t.rat), "pts": t.lst(lambda: (t.rat(), t.rat())), "attrs": t.lst(t.cell)}

    e = {"name": t.s(), "attrs": t.lst(t.s), "tvec": t.lst(t.rat)}
    e["wu"], e["wunc"], e["wa"] = flag(), flag(), flag()
    e["ahead"] = t.next()
    e["rows"] = t.lst(row)
    return e


def egrid(g) -> str:
    return elist(g, lambda row: elist(row, ecell))


def pgrid(t: Toks):
    return t.lst(lambda: t.lst(t.cell))


def norm_tdve(e):
    """Comparable form of a TDVE spec: numbers as Fractions."""

    def fr(x):
        return None if x is None else Fraction(x) if isinstance(x, (Fraction, int)) else Fraction(*float(x).as_integer_ratio())

    def cell(c):
        return c if c is None or isinstance(c, str) else fr(c)

    return {
        "name": e["name"],
        "attrs": list(e["attrs"]),
        "tvec": [fr(x) for x in e["tvec"]],
        "wu": e["wu"],
        "wunc": e["wunc"],
        "wa": e["wa"],
        "ahead": e["ahead"],
        "rows": [{"name": r["name"], "units": r["units"], "assumption": fr(r["assumption"]), "sigma": fr(r["sigma"]), "pts": [(fr(a), fr(b)) for a, b in r["pts"]], "attrs": [cell(c) for c in r["attrs"]]} for r in e["rows"]],
    }


def tdve_content(e):
    """Content of a TDVE spec irrespective of layout flags (what the property calls content)."""
    n = norm_tdve(e)
    return {"name": n["name"], "tvec": n["tvec"], "attrs": n["attrs"], "rows": n["rows"]}


# ------------------------------------------------------------------------------------------------
# atomica TDVE <-> spec
# ------------------------------------------------------------------------------------------------
def tdve_to_spec(tdve):
    names = list(tdve.ts_attributes.keys())
    rows = []
    for rname, ts in tdve.ts.items():
        attrs = []
        for a in names:
            d = tdve.ts_attributes[a]
            v = d.get(rname) if isinstance(d, dict) else d
            if v is not None and not isinstance(v, str):
                v = float(v)
            attrs.append(v)
        rows.append({"name": rname, "units": ts.units, "assumption": None if ts.assumption is None else float(ts.assumption), "sigma": None if ts.sigma is None else float(ts.sigma), "pts": [(float(a), float(b)) for a, b in zip(ts.t, ts.vals)], "attrs": attrs})
    return {"name": tdve.name, "attrs": names, "tvec": [float(x) for x in tdve.tvec], "wu": tdve.write_units, "wunc": tdve.write_uncertainty, "wa": tdve.write_assumption, "ahead": "c" if tdve.assumption_heading == "Constant" else "a", "rows": rows}


def spec_to_tdve(e):
    import sciris as sc
    from atomica.excel import TimeDependentValuesEntry
    from atomica.utils import TimeSeries

    tdve = TimeDependentValuesEntry(e["name"], tvec=np.array(e["tvec"], dtype=float))
    tdve.ts_attributes = {a: {} for a in e["attrs"]}
    tdve.write_units, tdve.write_uncertainty, tdve.write_assumption = e["wu"], e["wunc"], e["wa"]
    tdve.assumption_heading = "Constant" if e["ahead"] == "c" else "Assumption"
    tdve.ts = sc.odict()
    for r in e["rows"]:
        ts = TimeSeries(units=r["units"])
        ts.assumption = r["assumption"]
        ts.sigma = r["sigma"]
        for t, v in r["pts"]:
            ts.insert(t, v)
        tdve.ts[r["name"]] = ts
        for a, c in zip(e["attrs"], r["attrs"]):
            if c is not None:
                tdve.ts_attributes[a][r["name"]] = c
    return tdve


def cells_of_rows(rows):
    """openpyxl rows -> grid of None | str | float, trailing blanks removed"""
    grid = []
    for row in rows:
        out = []
        for c in row:
            v = c.value
            if v is None:
                out.append(None)
            elif c.data_type in ("s", "str", "inlineStr"):
                out.append(v if isinstance(v, str) else str(v))
            elif c.data_type == "n" and isinstance(v, (int, float)):
                out.append(float(v))
            else:
                out.append(("other", c.data_type, repr(v)))
        grid.append(out)
    return grid


def strip_trailing(grid):
    out = []
    for row in grid:
        row = list(row)
        while row and row[-1] is None:
            row.pop()
        out.append(row)
    return out


def grid_eq(model, impl) -> bool:
    model, impl = strip_trailing(model), strip_trailing(impl)
    if len(model) != len(impl):
        return False
    for a, b in zip(model, impl):
        if len(a) != len(b):
            return False
        for x, y in zip(a, b):
            if x is None or y is None or isinstance(x, str) or isinstance(y, str):
                if x != y:
                    return False
            elif isinstance(y, tuple):
                return False
            elif Fraction(x) != Fraction(*float(y).as_integer_ratio()):
                return False
    return True


# ------------------------------------------------------------------------------------------------
# generators
# ------------------------------------------------------------------------------------------------
INNER = list("abcdefghijklmnopqrstuvwxyzABCDEFGHIJKLMNOPQRSTUVWXYZ0123456789") + list("  --__()/%&+.,:'") + ["é", "ü", "ß", "中", "Ω", "ñ"]
EDGE = list("abcdefghijklmnopqrstuvwxyzABCDEFGHIJKLMNOPQRSTUVWXYZ0123456789") + ["é", "ü", "中", ")", "%"]
FIRST = list("abcdefghijklmnopqrstuvwxyzABCDEFGHIJKLMNOPQRSTUVWXYZ0123456789") + ["é", "中", "("]
BAD_PREFIX = ("=", "#ignore", "http://", "https://", "ftp://", "mailto:", "internal:", "external:", "{=")


_RES = None


def _reserved():
    """atomica's reserved keywords (population / quantity names may not be one of them): rejected input, not a round-trip matter"""
    global _RES
    if _RES is None:
        from atomica.system import FrameworkSettings as FS

        _RES = set(k.lower() for k in FS.RESERVED_KEYWORDS)
    return _RES


def gen_name(rng, used=None, lo=2, hi=14, plain=False):
    """An arbitrary but sane name: no leading/trailing whitespace, not a formula/URL/#ignore prefix, unique in `used`
    (case-insensitively, because several readers look names up in lower case)."""
    for _ in range(1000):
        n = rng.randint(lo, hi)
        if plain:
            s = "".join(rng.choice("abcdefghijklmnopqrstuvwxyz0123456789_") for _ in range(n))
            if s[0].isdigit():
                s = "x" + s[1:]
        else:
            s = rng.choice(FIRST) + "".join(rng.choice(INNER) for _ in range(max(0, n - 2))) + (rng.choice(EDGE) if n > 1 else "")
        if s.lower().startswith(BAD_PREFIX) or s != s.strip():
            continue
        if s.lower() in _reserved():
            continue
        if s.lower() in ("all", "units", "uncertainty", "constant", "assumption", "provenance", "n.a.", "...", "or", "y", "n", "none", "nan", "true", "false"):
            continue
        if used is not None:
            if s.lower() in used:
                continue
            used.add(s.lower())
        return s
    raise RuntimeError("name generator exhausted")


def gen_value(rng, kind="any"):
    """A double: mostly short decimals (exact in 16 digits), sometimes full-precision, with boundary values."""
    r = rng.random()
    if r < 0.12:
        return float(rng.choice([0, 1, 0.5, 100, 1e-6, 1e6, 0.1, 0.3, 2 / 3, 1 / 3]))
    if r < 0.55:
        return float(round(rng.uniform(0, 1), rng.randint(1, 6)))
    if r < 0.75:
        return float(rng.randint(0, 10**rng.randint(1, 7)))
    if r < 0.9:
        return rng.uniform(0, 1)  # 17 significant digits
    if kind == "any" and r < 0.95:
        return -float(round(rng.uniform(0, 10), 3))
    return rng.uniform(0, 1e5)


def gen_years(rng):
    r = rng.random()
    if r < 0.1:
        return []
    start = rng.choice([2000, 2010, 2015, 1990])
    n = rng.randint(1, 8)
    if r < 0.7:
        return [float(start + i) for i in range(n)]
    if r < 0.85:
        return sorted({float(start + rng.randint(0, 20)) for _ in range(n)})
    return sorted({start + rng.choice([0, 0.25, 0.5, 0.75]) + rng.randint(0, 6) for _ in range(n)})


STD_UNITS = ["probability", "duration", "number", "fraction", "proportion", "rate"]


def gen_unit(rng, normal=True):
    r = rng.random()
    if r < 0.5:
        u = rng.choice(STD_UNITS)
        if not normal:
            u = rng.choice([u.title(), u.upper(), " " + u + " ", u])
        return u
    if r < 0.8:
        return rng.choice(["N.A.", "$/year", "$/person (one-off)", "$/person/year", "people/year", "people", "Number (per year)", "Rate (per year)", "Duration (years)", "€/person"])
    return gen_name(rng, lo=1, hi=8)


# ------------------------------------------------------------------------------------------------
# results
# ------------------------------------------------------------------------------------------------
def result_arrays(res):
    """All arrays of a Result, keyed by (pop, kind, name[, index])."""
    out = {}
    out[("t",)] = np.asarray(res.t, dtype=float)
    for pop in res.model.pops:
        for kind, items in (("comp", pop.comps), ("charac", pop.characs), ("par", pop.pars), ("link", pop.links)):
            seen = {}
            for it in items:
                nm = it.name
                if kind == "link" and getattr(it, "parameter", None) is None:
                    nm = f"{it.source.name}>{it.dest.name}"   # a residual link has no parameter; its own name is a random identifier drawn at construction
                k = seen.get(nm, 0)
                seen[nm] = k + 1
                v = getattr(it, "vals", None)
                if v is None:
                    continue
                out[(pop.name, kind, nm, k)] = np.asarray(v, dtype=float)
    return out


def result_diff(r1, r2):
    """(max scaled difference, where) between two results; inf if the structure differs; bit-identical <=> 0.0 and same NaN pattern"""
    a, b = result_arrays(r1), result_arrays(r2)
    if set(a) != set(b):
        return math.inf, ("keys", sorted(set(a) ^ set(b))[:3])
    worst, where = 0.0, None
    for k in a:
        x, y = a[k], b[k]
        if x.shape != y.shape:
            return math.inf, ("shape", k)
        fx, fy = np.isfinite(x), np.isfinite(y)
        if not (fx == fy).all():
            return math.inf, ("finite", k)
        if fx.any():
            d = np.abs(x[fx] - y[fx]) / np.maximum(1.0, np.abs(x[fx]))
            m = float(d.max())
            if m > worst:
                worst, where = m, k
    return worst, where


def new_bytes():
    return io.BytesIO()
