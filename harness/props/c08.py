"""
C08 -- Simulation is deterministic, leaves its inputs untouched, and survives copying.

Lean (lean/AtomicaModel/Protocol/Graph.lean, lean/AtomicaProofs/Properties/C08.lean): the id/reference round trip of
Model.unlink / Model.relink -- `relink (unlink g) = g` when ids are pairwise distinct, idempotence through the guards, the
copy protocols, and the L1 corollary that the run of a copy is the run of the original.

Harness (this file), correspondence mode E -- *histories*:
  a history is a sequence of <= 6 operations over
      run            run_model(settings, framework, parset[, progset, instructions])            (project A, B, with / without programs)
      runsim         Project.run_sim (library projects; optionally store_results + Project.save/load)
      dcp            Model(...) built, sc.dcp / copy.deepcopy BEFORE process, copy processed, then the original processed
      pickle         Model(...) built, pickle.dumps/loads (or sc.dumpstr/loadstr), copy processed, then the original processed
      saveload       Result pickled / sc.saveobj+loadobj / sc.dumpstr+loadstr; loaded arrays vs arrays of the original
      fresh          the same input(s) rebuilt from their JSON description and run in a fresh interpreter (random PYTHONHASHSEED),
                     in a random order together with the other inputs of the history
      rebuild        inputs rebuilt from their description in this process and run
      relinkrun      Model built, graph sent to the Lean model, real unlink()/relink() compared with the model's, then processed
      optim          what optimization._objective_fcn does: ONE pickled model, unpickled twice; the first copy gets its instructions
                     edited before process (compared with a direct run on equally edited instructions), the second must be unaffected
  Every observation (all Result arrays: t, every compartment / characteristic / parameter / link `vals`, `_vals` of timed objects,
  get_alloc and the four get_coverage quantities when programs ran) is compared BIT FOR BIT with the first observation for the same
  input in the history.  Every input object of every project of the history (framework, data, parset, settings, progset,
  instructions) is deep-hashed before the first and after every operation (numpy arrays by bytes, floats by hex, DataFrames cell by
  cell, objects by __dict__, aliasing recorded; nothing is skipped -- uid / created / modified included).  The numpy and
  `random` generator states are checked after every operation (a deterministic run does not draw).
  `hyp idsNodup`: every Model built is extracted as a reference graph and the Lean driver evaluates `idsNodup`, `linked` and the
  round trip on it; the model's unlinked and relinked graphs are compared token by token with what the real unlink()/relink()
  produced; a few models get a duplicated id on purpose (Lean and Python must then agree on where the references end up).
"""
import collections
import copy
import datetime
import hashlib
import io
import json
import os
import pickle
import random
import re
import subprocess
import sys
import tempfile
import time
import traceback
import uuid

import numpy as np

from vlib import core, genfw

PROPERTY = "C08"
LEAN_MODS = ["AtomicaProofs.Properties.C08"]
THEOREMS = [
    "Atomica.C08.relink_unlink",          # linked + ids distinct -> relink (unlink g) = g (minus _exec_order/_program_cache)
    "Atomica.C08.unlink_no_refs",         # the unlinked form contains ids only (no object reference left)
    "Atomica.C08.unlink_idem",            # second Model.unlink() is a no-op (guard)
    "Atomica.C08.relink_idem",            # second Model.relink() is a no-op (guard)
    "Atomica.C08.unlinkPop_idem",         # Population.unlink idempotent through is_linked
    "Atomica.C08.relinkPop_idem",         # Population.relink idempotent through is_linked
    "Atomica.C08.copy_model",             # __deepcopy__/pickle protocol: original afterwards = copy = original before
    "Atomica.C08.copy_commutes",          # L1: Engine.process on what is extracted from the copy = on the original
    "Atomica.C08.run_function",           # Engine.process / runFrom are functions of their inputs (congruence, stated as such)
    "Atomica.C08.ids_distinct_of_build",  # distinct pop names, code names, link triples -> distinct ids
    "Atomica.C08.dup_id_breaks_round_trip",  # witness: the hypothesis is needed
    "Atomica.C08.guards_needed",          # witness: without the guards a second unlink / relink raises
]
TRUSTED = [
    "Python runtime: object identity, copy.deepcopy / pickle memo semantics, module-level state, BLAS threading (pinned to 1 thread) -- observed over sampled histories, not modelled",
    "the deep structural hasher of this file (walks __dict__, numpy bytes, DataFrame cells); an input mutation it cannot see (state held outside the six input objects) is not detected",
    "graph extraction lists the reference fields that unlink()/relink() handle (outlinks, inlinks, flush_link, includes, denominator, links, deps, parameter, source, dest, pop); TimedCompartment.parameter is NOT unlinked by the code and is checked separately (it must alias the copy's own Parameter)",
]
ASSUMPTIONS = [
    "frameworks whose functions call rand/randn are excluded (none of the generated or selected library frameworks does; checked at load)",
    "determinism is decided at the strength of sampled histories (mode E); only the id/reference round trip is a theorem",
]
RULE = ("histories of 2..6 operations over {run, runsim, dcp, pickle, saveload, fresh, rebuild, relinkrun, optim} on two projects per history "
        "(generated by vlib.genfw.random_model in regimes calibrated/boundary/extreme with a generated program set, or a small library demo "
        "with its program book, settings varied); one case per history; non-trivial = some input observed at least twice with a copy / pickle / "
        "save-load / fresh-process / rebuild operation or a run of another project in between")
EXPECTED_BRANCHES = ["op.run", "op.dcp", "op.pickle", "op.saveload", "op.fresh", "op.rebuild", "op.relinkrun", "op.optim", "op.runsim", "op.alias", "op.objective", "objective.compared",
                     "input.gen", "input.demo", "input.prog", "input.noprog", "model.has_residual_link", "model.has_timed", "model.multi_pop",
                     "graph.dup_probe", "graph.corr", "obs.compared", "interleaved.other_project"]

DEMOS_QUICK = ["udt", "usdt", "tb_simple", "hypertension", "hiv"]
DEMOS_THOROUGH = DEMOS_QUICK + ["udt_dyn", "tb_simple_dyn", "diabetes", "hypertension_dyn"]
OPS = ["run", "run", "dcp", "pickle", "saveload", "fresh", "rebuild", "relinkrun", "optim", "runsim", "alias", "objective"]


# ----------------------------------------------------------------------------------------------
# deep structural hash
# ----------------------------------------------------------------------------------------------
def _sha(b: bytes) -> str:
    return hashlib.sha1(b).hexdigest()[:16]


def _ktoken(k) -> str:
    out = []
    _walk(k, out, {}, "")
    return "|".join(t for _, t in out)


def _walk_arr(a, out, memo, path):
    if a.dtype == object:
        out.append((path, f"arr:object:{a.shape}"))
        for i, x in enumerate(a.ravel().tolist()):
            _walk(x, out, memo, f"{path}[{i}]")
    else:
        out.append((path, f"arr:{a.dtype}:{a.shape}:{_sha(np.ascontiguousarray(a).tobytes())}"))


def _walk(o, out, memo, path):
    """append (path, token) leaves describing `o` completely; aliasing of mutable objects is recorded as back references"""
    import pandas as pd

    t = type(o)
    if o is None or t is bool or t is int:
        out.append((path, repr(o)))
    elif t is float:
        out.append((path, "f" + o.hex()))
    elif t is str:
        out.append((path, "s" + o))
    elif t is bytes:
        out.append((path, "b" + _sha(o)))
    elif t is complex:
        out.append((path, "c" + repr(o)))
    elif isinstance(o, np.generic):
        out.append((path, f"np:{o.dtype}:{o.tobytes().hex()}"))
    elif isinstance(o, (datetime.datetime, datetime.date, datetime.timedelta)):
        out.append((path, "dt" + str(o)))
    elif isinstance(o, uuid.UUID):
        out.append((path, "uuid" + str(o)))
    elif isinstance(o, type) or t.__name__ in ("function", "builtin_function_or_method", "method", "module"):
        out.append((path, "fn:" + getattr(o, "__module__", "") + "." + getattr(o, "__qualname__", getattr(o, "__name__", repr(t)))))
    elif t is tuple or t is frozenset:
        if t is frozenset:
            out.append((path, "frozenset:" + ",".join(sorted(_ktoken(x) for x in o))))
        else:
            out.append((path, f"tuple:{len(o)}"))
            for i, x in enumerate(o):
                _walk(x, out, memo, f"{path}({i})")
    else:
        if id(o) in memo:
            out.append((path, f"ref#{memo[id(o)]}"))
            return
        memo[id(o)] = len(memo)
        if isinstance(o, np.ndarray):
            _walk_arr(o, out, memo, path)
        elif isinstance(o, pd.DataFrame):
            out.append((path, f"df:{o.shape}"))
            for i, c in enumerate(list(o.columns)):
                _walk(c, out, memo, f"{path}.columns[{i}]")
            out.append((path + ".columns.name", repr(o.columns.name)))
            for i, c in enumerate(list(o.index)):
                _walk(c, out, memo, f"{path}.index[{i}]")
            out.append((path + ".index.name", repr(o.index.name)))
            out.append((path + ".dtypes", ",".join(str(d) for d in o.dtypes.tolist())))
            cells = o.to_numpy(dtype=object)
            for i in range(cells.shape[0]):
                row = cells[i].tolist()
                for j, x in enumerate(row):
                    _walk(x, out, memo, f"{path}.cell[{i},{j}]")
        elif isinstance(o, (pd.Series, pd.Index)):
            out.append((path, f"pd:{t.__name__}:{o.shape}:{o.dtype}:{o.name!r}"))
            if isinstance(o, pd.Series):
                for i, c in enumerate(list(o.index)):
                    _walk(c, out, memo, f"{path}.index[{i}]")
            _walk_arr(np.asarray(o.to_numpy()), out, memo, path + ".values")
        elif isinstance(o, collections.OrderedDict):
            out.append((path, f"odict:{t.__name__}:{len(o)}"))
            for k, v in list(o.items()):
                kt = _ktoken(k)
                out.append((f"{path}{{{kt}}}", "key"))
                _walk(v, out, memo, f"{path}{{{kt}}}")
        elif isinstance(o, dict):
            out.append((path, f"dict:{t.__name__}:{len(o)}"))
            for kt, v in sorted(((_ktoken(k), v) for k, v in list(o.items())), key=lambda kv: kv[0]):
                _walk(v, out, memo, f"{path}{{{kt}}}")
        elif isinstance(o, list):
            out.append((path, f"list:{len(o)}"))
            for i, x in enumerate(o):
                _walk(x, out, memo, f"{path}[{i}]")
        elif isinstance(o, set):
            out.append((path, "set:" + ",".join(sorted(_ktoken(x) for x in o))))
        elif isinstance(o, io.BytesIO):
            out.append((path, "bytesio:" + _sha(o.getvalue())))
        else:
            out.append((path, "obj:" + t.__module__ + "." + t.__qualname__))
            state = {}
            if hasattr(o, "__dict__"):
                state.update(o.__dict__)
            for cls in t.__mro__:
                for s in getattr(cls, "__slots__", ()) or ():
                    if isinstance(s, str) and hasattr(o, s) and s not in ("__dict__", "__weakref__"):
                        state[s] = getattr(o, s)
            if not state and not hasattr(o, "__dict__"):
                out.append((path, "repr:" + repr(o)))
            for k in sorted(state):
                _walk(state[k], out, memo, f"{path}.{k}")


def snapshot(obj):
    """-> (digest, leaves)"""
    out = []
    _walk(obj, out, {}, "")
    h = hashlib.sha256()
    for p, tk in out:
        h.update(p.encode())
        h.update(b"\x00")
        h.update(tk.encode("utf-8", "surrogatepass"))
        h.update(b"\x01")
    return h.hexdigest(), out


def first_diff(a, b):
    for i, (x, y) in enumerate(zip(a, b)):
        if x != y:
            return f"at {x[0] or '<root>'}: {x[1][:80]!r} -> {y[0] if y[0] != x[0] else ''}{y[1][:80]!r}"
    if len(a) != len(b):
        longer = a if len(a) > len(b) else b
        return f"structure size {len(a)} -> {len(b)}; first extra leaf {longer[min(len(a), len(b))][0]}"
    return "no difference"


# ----------------------------------------------------------------------------------------------
# inputs: JSON description -> real atomica objects
# ----------------------------------------------------------------------------------------------
_DEMO = {}


def demo_master(name):
    import atomica as at

    if name not in _DEMO:
        P = at.demo(name, do_run=False)
        fcns = [str(f) for f in P.framework.pars["function"].tolist() if isinstance(f, str)]
        if any("rand" in f for f in fcns):
            raise RuntimeError(f"demo {name} calls rand/randn; excluded by the property")
        _DEMO[name] = P
    return _DEMO[name]


def _ts(v, units=None):
    from atomica.utils import TimeSeries

    ts = TimeSeries(units=units)
    if isinstance(v, dict):
        if v.get("assumption") is not None:
            ts.assumption = float(v["assumption"])
        for t, x in zip(v.get("t", []), v.get("v", [])):
            ts.insert(float(t), float(x))
    elif v is not None:
        ts.assumption = float(v)
    return ts


def build_progset(pspec, fw, data, start):
    import atomica as at

    ps = at.ProgramSet.new(name=pspec.get("name", "default"), tvec=np.array([float(start), float(start) + 1.0]), progs={p["name"]: p["label"] for p in pspec["progs"]}, framework=fw, data=data)
    for p in pspec["progs"]:
        prog = ps.programs[p["name"]]
        prog.target_pops = list(p["target_pops"])
        prog.target_comps = list(p["target_comps"])
        prog.spend_data = _ts(p["spend"], "$/year")
        prog.unit_cost = _ts(p["unit_cost"], p["uc_units"])
        if p.get("capcon") is not None:
            prog.capacity_constraint = _ts(p["capcon"], p.get("cc_units", "people/year"))
        if p.get("saturation") is not None:
            prog.saturation = _ts(p["saturation"], "N.A.")
    for c in pspec["covouts"]:
        ps.covouts[(c["par"], c["pop"])] = at.programs.Covout(par=c["par"], pop=c["pop"], progs=dict(c["progs"]), cov_interaction=c["cov"], imp_interaction=c.get("imp"), baseline=c["baseline"])
    return ps


def build_instructions(ispec, progset=None):
    import atomica as at

    alloc = {}
    for k, v in (ispec.get("alloc") or {}).items():
        alloc[k] = _ts(v, "$/year") if isinstance(v, dict) else float(v)
    for k, f in (ispec.get("alloc_scale") or {}).items():  # library projects: multiples of the program book spending at the start year
        alloc[k] = float(progset.programs[k].spend_data.interpolate(ispec["start"], method="previous")[0]) * float(f)
    cov = {k: (_ts(v) if isinstance(v, dict) else float(v)) for k, v in (ispec.get("coverage") or {}).items()}
    cap = {k: (_ts(v) if isinstance(v, dict) else float(v)) for k, v in (ispec.get("capacity") or {}).items()}
    return at.ProgramInstructions(start_year=ispec["start"], stop_year=ispec.get("stop"), alloc=alloc or None, coverage=cov or None, capacity=cap or None)


class Inputs:
    """the six input objects of one project (+ the Project itself for library projects)"""

    NAMES = ["framework", "data", "parset", "settings", "progset", "instructions"]

    def __init__(self, desc):
        import atomica as at
        import sciris as sc

        self.desc = desc
        self.project = None
        if desc["kind"] == "gen":
            self.framework, self.data, self.parset, self.settings = genfw.build(desc["spec"])
            start = desc["spec"]["settings"][0]
            self.progset = build_progset(desc["prog"], self.framework, self.data, start) if desc.get("prog") else None
            self.instructions = build_instructions(desc["prog"]["instr"]) if desc.get("prog") else None
        else:
            P = sc.dcp(demo_master(desc["name"]))
            s0, s1, dt = desc["settings"]
            P.settings.update_time_vector(start=s0, end=s1, dt=dt)
            for par, f in (desc.get("meta_y") or {}).items():
                P.parsets[0].pars[par].meta_y_factor = float(f)
            self.project = P
            self.framework, self.data, self.parset, self.settings = P.framework, P.data, P.parsets[0], P.settings
            self.progset = P.progsets[0] if desc.get("prog") else None
            self.instructions = build_instructions(desc["prog"]["instr"], self.progset) if desc.get("prog") else None

    def objects(self):
        out = [(n, getattr(self, n)) for n in self.NAMES if getattr(self, n) is not None]
        if self.project is not None:
            P = self.project
            out.append(("project", {"name": P.name, "results": list(P.results.keys()), "parsets": list(P.parsets.keys()), "progsets": list(P.progsets.keys()), "scens": list(P.scens.keys()), "optims": list(P.optims.keys())}))
        return out

    def args(self, prog, instructions=None):
        if prog:
            return (self.settings, self.framework, self.parset, self.progset, instructions if instructions is not None else self.instructions)
        return (self.settings, self.framework, self.parset, None, None)


# ----------------------------------------------------------------------------------------------
# observations
# ----------------------------------------------------------------------------------------------
HEX8 = re.compile(r"^[0-9a-f]{8}$")


def _masked(v):
    """ids with the random 8-hex name of parameter-less (residual) links replaced: `sc.uuid` differs between runs by design"""
    i = tuple(v.id)
    if len(i) == 4 and HEX8.match(i[-1]):
        return i[:-1] + ("<uuid>",)
    return i


def observe(model, result=None):
    """ordered {name: ndarray (copy)} of everything a Result exposes as arrays"""
    import atomica as at

    def arrays():
        obs = collections.OrderedDict()
        obs["t"] = np.array(model.t)
        obs["dt"] = np.array(float(model.dt))
        for pi, pop in enumerate(model.pops):
            for kind, lst in (("comp", pop.comps), ("charac", pop.characs), ("par", pop.pars), ("link", pop.links)):
                for i, v in enumerate(lst):
                    key = f"{pi}/{kind}/{i}/" + ":".join(_masked(v))
                    obs[key] = np.array(v.vals)
                    inner = getattr(v, "_vals", None)
                    if inner is not None and kind in ("comp", "link"):
                        obs[key + "/_vals"] = np.array(inner)
        return obs

    obs = arrays()
    if model.progset is not None:
        res = result if result is not None else at.Result(model=model, parset=None, name="obs")
        al = res.get_alloc()
        for k in al:
            obs["alloc/" + k] = np.array(al[k])
        for qn in ("capacity", "eligible", "fraction", "number"):
            cv = res.get_coverage(qn)
            for k in cv:
                obs[f"coverage/{qn}/{k}"] = np.array(cv[k])
        sub = np.array(model.t)[[0, len(model.t) // 2]]  # the same queries for two chosen years (a stored/cached full-length answer would show)
        al = res.get_alloc(year=sub)
        for k in al:
            obs["alloc@sub/" + k] = np.array(al[k])
        for qn in ("capacity", "fraction"):
            cv = res.get_coverage(qn, year=sub)
            for k in cv:
                obs[f"coverage@sub/{qn}/{k}"] = np.array(cv[k])
        again = arrays()  # the queries above must not have changed the stored arrays
        for k, a in again.items():
            if digest_arr(a) != digest_arr(obs[k]):
                obs["__mutated_by_query__/" + k] = a
    return obs


def digest_arr(a):
    a = np.asarray(a)
    return _sha(str(a.dtype).encode() + str(a.shape).encode() + np.ascontiguousarray(a).tobytes())


def digests(obs):
    return collections.OrderedDict((k, digest_arr(v)) for k, v in obs.items())


def compare_obs(first, dg):
    """first: {"dg":…, "arr":… or None}; -> description of the first differences or None"""
    fd = first["dg"]
    if list(fd.items()) == list(dg.items()):
        return None
    msgs = []
    if list(fd.keys()) != list(dg.keys()):
        extra = [k for k in dg if k not in fd][:3]
        missing = [k for k in fd if k not in dg][:3]
        msgs.append(f"array sets differ (extra {extra}, missing {missing})")
    bad = [k for k in fd if k in dg and fd[k] != dg[k]]
    msgs.append(f"{len(bad)} of {len(fd)} arrays differ bitwise, first: {bad[:4]}")
    return "; ".join(msgs)


def maxdiff(a, b):
    try:
        a, b = np.asarray(a, dtype=float), np.asarray(b, dtype=float)
        if a.shape != b.shape:
            return f"shapes {a.shape} vs {b.shape}"
        d = np.abs(np.nan_to_num(a, nan=0.0, posinf=1e300, neginf=-1e300) - np.nan_to_num(b, nan=0.0, posinf=1e300, neginf=-1e300))
        j = int(np.argmax(d)) if d.size else 0
        return f"max |diff| {float(d.max()) if d.size else 0.0!r} at flat index {j}: {a.ravel()[j]!r} vs {b.ravel()[j]!r}" if d.size else "empty"
    except Exception as e:  # pragma: no cover
        return f"(not comparable: {e})"


# ----------------------------------------------------------------------------------------------
# reference graph of a built Model  <->  Lean model (request kind `relink`)
# ----------------------------------------------------------------------------------------------
def _objs(pop):
    return pop.comps + pop.characs + pop.pars + pop.links


def _fields(o):
    from atomica import model as M

    if isinstance(o, M.Compartment):
        f = [o.outlinks, o.inlinks]
        if isinstance(o, M.TimedCompartment):
            f.append([o.flush_link] if o.flush_link else [])
        return f
    if isinstance(o, M.Characteristic):
        return [o.includes, [o.denominator] if o.denominator is not None else []]
    if isinstance(o, M.Parameter):
        return [o.links] + ([o.deps[k] for k in o.deps] if o.deps is not None else [])
    if isinstance(o, M.Link):
        return [[o.parameter] if o.parameter is not None else [], [o.source], [o.dest]]
    raise TypeError(f"unknown integration object {type(o)}")


class Interner:
    def __init__(self):
        self.m = {}

    def __call__(self, s):
        if not isinstance(s, str):
            s = repr(s)
        if s not in self.m:
            self.m[s] = f"s{len(self.m)}"
        return self.m[s]


def graph_tokens(m, intern):
    """reference structure of a Model in either state: list of ref tokens per object (pop ref, then per field `n refs…`) and the request body"""
    addr, paddr = {}, {}
    for p, pop in enumerate(m.pops):
        paddr[id(pop)] = p
        for i, o in enumerate(_objs(pop)):
            addr[id(o)] = (p, i)

    escaped = []

    def ref(x):
        if isinstance(x, str):
            return f"K 1 {intern(x)}"
        if isinstance(x, tuple):
            return f"K {len(x)} " + " ".join(intern(s) for s in x)
        if id(x) in paddr:
            return f"P {paddr[id(x)]}"
        if id(x) in addr:
            return "V %d %d" % addr[id(x)]
        escaped.append(repr(x))
        return "X"

    refs, body = [], [str(len(m.pops))]
    for pop in m.pops:
        objs = _objs(pop)
        body += [intern(pop.name), str(len(objs))]
        for o in objs:
            fl = _fields(o)
            r = [ref(o.pop)]
            for f in fl:
                r.append(str(len(f)))
                r += [ref(x) for x in f]
            refs += r
            has_fcn = "1" if getattr(o, "fcn_str", None) else "0"
            body += [str(len(o.id))] + [intern(s) for s in o.id] + [has_fcn] + r[:1] + [str(len(fl))] + r[1:]
    return " ".join(refs), " ".join(body), escaped


def shared_state(a, b):
    """objects or array storage that two models have in common (a copy must share nothing mutable with its original)"""
    ia = {id(o) for pop in a.pops for o in _objs(pop)} | {id(pop) for pop in a.pops}
    shared = [repr(o) for pop in b.pops for o in [pop] + _objs(pop) if id(o) in ia]
    if not shared:
        for pa, pb in zip(a.pops, b.pops):
            for oa, ob in zip(_objs(pa), _objs(pb)):
                for attr in ("vals", "_vals"):
                    xa, xb = oa.__dict__.get(attr), ob.__dict__.get(attr)
                    if isinstance(xa, np.ndarray) and isinstance(xb, np.ndarray) and np.shares_memory(xa, xb):
                        shared.append(f"{oa!r}.{attr} (array storage)")
    for attr in ("progset", "program_instructions", "framework"):
        if getattr(a, attr) is not None and getattr(a, attr) is getattr(b, attr):
            shared.append(attr)
    return shared


def timed_parameter_ok(m):
    """TimedCompartment.parameter is a reference that unlink() leaves alone: it must be the model's own Parameter object"""
    from atomica import model as M

    for pop in m.pops:
        for c in pop.comps:
            if isinstance(c, M.TimedCompartment):
                if c.parameter is not pop.par_lookup.get(c.parameter.name):
                    return f"{c.id}.parameter is not the population's own Parameter object"
    return None


def caches_state(m):
    return (m._vars_by_pop is not None, m._exec_order is not None, m._program_cache is not None,
            all(p.is_linked and p.comp_lookup is not None and p.par_lookup is not None and p.charac_lookup is not None and p.link_lookup is not None for p in m.pops),
            all((par._fcn is not None) == bool(par.fcn_str) for p in m.pops for par in p.pars))


# ----------------------------------------------------------------------------------------------
# one history
# ----------------------------------------------------------------------------------------------
class SourceChanged(Exception):
    pass


class Rec:
    """what a history reports back (plain data, so that it crosses process boundaries)"""

    def __init__(self):
        self.counts = collections.Counter()
        self.violations = []
        self.breaks = []
        self.hyp_checked = self.hyp_held = self.traces = self.disagreements = 0
        self.notes = []

    def count(self, k, n=1):
        self.counts[k] += n

    def as_dict(self):
        return {"counts": dict(self.counts), "violations": self.violations, "breaks": self.breaks, "hyp": [self.hyp_checked, self.hyp_held],
                "traces": self.traces, "disagreements": self.disagreements, "notes": self.notes}


def source_digest():
    """content hash of the atomica sources in use (the library may be edited while a check runs: then runs are not comparable)"""
    import atomica

    root = os.path.dirname(os.path.abspath(atomica.__file__))
    h = hashlib.sha1()
    for fn in sorted(os.listdir(root)):
        if fn.endswith(".py"):
            with open(os.path.join(root, fn), "rb") as f:
                h.update(fn.encode() + b"\0" + f.read())
    return h.hexdigest()[:16]


def child_env(hashseed, threads=1):
    env = dict(os.environ)
    env["PYTHONHASHSEED"] = str(hashseed)
    for k in ("OMP_NUM_THREADS", "OPENBLAS_NUM_THREADS", "MKL_NUM_THREADS"):  # BLAS threading of the fresh interpreter: 1, several, or the library default
        if threads is None:
            env.pop(k, None)
        else:
            env[k] = str(threads)
    env["PYTHONPATH"] = str(core.VERIF / "harness") + (":" + env["PYTHONPATH"] if env.get("PYTHONPATH") else "")
    return env


def launch_child(jobs, hashseed, threads=1):
    p = subprocess.Popen([sys.executable, os.path.abspath(__file__), "--child"], stdin=subprocess.PIPE, stdout=subprocess.PIPE, stderr=subprocess.PIPE, env=child_env(hashseed, threads), cwd=str(core.VERIF))
    p.stdin.write(json.dumps({"jobs": jobs}).encode())
    p.stdin.close()
    return p


def launch_children(h, children):
    """fresh interpreters for the `fresh` operations of a history: started ahead of time, read when the operation comes up"""
    for k, o in enumerate(h["ops"]):
        if o["op"] == "fresh" and k not in children:
            jobs = [{"desc": h[jp], "prog": jprog, "edit": jedit} for (jp, jprog, jedit) in o["jobs"]]
            children[k] = launch_child(jobs, o["hashseed"], o.get("threads", 1))


def collect_child(p, timeout=600):
    try:
        out = p.stdout.read()
        err = p.stderr.read()
        p.wait(timeout=timeout)
    except Exception as e:  # pragma: no cover
        p.kill()
        return None, f"child failed: {e}"
    if p.returncode != 0:
        return None, f"child exit {p.returncode}: {err.decode()[-600:]}"
    line = [ln for ln in out.decode().split("\n") if ln.startswith("C08CHILD ")]
    if not line:
        return None, f"child printed no result: {out.decode()[-300:]} {err.decode()[-300:]}"
    return json.loads(line[-1][len("C08CHILD "):]), None


def child_main():
    """fresh interpreter: build each described input, run it, print the digests of all arrays"""
    import logging
    import warnings

    warnings.filterwarnings("ignore")
    import atomica as at

    at.logger.setLevel(logging.ERROR)
    req = json.loads(sys.stdin.read())
    outs = []
    for job in req["jobs"]:
        inp = Inputs(job["desc"])
        instr = None
        if job.get("edit") is not None:
            instr = edited_instructions(inp.instructions, job["edit"])
        res = at.run_model(*inp.args(job["prog"], instr))
        outs.append(digests(observe(res.model, res)))
    print("C08CHILD " + json.dumps({"obs": [list(d.items()) for d in outs], "hashseed": os.environ.get("PYTHONHASHSEED"), "source": source_digest()}))
    sys.stdout.flush()


def edit_in_place(instructions, edit):
    """what Optimization.update_instructions does to the unpickled model's instructions: overwrite spending from a year on"""
    for prog, (year, factor) in sorted(edit.items()):
        ts = instructions.alloc[prog]
        cur = float(ts.interpolate(year, method="previous")[0])
        ts.insert(float(year), cur * float(factor))


def edited_instructions(instructions, edit):
    import sciris as sc

    new = sc.dcp(instructions)
    edit_in_place(new, edit)
    return new


def perturb_inputs(inp):
    """edit every input object in a way that would change results if the Model still shared it"""
    if inp.progset is not None:
        for prog in inp.progset.programs.values():
            for ts in (prog.spend_data, prog.unit_cost):
                ts.vals = [v * 3.0 + 1.0 for v in ts.vals]
                if ts.assumption is not None:
                    ts.assumption = ts.assumption * 3.0 + 1.0
            prog.target_comps = list(prog.target_comps)[:1]
        for cv in inp.progset.covouts.values():
            for k in cv.progs:
                cv.progs[k] = cv.progs[k] * 0.5 + 0.05
            cv.baseline = cv.baseline * 0.5
            cv.update_outcomes()
    if inp.instructions is not None:
        inp.instructions.start_year = inp.instructions.start_year + 1.0
        for d in (inp.instructions.alloc, inp.instructions.coverage, inp.instructions.capacity):
            for ts in d.values():
                ts.vals = [v * 0.5 for v in ts.vals]
                if ts.assumption is not None:
                    ts.assumption *= 0.5
    fw = inp.framework
    fw.pars.loc[:, "maximum value"] = 0.0
    fw.pars.loc[:, "timescale"] = 0.5
    for par in inp.parset.pars.values():
        par.meta_y_factor = par.meta_y_factor * 2.0
        for ts in par.ts.values():
            ts.vals = [v * 2.0 for v in ts.vals]
            if ts.assumption is not None:
                ts.assumption *= 2.0
    inp.settings.update_time_vector(dt=inp.settings.sim_dt / 2)


class History:
    def __init__(self, h, rec, lean_reqs, children=None):
        self.h = h
        self.rec = rec
        self.lean_reqs = lean_reqs  # list of (request line, expectation dict)
        self.r = random.Random(h["sub_seed"] ^ 0x5EED)
        self.inputs = {}
        self.first = {}     # input key -> {"dg", "arr", "op"}
        self.snap0 = {}     # (proj, objname) -> (digest, leaves)
        self.nobs = collections.Counter()
        self.obs_ops = collections.defaultdict(list)
        self.children = children if children is not None else {}
        self.step = -1
        self.tmp = None

    # --- plumbing ------------------------------------------------------------------------------
    def replay_data(self, extra=None):
        d = {"history": self.h, "step": self.step}
        if extra:
            d.update(extra)
        return d

    def violation(self, key, what, extra=None):
        self.rec.violations.append({"key": key, "what": what, "replay": self.replay_data(extra)})

    def ikey(self, proj, prog, edit=None):
        return f"{proj}{'+prog' if prog else ''}{('+edit' + json.dumps(edit, sort_keys=True)) if edit else ''}"

    def rng_state(self):
        s = np.random.get_state()
        return (s[0], _sha(s[1].tobytes()), s[2], s[3], s[4], _sha(repr(random.getstate()).encode()))

    def record(self, proj, prog, op, model, result=None, edit=None, what=""):
        """one observation: compare with the first one for this input"""
        key = self.ikey(proj, prog, edit)
        obs = observe(model, result)
        dg = digests(obs)
        self.rec.traces += 1
        self.nobs[key] += 1
        self.obs_ops[key].append((self.step, op))
        mut = [k for k in obs if k.startswith("__mutated_by_query__/")]
        if mut:
            self.violation({"oracle": "result-query-mutates", "op": op}, f"Result.get_alloc/get_coverage changed stored arrays of the result: {mut[:3]} (history step {self.step}, input {key})")
        nonfinite_t = not np.all(np.isfinite(obs["t"]))
        if nonfinite_t:
            self.rec.notes.append(f"non-finite time vector in {key}")
        if key not in self.first:
            self.first[key] = {"dg": dg, "arr": obs, "op": op, "step": self.step}
            return
        self.rec.count("obs.compared")
        bad = compare_obs(self.first[key], dg)
        if bad:
            f = self.first[key]
            k0 = next((k for k in f["dg"] if k in dg and f["dg"][k] != dg[k]), None)
            detail = maxdiff(f["arr"][k0], obs[k0]) if (k0 and f["arr"] is not None) else ""
            self.violation({"oracle": "bit-identical", "op": op, "first_op": f["op"]},
                           f"input {key}: observation by `{op}`{what} at step {self.step} differs from the first observation (by `{f['op']}` at step {f['step']}): {bad}; {k0}: {detail}")

    def record_digests(self, proj, prog, op, dg, edit=None, what=""):
        key = self.ikey(proj, prog, edit)
        dg = collections.OrderedDict(dg)
        self.rec.traces += 1
        self.nobs[key] += 1
        self.obs_ops[key].append((self.step, op))
        if key not in self.first:
            self.first[key] = {"dg": dg, "arr": None, "op": op, "step": self.step}
            return
        self.rec.count("obs.compared")
        bad = compare_obs(self.first[key], dg)
        if bad:
            f = self.first[key]
            self.violation({"oracle": "bit-identical", "op": op, "first_op": f["op"]},
                           f"input {key}: observation by `{op}`{what} at step {self.step} differs from the first observation (by `{f['op']}` at step {f['step']}): {bad}")

    def check_inputs(self, op):
        """every input object of every project of the history still hashes as it did when it was created"""
        for proj, inp in self.inputs.items():
            for name, obj in inp.objects():
                dg, leaves = snapshot(obj)
                d0, l0 = self.snap0[(proj, name)]
                self.rec.count("inputs.hashed")
                if dg != d0:
                    self.violation({"oracle": "input-unchanged", "object": name, "op": op},
                                   f"{name} of project {proj} ({inp.desc['kind']}) changed during `{op}` (step {self.step}): {first_diff(l0, leaves)}")
                    self.snap0[(proj, name)] = (dg, leaves)  # report each change once

    def check_model(self, m, proj, what):
        """hyp idsNodup + `linked` on a freshly built / copied model, via the Lean driver"""
        intern = Interner()
        refs, body, escaped = graph_tokens(m, intern)
        if escaped:
            self.violation({"oracle": "copy-self-contained", "op": what}, f"{what}: model of {proj} holds references to objects outside itself: {escaped[:3]}")
            return
        bad = timed_parameter_ok(m)
        if bad:
            self.violation({"oracle": "copy-self-contained", "op": what}, f"{what}: {bad}")
        self.lean_reqs.append(("relink " + body, {"kind": "hyp", "refs": refs, "what": what, "proj": proj, "step": self.step, "h": self.h["id"]}))

    def build_model(self, proj, prog, instructions=None, what="Model()"):
        from atomica.model import Model

        m = Model(*self.inputs[proj].args(prog, instructions))
        self.check_model(m, proj, what)
        return m

    def features(self, m):
        from atomica import model as M

        if any(HEX8.match(l.id[-1]) for p in m.pops for l in p.links):
            self.rec.count("model.has_residual_link")
        if any(isinstance(c, M.TimedCompartment) for p in m.pops for c in p.comps):
            self.rec.count("model.has_timed")
        if len(m.pops) > 1:
            self.rec.count("model.multi_pop")
        if any(isinstance(c, M.JunctionCompartment) for p in m.pops for c in p.comps):
            self.rec.count("model.has_junction")
        if any(par.fcn_str for p in m.pops for par in p.pars):
            self.rec.count("model.has_function")
        if m.programs_active:
            self.rec.count("model.programs_active")

    # --- operations ----------------------------------------------------------------------------
    def op_run(self, proj, prog, o):
        import atomica as at

        res = at.run_model(*self.inputs[proj].args(prog))
        self.features(res.model)
        self.record(proj, prog, "run", res.model, res)

    def op_runsim(self, proj, prog, o):
        import atomica as at

        inp = self.inputs[proj]
        if inp.project is None:
            return self.op_run(proj, prog, o)
        P = inp.project
        store = bool(o.get("store"))
        res = P.run_sim(inp.parset, inp.progset if prog else None, inp.instructions if prog else None, store_results=store)
        self.record(proj, prog, "runsim", res.model, res)
        if store:
            fn = os.path.join(self.tmpdir(), f"proj_{self.step}.prj")
            P.save(fn)
            P2 = at.Project.load(fn)
            r2 = P2.results[-1]
            self.record(proj, prog, "runsim", r2.model, r2, what=" (Project.save/Project.load, stored result)")
            P.results.clear()

    def op_dcp(self, proj, prog, o):
        import sciris as sc

        m = self.build_model(proj, prog)
        c = sc.dcp(m) if o.get("how", "sc") == "sc" else copy.deepcopy(m)
        if o.get("twice"):
            c = copy.deepcopy(c)
        self.check_model(c, proj, "deepcopy")
        sh = shared_state(m, c)
        if sh:
            self.violation({"oracle": "copy-disjoint", "op": "dcp"}, f"deep copy of the model of {proj} shares state with its original: {sh[:3]}")
        st = caches_state(m)
        if not (st[0] and st[3] and st[4]):
            self.violation({"oracle": "original-relinked", "op": "dcp"}, f"after deepcopy the original model is not fully relinked: (vars_by_pop, exec_order, program_cache, lookups, fcn) = {st}")
        c.process()
        self.record(proj, prog, "dcp", c, what=" (the copy)")
        m.process()
        self.record(proj, prog, "dcp", m, what=" (the original, processed after its copy)")

    def op_pickle(self, proj, prog, o):
        import sciris as sc

        m = self.build_model(proj, prog)
        how = o.get("how", "pickle")
        if how == "pickle":
            c = pickle.loads(pickle.dumps(m, protocol=o.get("protocol", pickle.HIGHEST_PROTOCOL)))
        else:
            c = sc.loadstr(sc.dumpstr(m))
        self.check_model(c, proj, "pickle round trip")
        sh = shared_state(m, c)
        if sh:
            self.violation({"oracle": "copy-disjoint", "op": "pickle"}, f"unpickled copy of the model of {proj} shares state with its original: {sh[:3]}")
        order = o.get("order", "copy-first")
        for which in (("copy", "orig") if order == "copy-first" else ("orig", "copy")):
            mm = c if which == "copy" else m
            mm.process()
            self.record(proj, prog, "pickle", mm, what=f" (the {'unpickled copy' if which == 'copy' else 'original'})")

    def op_saveload(self, proj, prog, o):
        import atomica as at
        import sciris as sc

        res = at.run_model(*self.inputs[proj].args(prog))
        how = o.get("how", "pickle")
        if how == "pickle":
            r2 = pickle.loads(pickle.dumps(res))
        elif how == "str":
            r2 = sc.loadstr(sc.dumpstr(res))
        elif how == "dcp":
            r2 = sc.dcp(res)
        else:
            fn = os.path.join(self.tmpdir(), f"res_{self.step}.obj")
            sc.saveobj(fn, res)
            r2 = sc.loadobj(fn)
        self.check_model(r2.model, proj, "Result save/load")
        self.record(proj, prog, "saveload", r2.model, r2, what=f" (loaded Result, {how})")
        self.record(proj, prog, "saveload", res.model, res, what=" (the Result that was saved)")

    def op_fresh(self, proj, prog, o):
        p = self.children.pop(self.step, None)
        if p is None:
            return
        out, err = collect_child(p)
        if err:
            self.rec.breaks.append({"kind": "correspondence", "what": f"fresh-process run failed: {err}", "replay": self.replay_data()})
            return
        if out.get("source") != source_digest():
            raise SourceChanged("the atomica sources changed while the check was running (fresh interpreter imported different code)")
        for (jp, jprog, jedit), dg in zip(o["jobs"], out["obs"]):
            self.record_digests(jp, jprog, "fresh", [tuple(x) for x in dg], edit=jedit, what=f" (fresh interpreter, PYTHONHASHSEED={out['hashseed']}, BLAS threads {o.get('threads', 1)}, job order {[j[0] for j in o['jobs']]})")

    def op_rebuild(self, proj, prog, o):
        import atomica as at

        inp2 = Inputs(self.inputs[proj].desc)
        res = at.run_model(*inp2.args(prog))
        self.record(proj, prog, "rebuild", res.model, res, what=" (inputs rebuilt from their description)")

    def op_relinkrun(self, proj, prog, o):
        from atomica.model import Model

        inp = self.inputs[proj]
        m = Model(*inp.args(prog))
        intern = Interner()
        refs0, body, esc = graph_tokens(m, intern)
        m.unlink()
        if o.get("twice"):
            m.unlink()
        st_u = caches_state(m)
        refs_u, _, _ = graph_tokens(m, intern)
        m.relink()
        if o.get("twice"):
            m.relink()
        st_r = caches_state(m)
        refs_r, _, esc_r = graph_tokens(m, intern)
        self.rec.count("graph.corr")
        self.lean_reqs.append(("relink " + body, {"kind": "corr", "refs": refs0, "U": refs_u, "R": refs_r, "what": "unlink/relink", "proj": proj, "step": self.step, "h": self.h["id"],
                                                  "caches_u": st_u, "caches_r": st_r}))
        m.process()
        self.record(proj, prog, "relinkrun", m, what=" (after explicit unlink()+relink())")
        if o.get("dup"):
            self.dup_probe(proj, prog)

    def dup_probe(self, proj, prog):
        """give two objects the same id on purpose: Lean (`idsNodup = false`) and Python must agree where the references end up"""
        from atomica.model import Model

        m = Model(*self.inputs[proj].args(prog))
        pop = self.r.choice(m.pops)
        groups = [g for g in (pop.comps, pop.characs, pop.pars) if g]
        a = self.r.choice(self.r.choice(groups))
        cands = [x for g in groups for x in g if x is not a]
        if not cands:
            return
        b = self.r.choice(cands)
        b.id = a.id
        intern = Interner()
        refs0, body, _ = graph_tokens(m, intern)
        try:
            m.unlink()
            refs_u, _, _ = graph_tokens(m, intern)
            m.relink()
            refs_r, _, _ = graph_tokens(m, intern)
        except Exception as e:
            refs_u, refs_r = "err", f"err {type(e).__name__}"
        self.rec.count("graph.dup_probe")
        self.lean_reqs.append(("relink " + body, {"kind": "dup", "refs": refs0, "U": refs_u, "R": refs_r, "what": f"duplicate id probe {a.id}", "proj": proj, "step": self.step, "h": self.h["id"]}))

    def op_optim(self, proj, prog, o):
        import atomica as at

        inp = self.inputs[proj]
        if not prog or inp.progset is None or not o.get("edit"):
            return self.op_pickle(proj, prog, o)
        edit = o["edit"]
        m = self.build_model(proj, True)
        pickled = pickle.dumps(m)
        m1 = pickle.loads(pickled)
        edit_in_place(m1.program_instructions, edit)
        m1.process()
        self.record(proj, True, "optim", m1, edit=edit, what=" (unpickled model, instructions edited in place)")
        direct = at.run_model(*inp.args(True, edited_instructions(inp.instructions, edit)))
        self.record(proj, True, "optim", direct.model, direct, edit=edit, what=" (direct run with equally edited instructions)")
        m2 = pickle.loads(pickled)
        m2.process()
        self.record(proj, True, "optim", m2, what=" (second unpickling of the same bytes, after the first copy was edited and run)")
        # the same edit on a model that was never copied or pickled: what is simulated is a function of the instructions the model holds when process() starts
        from atomica.model import Model
        m3 = Model(*inp.args(True))
        edit_in_place(m3.program_instructions, edit)
        m3.process()
        self.record(proj, True, "optim", m3, edit=edit, what=" (freshly built model, never copied, instructions edited in place before process())")

    def op_alias(self, proj, prog, o):
        """Model.__init__ must copy what it keeps: private inputs are edited after construction (and again after the run)"""
        import atomica as at
        from atomica.model import Model

        inp2 = Inputs(self.inputs[proj].desc)
        m = Model(*inp2.args(prog))
        if o.get("when", "before") == "before":
            perturb_inputs(inp2)
        m.process()
        res = at.Result(model=m, parset=inp2.parset, name="alias")
        self.record(proj, prog, "alias", m, res, what=" (private inputs edited after Model() and before process())")
        kept = [snapshot(x)[0] for x in (m.framework, m.progset, m.program_instructions)]
        perturb_inputs(inp2)
        self.record(proj, prog, "alias", m, res, what=" (private inputs edited after the run)")
        if kept != [snapshot(x)[0] for x in (m.framework, m.progset, m.program_instructions)]:
            self.violation({"oracle": "model-owns-its-copies", "op": "alias"}, f"editing the caller's framework/progset/instructions after the run changed the ones stored in the Model (project {proj})")

    def op_objective(self, proj, prog, o):
        """optimization._objective_fcn: every evaluation starts from the same pickled model -> a function of x alone"""
        import atomica as at
        from atomica import optimization as opt
        from atomica.model import Model

        inp = self.inputs[proj]
        if not prog or inp.progset is None or not o.get("progs"):
            return self.op_pickle(proj, prog, o)
        s0, s1 = float(inp.settings.sim_start), float(inp.settings.sim_end)
        adjustments = [opt.SpendingAdjustment(nm, o["t_adj"], "abs", 0.0, np.inf) for nm in o["progs"]]
        measurables = [opt.MaximizeMeasurable(o["measure"], [s0, s1])] + ([opt.MinimizeMeasurable(o["progs"][0], [s0, s1])] if o.get("spend_term") else [])
        optim = opt.Optimization(name="c08", adjustments=adjustments, measurables=measurables, constraints=opt.TotalSpendConstraint() if o.get("constrain") else None, method="asd")
        model = self.build_model(proj, True)
        pickled = pickle.dumps(model)
        x0, xmin, xmax = optim.get_initialization(inp.progset, model.program_instructions)
        hard = optim.get_hard_constraints(x0, model.program_instructions)
        base = optim.get_baselines(pickled)
        xs = [np.array(x0, dtype=float), np.array(x0, dtype=float) * np.array(o["factors"][: len(x0)]) + np.array(o["shift"][: len(x0)])]
        snap_opt = snapshot(optim)[0]
        vals = []
        for x in (xs[0], xs[1], xs[0], xs[1], xs[1]):
            vals.append(float(opt._objective_fcn(x.copy(), pickled, optim, hard, base)))
        self.rec.count("objective.compared", 3)
        self.rec.traces += 1
        hx = [v.hex() for v in vals]
        if hx[0] != hx[2] or hx[1] != hx[3] or hx[1] != hx[4]:
            self.violation({"oracle": "objective-function-of-x", "op": "objective"}, f"optimization._objective_fcn is not a function of x on project {proj}: f(x0), f(x1), f(x0), f(x1), f(x1) = {vals}", {"x": [x.tolist() for x in xs]})
        if snapshot(optim)[0] != snap_opt:
            self.violation({"oracle": "input-unchanged", "object": "optimization", "op": "objective"}, f"_objective_fcn changed the Optimization object (project {proj})")
        # the same evaluation without the pickled model: direct run on equally edited instructions
        instr = __import__("sciris").dcp(inp.instructions)
        try:
            optim.update_instructions(xs[1], instr)
            optim.constrain_instructions(instr, hard)
            res = at.run_model(*inp.args(True, instr))
            direct = float(optim.compute_objective(res.model, base))
        except opt.FailedConstraint:
            direct = float("inf")
        if direct.hex() != hx[1]:
            self.violation({"oracle": "bit-identical", "op": "objective", "first_op": "objective"}, f"objective from the unpickled model {vals[1]!r} differs from a direct run on equally edited instructions {direct!r} (project {proj})", {"x": [x.tolist() for x in xs]})
        # and the pickled model still runs as the plain input
        m2 = pickle.loads(pickled)
        m2.process()
        self.record(proj, True, "objective", m2, what=" (the pickled model after five objective evaluations)")

    def op_raised(self, proj, prog, o, e, tb):
        """an operation raised: fine only if a plain run of the same input raises the same way, every time"""
        import atomica as at

        k = self.step
        key = self.ikey(proj, prog)
        sig = f"raised {type(e).__name__}: {str(e)[:160]}"
        where = tb.strip().splitlines()[-3].strip()[:140] if len(tb.strip().splitlines()) >= 3 else ""
        plain = None
        if o["op"] != "run":
            try:
                at.run_model(*self.inputs[proj].args(prog))
                plain = "completes"
            except Exception as e2:
                plain = type(e2).__name__
        self.nobs[key] += 1
        first = self.first.get(key)
        first_exc = first["dg"].get("__exception__") if first else None
        if plain == "completes" or (first is not None and first_exc is None):
            self.violation({"oracle": "op-raises", "op": o["op"], "raised": type(e).__name__},
                           f"input {key}: `{o['op']}` at step {k} {sig} [{where}], although a plain run of the same input completes")
        elif first is None:
            self.first[key] = {"dg": collections.OrderedDict([("__exception__", sig)]), "arr": None, "op": o["op"], "step": k}
            self.rec.count("op.raised_first")
            self.rec.notes.append(f"history {self.h['id']} step {k} `{o['op']}` on {key}: {sig} @ {where}")
        elif first_exc.split(":")[0] == sig.split(":")[0]:
            self.rec.count("op.raised_again_consistently")
        else:
            self.violation({"oracle": "bit-identical", "op": o["op"], "first_op": first["op"], "raised": type(e).__name__},
                           f"input {key}: `{o['op']}` at step {k} {sig}, but the first observation (by `{first['op']}`) {first_exc}")

    def tmpdir(self):
        if self.tmp is None:
            self.tmp = tempfile.mkdtemp(prefix="c08_")
        return self.tmp

    # --- driver --------------------------------------------------------------------------------
    def run(self):
        h = self.h
        rec = self.rec
        for proj in ("A", "B"):
            self.inputs[proj] = Inputs(h[proj])
            rec.count("input." + h[proj]["kind"])
            rec.count("input.prog" if h[proj].get("prog") else "input.noprog")
            for name, obj in self.inputs[proj].objects():
                self.snap0[(proj, name)] = snapshot(obj)
        launch_children(h, self.children)  # (normally started ahead of time by run_histories)
        rng0 = self.rng_state()
        last_proj = None
        try:
            for k, o in enumerate(h["ops"]):
                self.step = k
                proj, prog = o["proj"], bool(o["prog"]) and self.inputs[o["proj"]].progset is not None
                rec.count("op." + o["op"])
                if last_proj is not None and last_proj != proj:
                    rec.count("interleaved.other_project")
                last_proj = proj
                try:
                    getattr(self, "op_" + o["op"])(proj, prog, o)
                except SourceChanged:
                    raise
                except Exception as e:
                    self.op_raised(proj, prog, o, e, traceback.format_exc())
                self.check_inputs(o["op"])
                if self.rng_state() != rng0:
                    self.violation({"oracle": "no-rng-draw", "op": o["op"]}, f"`{o['op']}` on {proj} at step {k} advanced the numpy / random generator state")
                    rng0 = self.rng_state()
        finally:
            for p in self.children.values():
                try:
                    p.kill()
                except Exception:
                    pass
            if self.tmp:
                import shutil

                shutil.rmtree(self.tmp, ignore_errors=True)
        # non-trivial: an input observed twice with something other than two plain runs, or with another project in between
        nontrivial = False
        for key, lst in self.obs_ops.items():
            if len(lst) >= 2:
                ops = {op for _, op in lst}
                steps = [s for s, _ in lst]
                between = any(self.h["ops"][s]["proj"] != key[0] for s in range(min(steps), max(steps) + 1))
                if ops - {"run"} or between:
                    nontrivial = True
        return nontrivial


def check_lean(lean_reqs, rec_by_h, hist_by_id):
    """send all graphs to the driver; compare with what the real code did"""
    if not lean_reqs:
        return
    reps = core.drive([ln for ln, _ in lean_reqs])
    for (ln, ex), rep in zip(lean_reqs, reps):
        rec = rec_by_h[ex["h"]]
        rp = {"history": hist_by_id[ex["h"]], "step": ex["step"], "lean_reply": rep[:300]}
        tk = rep.split(" ")
        if tk[0] != "ok":
            rec.breaks.append({"kind": "correspondence", "what": f"driver rejected a graph ({ex['what']}): {rep[:200]}", "replay": rp})
            continue
        nodup, linked, rt = tk[1] == "1", tk[2] == "1", tk[3] == "1"
        iu, ir = tk.index("U"), tk.index("R")
        U, R = " ".join(tk[iu + 1:ir]), " ".join(tk[ir + 1:])
        if ex["kind"] in ("hyp", "corr"):
            rec.hyp_checked += 1
            if nodup and linked:
                rec.hyp_held += 1
            else:
                # ids not distinct / not fully linked on a model the library built itself: the theorem does not cover this model
                rec.violations.append({"key": {"oracle": "hyp-idsNodup", "nodup": nodup, "linked": linked},
                                       "what": f"model built for project {ex['proj']} ({ex['what']}): idsNodup={nodup}, linked={linked} -- the hypothesis of relink_unlink fails on a real model", "replay": rp})
            if nodup and linked and not rt:
                rec.breaks.append({"kind": "proof", "what": "Lean round trip false although idsNodup and linked hold (contradicts relink_unlink)", "replay": rp})
        if ex["kind"] in ("corr", "dup"):
            rec.count("graph.compared")
            rec.traces += 1
            ok_u = (U == ex["U"])
            ok_r = (R == ex["R"])
            if ex["kind"] == "corr":
                st_u, st_r = ex["caches_u"], ex["caches_r"]
                # model: unlink drops vars_by_pop, exec_order, program_cache, lookups, parsed functions; relink restores all but exec_order/program_cache
                fcn_u = all(not c for c in [st_u[0], st_u[1], st_u[2], st_u[3]])
                flags_ok = fcn_u and st_r[0] and (not st_r[1]) and (not st_r[2]) and st_r[3] and st_r[4]
                same = (ex["R"] == ex["refs"])
                if not (ok_u and ok_r and flags_ok and same == rt):
                    rec.disagreements += 1
                    if not same:
                        rec.violations.append({"key": {"oracle": "relink-unlink-identity"}, "what": f"real Model.unlink()+relink() did not restore the reference graph of project {ex['proj']}", "replay": rp})
                    else:
                        rec.breaks.append({"kind": "correspondence", "what": f"unlink/relink: Lean model and implementation differ (unlinked refs equal: {ok_u}, relinked refs equal: {ok_r}, cache flags as modelled: {flags_ok} {st_u} {st_r}, round trip impl {same} vs model {rt})", "replay": rp})
            else:
                if nodup:
                    rec.notes.append("dup probe did not create a duplicate")
                if not (ok_u and ok_r):
                    rec.disagreements += 1
                    rec.breaks.append({"kind": "correspondence", "what": f"duplicate-id probe ({ex['what']}): Lean and implementation disagree on the relinked graph (U equal {ok_u}, R equal {ok_r})", "replay": rp})
                elif not nodup and rt:
                    rec.count("graph.dup_harmless")  # the two objects were never referenced
                elif not nodup:
                    rec.count("graph.dup_redirects")


# ----------------------------------------------------------------------------------------------
# generation of histories
# ----------------------------------------------------------------------------------------------
def _outcome(r, fmt):
    if fmt in ("rate", "probability", "proportion"):
        return r.choice([0.0, 1.0, round(r.random(), 3), round(r.random() * 0.5, 3)])
    if fmt == "duration":
        return round(0.3 + r.random() * 4, 3)
    if fmt == "number":
        return r.choice([0.0, round(r.random() * 5, 3)])
    return round(r.random(), 3)


def gen_progspec(r, spec):
    """program set + instructions for a generated spec (marks 1-2 parameters targetable in the spec)"""
    cands = [p for p in spec["pars"] if not p.get("function") and not p.get("timed")]
    if not cands:
        return None
    targets = r.sample(cands, min(len(cands), r.choice([1, 1, 2])))
    for p in targets:
        p["targetable"] = True
    start, end, dt = spec["settings"]
    pops = spec["pops"]
    stocks = [c["name"] for c in spec["comps"] if c["kind"] == "normal"]
    names = ["prA", "prB", "prC"][: r.choice([1, 2, 2, 3])]
    progs = []
    for nm in names:
        one_off = r.random() < 0.5
        spend = r.choice([0.0, 500.0, 2000.0, round(r.random() * 5000, 1)])
        if r.random() < 0.3:
            spend = {"t": [start - 1.0, start + (end - start) / 2], "v": [spend, spend * r.choice([0.0, 0.5, 2.0])], "assumption": None}
        progs.append({"name": nm, "label": "Program " + nm, "target_pops": r.sample(pops, r.randint(1, len(pops))), "target_comps": r.sample(stocks, r.randint(1, min(3, len(stocks)))),
                      "spend": spend, "unit_cost": r.choice([1.0, 10.0, 2.5, 100.0]), "uc_units": "$/person" if one_off else "$/person/year",
                      "capcon": r.choice([None, None, 50.0, 400.0]), "cc_units": r.choice(["people/year", "people"]), "saturation": r.choice([None, None, 0.8, 0.5])})
    covouts = []
    for p in targets:
        for pop in pops:
            if r.random() < 0.85:
                sub = r.sample(names, r.randint(1, len(names)))
                imp = None
                if len(sub) >= 2 and r.random() < 0.3:
                    imp = f"{sub[0]}+{sub[1]}={_outcome(r, p['format'])}"
                covouts.append({"par": p["name"], "pop": pop, "progs": {n: _outcome(r, p["format"]) for n in sub}, "cov": r.choice(["additive", "random", "nested"]), "imp": imp, "baseline": _outcome(r, p["format"])})
    if not covouts:
        covouts.append({"par": targets[0]["name"], "pop": pops[0], "progs": {names[0]: _outcome(r, targets[0]["format"])}, "cov": "additive", "imp": None, "baseline": _outcome(r, targets[0]["format"])})
    instr = {"start": r.choice([start, start + dt, start + (end - start) / 3, start - 1.0]), "stop": r.choice([None, None, start + (end - start) * 0.8]), "alloc": {}, "coverage": {}, "capacity": {}}
    for nm in names:
        x = r.random()
        if x < 0.5:
            instr["alloc"][nm] = r.choice([0.0, 100.0, 1000.0, round(r.random() * 3000, 1)])
        elif x < 0.6:
            instr["coverage"][nm] = r.choice([0.0, 1.0, round(r.random(), 2)])
        elif x < 0.7:
            instr["capacity"][nm] = r.choice([0.0, 10.0, 300.0])
    return {"name": "default", "progs": progs, "covouts": covouts, "instr": instr}


def gen_input(r, tier, want_prog):
    """-> JSON description of one project (generated or library)"""
    import atomica as at
    from atomica.model import BadInitialization

    demos = DEMOS_QUICK if tier == "quick" else DEMOS_THOROUGH
    if r.random() < 0.3:
        name = r.choice(demos)
        P = demo_master(name)
        s0 = float(P.settings.sim_start)
        desc = {"kind": "demo", "name": name, "settings": [s0, s0 + r.choice([4, 6, 9]), r.choice([1.0, 0.5, 0.25, 1.0])], "meta_y": {}, "prog": None}
        if r.random() < 0.4:
            pars = [p.name for p in P.parsets[0].pars.values() if any(ts.has_data for ts in p.ts.values())]
            if pars:
                desc["meta_y"] = {r.choice(pars): r.choice([0.5, 1.5, 0.9])}
        if want_prog:
            names = list(P.progsets[0].programs.keys())
            desc["prog"] = {"instr": {"start": s0 + r.choice([1.0, 2.0, 0.0]), "stop": None, "alloc_scale": {n: r.choice([0.0, 0.5, 1.0, 2.0, 5.0]) for n in r.sample(names, r.randint(0, len(names)))}}}
        try:
            inp = Inputs(desc)
            at.run_model(*inp.args(bool(desc["prog"])))
        except Exception:
            desc["meta_y"] = {}  # a scaled databook value the initialization cannot satisfy: keep the library values
        return desc
    for _ in range(40):
        regime = r.choice(["calibrated", "calibrated", "boundary", "extreme"])
        spec = genfw.random_spec(r, regime, {"nsteps": r.randint(5, 14)})
        prog = gen_progspec(r, spec) if want_prog else None
        desc = {"kind": "gen", "regime": regime, "spec": spec, "prog": prog}
        try:
            inp = Inputs(desc)
            at.run_model(*inp.args(bool(prog)))
            return json.loads(json.dumps(desc))
        except (at.InvalidFramework, BadInitialization, AssertionError, at.ModelError):
            continue
        except Exception:
            continue
    raise RuntimeError("generator could not produce a runnable project")


def gen_history(sub_seed, tier, hid):
    r = random.Random(sub_seed)
    A = gen_input(r, tier, want_prog=r.random() < 0.75)
    B = gen_input(r, tier, want_prog=r.random() < 0.4)
    n = r.choice([2, 3, 4, 4, 5, 5, 6, 6])
    ops = []
    n_fresh = 0
    for k in range(n):
        op = r.choice(OPS)
        proj = "A" if r.random() < 0.7 else "B"
        desc = A if proj == "A" else B
        prog = bool(desc.get("prog")) and r.random() < 0.65
        o = {"op": op, "proj": proj, "prog": prog}
        if op == "fresh":
            if n_fresh >= 1:
                o["op"] = "run"
            else:
                n_fresh += 1
                jobs = [[proj, prog, None]]
                other = "B" if proj == "A" else "A"
                if r.random() < 0.6:
                    jobs.append([other, bool((B if other == "B" else A).get("prog")) and r.random() < 0.5, None])
                if r.random() < 0.4:
                    jobs.append([proj, (not prog) and bool(desc.get("prog")), None])
                r.shuffle(jobs)
                o["jobs"] = jobs
                o["hashseed"] = r.randint(0, 4294967295)
                o["threads"] = r.choice([1, 1, 4, None])
        elif op == "dcp":
            o["how"] = r.choice(["sc", "copy"])
            o["twice"] = r.random() < 0.2
        elif op == "pickle":
            o["how"] = r.choice(["pickle", "pickle", "str"])
            o["protocol"] = r.choice([2, 4, 5])
            o["order"] = r.choice(["copy-first", "orig-first"])
        elif op == "saveload":
            o["how"] = r.choice(["pickle", "str", "file", "dcp"])
        elif op == "relinkrun":
            o["twice"] = r.random() < 0.4
            o["dup"] = r.random() < 0.5
        elif op == "runsim":
            o["store"] = r.random() < 0.5
        elif op == "alias":
            o["when"] = r.choice(["before", "before", "after"])
        elif op == "objective":
            if prog:
                if desc["kind"] == "gen":
                    names = [p["name"] for p in desc["prog"]["progs"]]
                    comps = [c["name"] for c in desc["spec"]["comps"] if c["kind"] == "normal"] + ["alive"]
                    s0, s1 = desc["spec"]["settings"][:2]
                else:
                    Pm = demo_master(desc["name"])
                    names = list(Pm.progsets[0].programs.keys())
                    comps = [c for c in Pm.framework.comps.index if Pm.framework.comps.at[c, "is source"] != "y" and Pm.framework.comps.at[c, "is sink"] != "y" and Pm.framework.comps.at[c, "is junction"] != "y"]
                    s0, s1 = desc["settings"][:2]
                o["progs"] = r.sample(names, min(len(names), r.choice([1, 2])))
                o["t_adj"] = r.choice([s0 + 1.0, s0 + (s1 - s0) / 2, desc["prog"]["instr"]["start"]])
                o["measure"] = r.choice(comps)
                o["factors"] = [r.choice([0.0, 0.5, 2.0, 1.0]) for _ in o["progs"]]
                o["shift"] = [r.choice([0.0, 100.0]) for _ in o["progs"]]
                o["constrain"] = r.random() < 0.4
                o["spend_term"] = r.random() < 0.3
        elif op == "optim":
            if prog:
                ispec = desc["prog"]["instr"]
                al = sorted(list((ispec.get("alloc") or {}).keys()) + list((ispec.get("alloc_scale") or {}).keys()))
                if al:
                    s0, s1 = (desc["spec"]["settings"][:2] if desc["kind"] == "gen" else desc["settings"][:2])
                    o["edit"] = {nm: [r.choice([s0 + (s1 - s0) / 2, s0 + 1.0, ispec["start"]]), r.choice([0.0, 0.5, 2.0, 1.0])] for nm in r.sample(al, r.randint(1, len(al)))}
        ops.append(o)
    return {"id": hid, "sub_seed": sub_seed, "tier": tier, "A": A, "B": B, "ops": ops}


# ----------------------------------------------------------------------------------------------
# running histories (in process, or in forked workers for the thorough tier)
# ----------------------------------------------------------------------------------------------
def run_histories(jobs):
    """jobs: list of (hid, sub_seed, tier) or ready-made history dicts; returns list of (history summary, record dict, nontrivial)"""
    import logging
    import warnings

    warnings.filterwarnings("ignore")
    import atomica as at

    at.logger.setLevel(logging.ERROR)
    out = []
    lean_reqs = []
    recs, hists = {}, {}
    gen = []
    for job in jobs:
        try:
            gen.append(job if isinstance(job, dict) else gen_history(job[1], job[2], job[0]))
        except Exception as e:
            rec = Rec()
            rec.notes.append(f"history {job} could not be generated: {type(e).__name__}: {e}")
            out.append((None, rec, False))
    ahead = int(os.environ.get("C08_AHEAD", "3"))
    kids = {}
    for i, h in enumerate(gen):
        for h2 in gen[i:i + 1 + ahead]:
            launch_children(h2, kids.setdefault(h2["id"], {}))
        rec = Rec()
        recs[h["id"]] = rec
        hists[h["id"]] = h
        nontrivial = False
        try:
            nontrivial = History(h, rec, lean_reqs, kids.pop(h["id"])).run()
        except SourceChanged as e:
            rec.notes.append("SOURCE-CHANGED: " + str(e))
        except Exception:
            rec.breaks.append({"kind": "correspondence", "what": "history runner raised: " + traceback.format_exc()[-700:], "replay": {"history": h}})
        out.append((h, rec, nontrivial))
    check_lean(lean_reqs, recs, hists)
    return [(None if h is None else {"id": h["id"], "sub_seed": h["sub_seed"], "ops": [(o["op"], o["proj"], o["prog"]) for o in h["ops"]], "kinds": [h["A"]["kind"], h["B"]["kind"]],
                                     "names": [h["A"].get("name", h["A"].get("regime")), h["B"].get("name", h["B"].get("regime"))]}, rec.as_dict(), nt) for h, rec, nt in out]


def merge(ctx, results):
    for hs, rd, nt in results:
        for k, n in rd["counts"].items():
            ctx.count(k, n)
        ctx.hyp_checked += rd["hyp"][0]
        ctx.hyp_held += rd["hyp"][1]
        ctx.traces += rd["traces"]
        ctx.disagreements_checked += rd["disagreements"] + len(rd["violations"])
        for v in rd["violations"]:
            ctx.violation(v["key"], v["what"], v["replay"])
        for b in rd["breaks"]:
            ctx.brk(b["kind"], b["what"], replay=b.get("replay"))
        ctx.notes = [x for x in rd["notes"] if str(x).startswith("SOURCE-CHANGED")] + ctx.notes + rd["notes"][:3]
        if hs is not None:
            ctx.case(["history", hs["sub_seed"], hs["ops"]], nontrivial=nt, sample=hs)


def probe_hashseeds(ctx):
    """Directed probe for hidden dependence on the per-process string hash seed (iteration order of sets/dicts of names):
    the same program-driven run in fresh interpreters with different PYTHONHASHSEED values must be bit-identical.
    Uses library projects whose programs target several compartments x populations (summation order matters in the last bit)."""
    names = ["tb", "hiv"] if ctx.quick else ["tb", "hiv", "tb_simple", "hypertension", "diabetes"]
    seeds = [1, 2, 3] if ctx.quick else [1, 2, 3, 5, 8, 13]
    procs = []
    for name in names:
        try:
            P = demo_master(name)
        except Exception as e:
            ctx.notes.append(f"hashseed probe: demo {name} unavailable: {e!r}"[:200])
            continue
        s0 = float(P.settings.sim_start)
        desc = {"kind": "demo", "name": name, "settings": [s0, s0 + 3, 0.5], "meta_y": {}, "prog": {"instr": {"start": s0 + 0.5, "stop": None, "alloc_scale": {}}}}
        for hs in seeds:
            procs.append((name, hs, launch_child([{"desc": desc, "prog": True, "edit": None}], hs, 1)))
    first = {}
    for name, hs, pr in procs:
        out, err = collect_child(pr)
        if err:
            ctx.brk("correspondence", f"hash-seed probe: fresh-process run of {name} failed: {err}"[:400])
            continue
        dg = tuple(tuple(x) for x in out["obs"][0])
        ctx.count("probe.hashseed")
        ctx.case({"probe": "hashseed", "demo": name, "hashseed": hs}, nontrivial=True)
        if name not in first:
            first[name] = (hs, dict(dg))
        else:
            hs0, d0 = first[name]
            diff = [k for k, v in dict(dg).items() if d0.get(k) != v]
            if diff:
                ctx.violation({"api": "run_model", "case": "depends-on-PYTHONHASHSEED"},
                              f"{name} with programs: fresh interpreters with PYTHONHASHSEED={hs0} and {hs} give different outputs (first differing arrays: {diff[:4]})",
                              {"probe": "hashseed", "demo": name, "seeds": [hs0, hs], "script": f"for s in ({hs0},{hs}): run `PYTHONHASHSEED=s python -c \"import atomica as at; P=at.demo('{name}',do_run=False); r=P.run_sim(P.parsets[0],P.progsets[0],at.ProgramInstructions(start_year=P.settings.sim_start+0.5)); print(repr(r.model.pops[0].comps[0].vals[-1]))\"` and compare"})


def probe_partial_initialization(ctx):
    """Directed probe: a ParameterSet carrying an explicit Initialization that lists only SOME compartments (the rest default to 0).
    Running a simulation must leave that parameter set exactly as it was (inputs are left unchanged)."""
    import atomica as at
    import sciris as sc

    for name in (["udt", "tb_simple"] if ctx.quick else ["udt", "tb_simple", "usdt", "hypertension", "hiv"]):
        try:
            P = sc.dcp(demo_master(name))
            s0 = float(P.settings.sim_start)
            P.settings.update_time_vector(start=s0, end=s0 + 3, dt=0.5)
            res = at.run_model(P.settings, P.framework, P.parsets[0])
            ps = sc.dcp(P.parsets[0])
            ps.set_initialization(res, s0 + 1.0)
            keys = list(ps.initialization.values.keys())
            drop = [k for i, k in enumerate(keys) if i % 3 == 1]   # leave out a third of the entries
            for k in drop:
                del ps.initialization.values[k]
            st = at.ProjectSettings(s0 + 1.0, s0 + 3, 0.5)
            before = snapshot(ps)
            at.run_model(st, P.framework, ps)
            at.run_model(st, P.framework, ps)
            after = snapshot(ps)
        except Exception as e:
            ctx.notes.append(f"partial-initialization probe on {name}: {e!r}"[:200])
            continue
        ctx.count("probe.partial_initialization")
        ctx.case({"probe": "partial-initialization", "demo": name}, nontrivial=True)
        # ... and the run itself is well defined: compartments the explicit initialization does not list start empty, everything stays finite
        try:
            r_part = at.run_model(st, P.framework, ps)
            bad_nan = [c.name for pop in r_part.model.pops for c in pop.comps if not np.isfinite(np.asarray(c.vals, dtype=float)).all()]
            started = {(c.name, pop.name): float(np.asarray(c.vals, dtype=float)[0]) for pop in r_part.model.pops for c in pop.comps}
            not_zero = [k for k in drop if abs(started.get(tuple(k), 0.0)) > 0]
        except Exception as e:
            bad_nan, not_zero = [f"run raised {type(e).__name__}: {str(e)[:100]}"], []
        if bad_nan or not_zero:
            ctx.violation({"api": "Initialization.apply", "case": "unlisted-compartments-not-started-empty"},
                          f"{name}: a run from an explicit Initialization that lists {len(keys) - len(drop)} of {len(keys)} compartments: non-finite values in {bad_nan[:4]}; unlisted compartments that do not start at 0: {not_zero[:4]}",
                          {"probe": "partial-initialization", "demo": name, "dropped": [list(k) for k in drop]})
        d = first_diff(before, after)
        if before != after:
            ctx.violation({"api": "run_model", "case": "parset-with-partial-initialization-modified"},
                          f"{name}: running a simulation changed the ParameterSet passed in (explicit Initialization listing {len(keys) - len(drop)} of {len(keys)} compartments): first difference {str(d)[:300]}",
                          {"probe": "partial-initialization", "demo": name, "dropped": [list(k) for k in drop]})


def probe_progset_assembly(ctx):
    """Directed probe: 'the outputs are a function of the inputs alone' also for program sets assembled in code. Two program sets are built one after the other in
    this process with ProgramSet.new / add_program and their targeting is filled in place (prog.target_pops.append(...), prog.target_comps.extend(...)), as the
    documentation shows; what was set up for the first must not show in the programs created for the second, and a third, untouched one must start empty."""
    import atomica as at
    import sciris as sc

    for name in (["udt", "tb_simple"] if ctx.quick else ["udt", "tb_simple", "usdt", "hypertension", "hiv"]):
        try:
            P = demo_master(name)
            fw, data = P.framework, P.data
            pops = list(data.pops.keys())
            comps = [c for c in fw.comps.index if fw.comps.at[c, "is source"] == "n" and fw.comps.at[c, "is sink"] == "n" and fw.comps.at[c, "is junction"] == "n"]
            g1 = at.ProgramSet.new(tvec=np.array([2016.0]), progs={"aa": "Prog A"}, framework=fw, data=data)
            g1.programs["aa"].target_pops.append(pops[0])
            g1.programs["aa"].target_comps.extend(comps[:2])
            g2 = at.ProgramSet.new(tvec=np.array([2016.0]), progs={"bb": "Prog B"}, framework=fw, data=data)
            seen_pops, seen_comps = list(g2.programs["bb"].target_pops), list(g2.programs["bb"].target_comps)
            g2.programs["bb"].target_pops.append(pops[-1])
            g2.add_program("cc", "Prog C")
            late_pops, late_comps = list(g2.programs["cc"].target_pops), list(g2.programs["cc"].target_comps)
            shared = g1.programs["aa"].target_pops is g2.programs["bb"].target_pops or g1.programs["aa"].target_comps is g2.programs["bb"].target_comps
        except Exception as e:
            ctx.notes.append(f"progset-assembly probe on {name}: {e!r}"[:200])
            continue
        ctx.count("probe.progset_assembly")
        ctx.case({"probe": "progset-assembly", "demo": name}, nontrivial=True)
        if seen_pops or seen_comps or late_pops or late_comps or shared:
            ctx.violation({"api": "ProgramSet.new", "case": "targeting-leaks-between-program-sets"},
                          f"{name}: a program created after another program set was assembled in the same process starts with target_pops={seen_pops or late_pops}, target_comps={seen_comps or late_comps}"
                          f"{' (the two programs share one list object)' if shared else ''}; a new program must start untargeted",
                          {"probe": "progset-assembly", "demo": name})


def probe_failed_calibration(ctx):
    """Directed probe: a library call that stops with an exception must leave the project as it found it ('leaves its inputs untouched' does not depend on
    the call succeeding): Project.calibrate with a metric name that does not exist raises; the same run_sim before and after must give the same arrays and the
    settings must be unchanged."""
    import sciris as sc

    for name in (["udt"] if ctx.quick else ["udt", "tb_simple", "usdt"]):
        try:
            P = sc.dcp(demo_master(name))
            last = float(np.max(P.data.tvec))
            P.settings.update_time_vector(end=last + 5)   # the simulation runs beyond the last data year (calibrate shortens it while it works)
            before = snapshot(P.settings)
            r0 = P.run_sim(P.parsets[0], store_results=False)
            raised = None
            try:
                P.calibrate(P.parsets[0], max_time=1, metric="no_such_metric", save_to_project=False)
            except Exception as e:
                raised = type(e).__name__
            after = snapshot(P.settings)
            r1 = P.run_sim(P.parsets[0], store_results=False)
        except Exception as e:
            ctx.notes.append(f"failed-calibration probe on {name}: {e!r}"[:200])
            continue
        ctx.count("probe.failed_calibration" + ("" if raised else "_did_not_raise"))
        ctx.case({"probe": "failed-calibration", "demo": name}, nontrivial=True)
        if before != after or len(r0.t) != len(r1.t):
            ctx.violation({"api": "Project.calibrate", "case": "settings-changed-after-exception"},
                          f"{name}: a calibration that raised {raised} left the project settings changed ({str(first_diff(before, after))[:200]}); the same run_sim has {len(r0.t)} time points before and {len(r1.t)} after",
                          {"probe": "failed-calibration", "demo": name})


def probe_scenario_on_transfer(ctx):
    """Directed probe: building the parameter set of a scenario leaves the parameter set it was given untouched -- also when the scenario overwrites a TRANSFER between
    populations or an INTERACTION weight (stored apart from the ordinary parameters)."""
    import atomica as at
    import sciris as sc

    for name in (["tb"] if ctx.quick else ["tb", "combined"]):
        try:
            P = sc.dcp(demo_master(name))
            ps = P.parsets[0]
            groups = [(g, dict(getattr(ps, g))) for g in ("transfers", "interactions") if len(getattr(ps, g))]
            before = snapshot(ps)
            done = []
            for gname, g in groups:
                tname = list(g.keys())[0]
                frm = list(g[tname].keys())[0]
                to = list(g[tname][frm].ts.keys())[0]
                y0 = float(P.settings.sim_start) + 2
                sc_ = at.ParameterScenario(name="s", scenario_values={tname: {(frm, to): {"t": [y0], "y": [0.123]}}})
                new = sc_.get_parset(ps, P)
                done.append((gname, tname, frm, to))
            after = snapshot(ps)
        except Exception as e:
            ctx.notes.append(f"scenario-on-transfer probe on {name}: {e!r}"[:200])
            continue
        ctx.count("probe.scenario_on_transfer")
        ctx.case({"probe": "scenario-on-transfer", "demo": name}, nontrivial=True)
        if before != after:
            ctx.violation({"api": "ParameterScenario.get_parset", "case": "caller-parset-modified"},
                          f"{name}: ParameterScenario.get_parset on {done} changed the ParameterSet it was given: {str(first_diff(before, after))[:300]}", {"probe": "scenario-on-transfer", "demo": name})


def probe_demo_independence(ctx):
    """Directed probe: two projects made by at.demo(name) in one process are independent objects -- editing the framework of one changes nothing in the other,
    nor in a third one created afterwards."""
    import atomica as at

    for name in (["udt"] if ctx.quick else ["udt", "tb_simple", "sir"]):
        try:
            P1 = at.demo(name, do_run=False)
            P2 = at.demo(name, do_run=False)
            tables = lambda F: {k: getattr(F, k).copy(deep=True) for k in ("comps", "characs", "pars", "interactions")}
            same_tables = lambda a, b: all(a[k].equals(b[k]) for k in a)
            ref = tables(P2.framework)
            same_obj = P1.framework is P2.framework
            col = "maximum value"
            par0 = P1.framework.pars.index[0]
            P1.framework.pars.at[par0, col] = 0.123456
            P1.framework.pars.at[par0, "display name"] = "edited in project one"
            now = tables(P2.framework)
            try:
                P3 = at.demo(name, do_run=False)
                third = tables(P3.framework)
            except Exception as e3:   # a project created afterwards cannot even be built any more
                third = {k: v.iloc[0:0] for k, v in ref.items()}
                ctx.notes.append(f"demo-independence: at.demo('{name}') after editing another project's framework raised {type(e3).__name__}: {str(e3)[:120]}")
        except Exception as e:
            ctx.notes.append(f"demo-independence probe on {name}: {e!r}"[:200])
            continue
        ctx.count("probe.demo_independence")
        ctx.case({"probe": "demo-independence", "demo": name}, nontrivial=True)
        if same_obj or not same_tables(now, ref) or not same_tables(third, ref):
            ctx.violation({"api": "demo", "case": "projects-share-a-framework"},
                          f"{name}: editing the framework of one at.demo('{name}') project changed {'the SAME object held by' if same_obj else ''} another project's framework{' and that of a project created afterwards' if not same_tables(third, ref) else ''}",
                          {"probe": "demo-independence", "demo": name})


def probe_copy_division(ctx):
    """Directed probe: a copied / unpickled model computes what the original computes, also where a parameter function divides 0 by 0 (which the parser defines as 0)."""
    import copy as _copy
    import pickle as _pickle
    from vlib import genfw
    from atomica.model import Model

    P_ = dict(timescale=None, min=None, max=None, timed=False, targetable=False, databook=False, value={})
    for variant in ("deepcopy", "pickle"):
        spec = {"comps": [{"name": "c0", "kind": "normal", "databook": True, "init": {"pa": 100.0}}, {"name": "c1", "kind": "normal", "databook": True, "init": {"pa": 10.0}},
                          {"name": "c2", "kind": "normal", "databook": True, "init": {"pa": 0.0}}, {"name": "c3", "kind": "normal", "databook": True, "init": {"pa": 0.0}}],
                "characs": [], "pars": [dict(P_, name="ra0", format="rate", function="0.1 + 0.2*c2/(c2+c3)"), dict(P_, name="ra1", format="rate", function="0.05*c2/c3 + 0.01")],
                "transitions": [["c0", "c1", "ra0"], ["c1", "c0", "ra1"]], "pops": ["pa"], "transfers": [], "interactions": [], "settings": [2000, 2003, 1.0]}
        try:
            fw, data, parset, settings = genfw.build(spec)
            m0 = Model(settings, fw, parset)
            m1 = _copy.deepcopy(m0) if variant == "deepcopy" else _pickle.loads(_pickle.dumps(m0))
            m1.process()
            m0.process()
            a = {f"{pop.name}/{c.name}": np.asarray(c.vals, dtype=float) for pop in m0.pops for c in list(pop.comps) + list(pop.pars) if c.vals is not None}
            b = {f"{pop.name}/{c.name}": np.asarray(c.vals, dtype=float) for pop in m1.pops for c in list(pop.comps) + list(pop.pars) if c.vals is not None}
        except Exception as e:
            ctx.notes.append(f"copy-division probe ({variant}): {e!r}"[:200])
            continue
        ctx.count("probe.copy_division")
        ctx.case({"probe": "copy-division", "variant": variant}, nontrivial=True)
        bad = [k for k in a if not np.array_equal(a[k], b[k], equal_nan=True)] + [k for k in a if not np.isfinite(a[k]).all()]
        if bad:
            ctx.violation({"api": "Model.__deepcopy__", "case": "copy-computes-differently"},
                          f"a model whose parameter functions divide 0 by 0 (c2/(c2+c3) with both empty): the {variant} copy and the original differ / are not finite in {bad[:4]}: original {a[bad[0]][:3].tolist()}, copy {b[bad[0]][:3].tolist()}",
                          {"probe": "copy-division", "variant": variant})


def run(ctx):
    src0 = source_digest()
    n = ctx.n(30, 600)
    jobs = [(i, ctx.rng.getrandbits(32), ctx.tier) for i in range(n)]
    nproc = int(os.environ.get("C08_PROCS", "4" if ctx.quick else "14"))
    if nproc <= 1:
        merge(ctx, run_histories(jobs))
    else:
        import multiprocessing as mp

        chunks = [jobs[i::nproc] for i in range(nproc)]  # every worker runs its histories one after the other in ONE interpreter
        with mp.get_context("fork").Pool(nproc) as pool:
            for res in pool.imap_unordered(run_histories, chunks):
                merge(ctx, res)
    probe_hashseeds(ctx)
    probe_partial_initialization(ctx)
    probe_progset_assembly(ctx)
    probe_failed_calibration(ctx)
    probe_scenario_on_transfer(ctx)
    probe_demo_independence(ctx)
    probe_copy_division(ctx)
    if source_digest() != src0 or any(str(x).startswith("SOURCE-CHANGED") for x in ctx.notes):
        raise RuntimeError("the atomica sources changed while the check was running; observations of different code are not comparable -- run the check again")
    ctx.exhaustive = False
    ctx.extra["level_note"] = "partial: proof for the id/reference round trip of unlink/relink; determinism, input preservation and copy-safety of the implementation are decided by sampled histories (mode E)"
    ctx.extra["atomica_source_digest"] = src0
    ctx.extra["histories"] = n
    ctx.extra["worker_processes"] = nproc


def replay(ctx, data):
    rp = data.get("replay") or {}
    h = rp.get("history")
    if h is None and data.get("broken"):
        h = (data["broken"][0].get("replay") or {}).get("history")
    if h is None and rp.get("probe"):
        # a directed probe: run it again on the current tree
        sub = core.Ctx(PROPERTY, "quick", 0)
        {"partial-initialization": probe_partial_initialization, "progset-assembly": probe_progset_assembly, "failed-calibration": probe_failed_calibration,
         "scenario-on-transfer": probe_scenario_on_transfer, "demo-independence": probe_demo_independence, "copy-division": probe_copy_division}.get(rp["probe"], lambda c: None)(sub)
        for v in sub.violations:
            print("VIOLATION", json.dumps(v["key"]), v["what"][:600])
        print("replay of probe", rp["probe"], "->", "FAILS" if sub.violations else "passes")
        return 1 if sub.violations else 0
    if h is None:
        print("no history in replay file")
        return 0
    res = run_histories([h])
    hs, rd, nt = res[0]
    print(f"history {h['id']} sub_seed={h['sub_seed']} ops={[(o['op'], o['proj'], o['prog']) for o in h['ops']]}")
    for v in rd["violations"]:
        print("VIOLATION", json.dumps(v["key"]), v["what"][:600])
    for b in rd["breaks"]:
        print("BROKEN", b["kind"], b["what"][:600])
    if not rd["violations"] and not rd["breaks"]:
        print("replay: property holds on this history")
        return 0
    return 1


if __name__ == "__main__":
    if len(sys.argv) > 1 and sys.argv[1] == "--child":
        child_main()
    else:
        core.main(sys.modules[__name__])
