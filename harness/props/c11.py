"""
C11 -- Program coverage is a bounded, monotone function of spending.

Correspondence (mode A, value by value) of the real
    Program.get_capacity, Program.get_prop_covered,
    ProgramSet.get_alloc / get_capacities / get_prop_coverage (with ProgramInstructions overwrites),
    Result.get_coverage
against the Lean model Atomica.Coverage (request kinds `capacity`, `propcov`, `effcov`), plus the
property's own predicates evaluated directly on what the implementation returned (bounds, <= saturation,
<= capacity constraint / eligible, monotone pairs in spending and unit cost, closed forms, one-off
capacity per year independent of dt, overwrite precedence).

`exp` is an oracle input: the harness computes numpy's exp(-2*x/s) for the raw fraction x it derives
itself from the specification formula and hands the double (as an exact rational) to the model.
"""
import bisect
import json
import math
import sys
import zlib
from fractions import Fraction

import numpy as np

from vlib import core
from vlib.core import q, unq

PROPERTY = "C11"
LEAN_MODS = ["AtomicaProofs.Properties.C11", "AtomicaProofs.Properties.C11Real"]
THEOREMS = [
    "Atomica.C11.capacity_spec",
    "Atomica.C11.cov_bounds",
    "Atomica.C11.cov_bounds_effective",
    "Atomica.C11.cov_le_sat",
    "Atomica.C11.cov_le_sat_effective",
    "Atomica.C11.cov_le_raw",
    "Atomica.C11.cov_le_capcon",
    "Atomica.C11.cov_mono_cap",
    "Atomica.C11.cov_mono_spend",
    "Atomica.C11.cov_anti_unitcost",
    "Atomica.C11.cov_linear",
    "Atomica.C11.cov_nobody",
    "Atomica.C11.oneoff_dt_free",
    "Atomica.C11.oneoff_dt_free_steps",
    "Atomica.C11.overwrite_precedence",
    "Atomica.C11.coverage_overwrite_decides",
    "Atomica.C11.capacity_overwrite_decides",
    "Atomica.C11.interp_previous",
    "Atomica.C11.interp_mem",
    "Atomica.C11.interp_mono",
    "Atomica.C11.Eq_expLike",
    "Atomica.C11.Eq_pade",
    "Atomica.C11.satcurve_real",
    "Atomica.C11.satcurve_real_bounds",
    "Atomica.C11.satcurve_real_mono",
]
TRUSTED = [
    "libm/numpy exp: the double exp(-2x/s) is an oracle input of the model; its 0<e<=1, monotonicity and Pade bound are checked on the values met, proved for Real.exp (satcurve_real)",
    "float evaluation of 2s/(1+e)-s cancels for large s (absolute error ~ s*1e-16): compared with tolerance 1e-11*max(1,s); saturation generated in (0, 1000]",
    "harness-side stepped lookup (bisect) used for the per-point `capacity`/`propcov` requests; the `effcov` requests use the Lean model's own Series.at",
]
ASSUMPTIONS = [
    "inputs in the property's domain: spending >= 0, unit cost > 0, capacity constraint >= 0, saturation > 0, eligible >= 0, dt > 0, overwrites >= 0, all finite floats",
]
RULE = (
    "generated programs: spending / unit cost / capacity-constraint / saturation series (assumption only, one point, or 2-5 points; "
    "values with boundary cases 0, ties capacity==eligible, capacity==constraint, eligible==0 weighted up), one-off and continuous unit-cost units, "
    "per-year and absolute capacity constraints, dt from 1/365 to 5, every subset of {spending, capacity, coverage} overwrites; "
    "each evaluated (program, time point) is one case; non-trivial = at least one of: capacity constraint binding, saturation present, "
    "eligible <= capacity, eligible == 0, one-off with dt != 1, an overwrite present, time-varying series with t strictly inside the data range"
)
EXPECTED_BRANCHES = [
    "cap.oneoff", "cap.continuous", "cap.con_binding", "cap.con_slack", "cap.con_tie", "cap.con_peryear", "cap.con_absolute", "cap.spend0",
    "cov.nosat.lt", "cov.nosat.ge", "cov.nosat.tie", "cov.nosat.elig0", "cov.sat.elig0", "cov.sat.curve", "cov.sat.capped1", "cov.sat.gt1",
    "ov.none", "ov.alloc", "ov.capacity", "ov.coverage", "ov.alloc+capacity", "ov.alloc+coverage", "ov.capacity+coverage", "ov.alloc+capacity+coverage",
    "series.assumption", "series.single", "series.multi", "series.before_first", "series.after_last", "series.at_point",
    "pair.spend", "pair.unitcost", "pair.capacity", "oneoff.dtfree", "precedence.checked", "result.get_coverage", "result.integration_call", "exp.underflow",
]

ONEOFF_UNITS = ["$/person", "$/person (one-off)"]
CONT_UNITS = ["$/person/year"]
DTS = [1.0, 0.5, 0.25, 0.2, 0.1, 1 / 12, 1 / 52, 1 / 365, 7 / 365, 2.0, 5.0, 0.3]


# ----------------------------------------------------------------------------------------------
# specs (JSON-able) <-> atomica objects / wire format
# ----------------------------------------------------------------------------------------------
def series(a=None, t=(), v=()):
    return {"a": a, "t": [float(x) for x in t], "v": [float(x) for x in v]}


def to_ts(s, units=None):
    from atomica.utils import TimeSeries

    ts = TimeSeries(units=units)
    if s is None:
        return ts
    if s["a"] is not None:
        ts.assumption = float(s["a"])
    for t, v in zip(s["t"], s["v"]):
        ts.insert(t, v)
    return ts


def wire_series(s):
    if s is None:
        return "absent"
    toks = ["none" if s["a"] is None else q(s["a"])]
    for t, v in sorted(zip(s["t"], s["v"])):
        toks += [q(t), q(v)]
    return " ".join(toks)


def lookup(s, t):
    """independent stepped lookup (previous, constant extrapolation); None when the series has no data"""
    if s is None:
        return None
    if not s["t"]:
        return s["a"]
    pts = sorted(zip(s["t"], s["v"]))
    ts = [p[0] for p in pts]
    i = bisect.bisect_right(ts, t) - 1
    return pts[max(i, 0)][1]


def build_program(spec):
    from atomica.programs import Program

    p = Program(spec["name"], target_pops=["pop"], target_comps=["comp"])
    p.spend_data = to_ts(spec["spend"], "$/year")
    p.unit_cost = to_ts(spec["uc"], spec["uc_units"])
    p.capacity_constraint = to_ts(spec.get("cc"), spec["cc_units"])
    p.saturation = to_ts(spec.get("sat"), "N.A.")
    return p


def is_one_off(spec):
    return "/year" not in spec["uc_units"]


def per_year(spec):
    return "/year" in spec["cc_units"]


def build_instructions(ispec):
    from atomica.programs import ProgramInstructions

    def conv(d):
        # an overwrite may be given as a plain number ("a scalar spend / capacity / coverage"): it stands for that value at every time
        return {k: (float(s["a"]) if s.get("scalar") else to_ts(s)) for k, s in d.items()} if d else None

    return ProgramInstructions(start_year=ispec.get("start", 2000.0), alloc=conv(ispec.get("alloc")), capacity=conv(ispec.get("capacity")), coverage=conv(ispec.get("coverage")))


# ----------------------------------------------------------------------------------------------
# generators
# ----------------------------------------------------------------------------------------------
def g_spend(r):
    c = r.random()
    if c < 0.12:
        return 0.0
    if c < 0.4:
        return float(r.choice([100, 1000, 2500, 50000, 1e6, 12345]))
    return float(10 ** r.uniform(0, 7))


def g_uc(r):
    c = r.random()
    if c < 0.4:
        return float(r.choice([1, 10, 25, 100, 0.5, 500]))
    return float(10 ** r.uniform(-2, 4))


def g_sat(r):
    c = r.random()
    if c < 0.55:
        return float(r.choice([1.0, 0.9, 0.5, 0.95, 0.05, 2.0, 5.0, 1.5]))
    if c < 0.9:
        return r.uniform(1e-3, 5.0)
    return float(r.choice([1e-3, 1e-6, 50.0, 1000.0]))


def g_dt(r):
    return float(r.choice(DTS))


def g_series(r, gen, tlo=1995.0, thi=2030.0, around=None):
    """assumption only / single point / 2-5 points; `around`: value generator anchored on a given level"""
    c = r.random()
    if c < 0.4:
        return series(a=gen(r))
    if c < 0.55:
        s = series(t=[float(r.randint(int(tlo), int(thi)))], v=[gen(r)])
        if r.random() < 0.3:
            s["a"] = gen(r)  # hidden by the time-specific data
        return s
    n = r.randint(2, 5)
    ts = sorted(r.sample([tlo + 0.5 * k for k in range(int((thi - tlo) * 2))], n))
    return series(t=ts, v=[gen(r) for _ in ts])


def g_tvec(r, sers, dt):
    """time points: a dt grid segment + the data times themselves + just before / after + outside the range"""
    pts = set()
    start = float(r.choice([1990, 2000, 2010.5, 2015]))
    for k in range(r.randint(2, 5)):
        pts.add(start + k * dt)
    for s in sers:
        if s is None:
            continue
        for t in s["t"]:
            c = r.random()
            if c < 0.5:
                pts.add(t)
            elif c < 0.65:
                pts.add(float(np.nextafter(t, -np.inf)))
            elif c < 0.8:
                pts.add(t + dt / 2)
    pts.add(float(r.choice([1900.0, 2050.0])))
    return np.array(sorted(pts))


def g_elig(r, cap):
    """number eligible relative to a capacity (ties and zero weighted up)"""
    c = r.random()
    if c < 0.12:
        return 0.0
    if c < 0.24:
        return float(cap)
    if c < 0.3:
        return float(np.nextafter(cap, np.inf)) if cap > 0 else 1.0
    if c < 0.36:
        return float(np.nextafter(cap, -np.inf)) if cap > 0 else 0.0
    if c < 0.6:
        return float(cap) * r.uniform(0.01, 1.0)
    if c < 0.9:
        return float(cap) * r.uniform(1.0, 50.0) + (1.0 if cap == 0 else 0.0)
    return float(10 ** r.uniform(-3, 8))


def g_progspec(r, name):
    one_off = r.random() < 0.55
    spec = {
        "name": name,
        "uc_units": r.choice(ONEOFF_UNITS) if one_off else r.choice(CONT_UNITS),
        "cc_units": r.choice(["people/year", "people"]),
        "spend": g_series(r, g_spend),
        "uc": g_series(r, g_uc),
        "cc": None,
        "sat": None,
    }
    if r.random() < 0.5:
        # constraint near the typical raw capacity so that it binds about half of the time
        s0 = lookup(spec["spend"], 2010.0) or 1000.0
        u0 = lookup(spec["uc"], 2010.0)
        level = s0 / u0

        def gcc(rr, level=level):
            c = rr.random()
            if c < 0.1:
                return 0.0
            if c < 0.2:
                return float(level)
            return float(level * 10 ** rr.uniform(-1.5, 1.5)) if level > 0 else float(rr.choice([0, 10, 1000]))

        spec["cc"] = g_series(r, gcc)
    if r.random() < 0.55:
        spec["sat"] = g_series(r, g_sat)
    return spec


# ----------------------------------------------------------------------------------------------
# float-side specification formulas (only used to derive the exp oracle input and for the direct oracles)
# ----------------------------------------------------------------------------------------------
def spec_capacity(spend, uc, dt, one_off, cc, cc_per_year):
    cap = (spend * dt if one_off else spend) / uc
    if cc is not None:
        cap = min(cc * dt if cc_per_year else cc, cap)
    return cap


def exp_oracle(cap, elig, sat):
    """the double numpy returns for exp(-2*x/s); 1.0 where the model does not use it"""
    if sat is None or elig == 0 or sat <= 0:
        return 1.0
    with np.errstate(all="ignore"):
        return float(np.exp(np.float64(-2.0) * (np.float64(cap) / np.float64(elig)) / np.float64(sat)))


def tol(sat):
    return 1e-11 * max(1.0, sat or 1.0)


# ----------------------------------------------------------------------------------------------
# direct oracles on implementation output
# ----------------------------------------------------------------------------------------------
def oracle_cov(cov, cap, elig, sat, cc_eff=None):
    """the property's predicates on one returned coverage value; returns a description of the failure or None"""
    if cov is None or not math.isfinite(cov):
        return f"coverage is {cov!r}"
    if cov < 0 or cov > 1:
        return f"coverage {cov!r} outside [0,1]"
    tl = tol(sat)
    if sat is not None and cov > sat + tl:
        return f"coverage {cov!r} exceeds saturation {sat!r}"
    if elig > 0:
        if cov > cap / elig + tl + 1e-12 * cap / elig:
            return f"coverage {cov!r} exceeds capacity/eligible = {cap / elig!r}"
        if cc_eff is not None and cov > cc_eff / elig + tl + 1e-12 * cc_eff / elig:
            return f"coverage {cov!r} exceeds capacity constraint/eligible = {cc_eff / elig!r}"
        if sat is None and cap < elig and abs(cov - cap / elig) > 1e-12:
            return f"unsaturated coverage {cov!r} != capacity/eligible {cap / elig!r}"
    else:
        want = 1.0 if sat is None else min(1.0, sat)
        if abs(cov - want) > 1e-12:
            return f"nobody eligible: coverage {cov!r}, expected {want!r}"
    return None


def call(ctx, key, what, f, replay):
    """run implementation code; an exception on in-domain input is a violation"""
    try:
        with np.errstate(all="ignore"):
            return f()
    except Exception as ex:
        ctx.violation(dict(key, case="exception"), f"{what} raised {type(ex).__name__}: {ex}", replay)
        return None


def farr(x):
    return [float(v) for v in np.asarray(x, dtype=float).ravel()]


# ----------------------------------------------------------------------------------------------
# A. Program.get_capacity
# ----------------------------------------------------------------------------------------------
def run_capacity(ctx):
    r = ctx.rng
    batch = []
    for ci in range(ctx.n(250, 6000)):
        spec = g_progspec(r, "P")
        dt = g_dt(r)
        tvec = g_tvec(r, [spec["spend"], spec["uc"], spec["cc"]], dt)
        # spending argument: the stepped spending series, or arbitrary per-time values (incl. exact ties with the constraint)
        if r.random() < 0.6:
            spending = np.array([lookup(spec["spend"], t) for t in tvec])
        else:
            spending = np.array([g_spend(r) for _ in tvec])
        if spec["cc"] is not None and r.random() < 0.3:
            # force an exact tie raw capacity == constraint at one point when representable
            j = r.randrange(len(tvec))
            cc = lookup(spec["cc"], tvec[j])
            uc = lookup(spec["uc"], tvec[j])
            spending[j] = cc * uc if not is_one_off(spec) or per_year(spec) else spending[j]
        rp = {"kind": "capacity", "spec": spec, "dt": dt, "tvec": farr(tvec), "spending": farr(spending)}
        p = build_program(spec)
        key = {"api": "Program.get_capacity"}
        out = call(ctx, key, "Program.get_capacity", lambda: p.get_capacity(tvec, spending.copy(), dt), rp)
        if out is None:
            continue
        batch.append((spec, dt, tvec, spending, np.asarray(out, dtype=float), rp))
    reqs = []
    for spec, dt, tvec, spending, out, rp in batch:
        for j, t in enumerate(tvec):
            cc = lookup(spec["cc"], t)
            reqs.append(f"capacity {q(spending[j])} {q(lookup(spec['uc'], t))} {q(dt)} {int(is_one_off(spec))} {'none' if cc is None else q(cc)} {int(per_year(spec))}")
    reps = core.drive(reqs)
    k = 0
    for spec, dt, tvec, spending, out, rp in batch:
        oo, py = is_one_off(spec), per_year(spec)
        for j, t in enumerate(tvec):
            rep = reps[k]
            k += 1
            uc = lookup(spec["uc"], t)
            cc = lookup(spec["cc"], t)
            raw = (spending[j] * dt if oo else spending[j]) / uc
            cc_eff = None if cc is None else (cc * dt if py else cc)
            ctx.count("cap.oneoff" if oo else "cap.continuous")
            if spending[j] == 0:
                ctx.count("cap.spend0")
            binding = False
            if cc is not None:
                ctx.count("cap.con_peryear" if py else "cap.con_absolute")
                if cc_eff == raw:
                    ctx.count("cap.con_tie")
                binding = cc_eff < raw
                ctx.count("cap.con_binding" if binding else "cap.con_slack")
            count_series(ctx, spec["uc"], t)
            key = {"api": "Program.get_capacity", "oneoff": oo, "con": None if cc is None else ("peryear" if py else "absolute")}
            ctx.case([spending[j], uc, dt, oo, cc, py], nontrivial=binding or (oo and dt != 1.0) or inside(spec["uc"], t) or inside(spec["cc"], t))
            ctx.hyp_checked += 1
            ctx.hyp_held += int(spending[j] >= 0 and uc > 0 and dt > 0 and (cc is None or cc >= 0))
            ctx.traces += 1
            m = unq(rep) if not rep.startswith("err") else "err"
            impl = float(out[j])
            # direct oracle: non-negative, never above the constraint, equals spending(*dt)/unit cost when unconstrained
            bad = None
            if not (impl >= 0) or not math.isfinite(impl):
                bad = f"capacity {impl!r} is negative or not finite"
            elif cc_eff is not None and impl > cc_eff * (1 + 1e-12):
                bad = f"capacity {impl!r} exceeds the capacity constraint {cc_eff!r}"
            elif abs(impl - (raw if cc_eff is None else min(raw, cc_eff))) > 1e-12 * max(abs(raw), 1e-300):
                bad = f"capacity {impl!r} != min(constraint, spending{'*dt' if oo else ''}/unit cost) = {(raw if cc_eff is None else min(raw, cc_eff))!r}"
            agree = m != "err" and core.close(m, impl, scale=abs(raw), rtol=1e-12)
            if bad or not agree:
                rp1 = dict(rp, index=j, model=rep, impl=impl)
                ctx.disagreements_checked += 1
                if bad:
                    ctx.violation(key, f"Program.get_capacity at t={t}: {bad} (spending={spending[j]!r}, unit cost={uc!r}, dt={dt!r}, constraint={cc!r} {spec['cc_units']})", rp1)
                else:
                    ctx.brk("correspondence", f"Program.get_capacity at t={t}: impl {impl!r} vs model {rep}", replay=rp1)


def inside(s, t):
    return s is not None and len(s["t"]) >= 2 and min(s["t"]) < t < max(s["t"])


def count_series(ctx, s, t):
    if s is None:
        return
    if not s["t"]:
        ctx.count("series.assumption")
    elif len(s["t"]) == 1:
        ctx.count("series.single")
    else:
        ctx.count("series.multi")
        if t < min(s["t"]):
            ctx.count("series.before_first")
        elif t > max(s["t"]):
            ctx.count("series.after_last")
        elif t in s["t"]:
            ctx.count("series.at_point")


# ----------------------------------------------------------------------------------------------
# B. Program.get_prop_covered
# ----------------------------------------------------------------------------------------------
def run_propcov(ctx):
    r = ctx.rng
    batch = []
    for ci in range(ctx.n(300, 8000)):
        spec = {"name": "P", "uc_units": "$/person", "cc_units": "people/year", "spend": series(a=0.0), "uc": series(a=1.0), "cc": None,
                "sat": g_series(r, g_sat) if r.random() < 0.6 else None}
        n = r.randint(1, 8)
        tvec = g_tvec(r, [spec["sat"]], 0.5)[:n]
        n = len(tvec)
        if r.random() < 0.35:
            # monotone ladder: same eligible, increasing capacity (used as ordered pairs below); needs constant saturation
            spec["sat"] = series(a=lookup(spec["sat"], 2000.0)) if spec["sat"] is not None else None
            e0 = float(r.choice([0.0, 1.0, 100.0, 10 ** r.uniform(0, 6)]))
            caps = sorted(g_spend(r) / g_uc(r) for _ in range(n))
            if r.random() < 0.5 and n > 2:
                caps[1] = e0
                caps.sort()
            cap = np.array(caps)
            elig = np.full(n, e0)
            ladder = True
        else:
            cap = np.array([g_spend(r) / g_uc(r) * r.choice([1.0, 1.0, 0.25, 1 / 12]) for _ in range(n)])
            elig = np.array([g_elig(r, c) for c in cap])
            ladder = False
        rp = {"kind": "propcov", "spec": spec, "tvec": farr(tvec), "cap": farr(cap), "elig": farr(elig)}
        p = build_program(spec)
        out = call(ctx, {"api": "Program.get_prop_covered"}, "Program.get_prop_covered", lambda: p.get_prop_covered(tvec, cap.copy(), elig.copy()), rp)
        if out is None:
            continue
        batch.append((spec, tvec, cap, elig, np.asarray(out, dtype=float), ladder, rp))
    reqs, es = [], []
    for spec, tvec, cap, elig, out, ladder, rp in batch:
        for j, t in enumerate(tvec):
            s = lookup(spec["sat"], t)
            e = exp_oracle(cap[j], elig[j], s)
            es.append(e)
            reqs.append(f"propcov {q(cap[j])} {q(elig[j])} {'none' if s is None else q(s)} {q(e)}")
    reps = core.drive(reqs)
    k = 0
    for spec, tvec, cap, elig, out, ladder, rp in batch:
        for j, t in enumerate(tvec):
            rep, e = reps[k], es[k]
            k += 1
            s = lookup(spec["sat"], t)
            c, el, impl = float(cap[j]), float(elig[j]), float(out[j])
            count_series(ctx, spec["sat"], t)
            branch_cov(ctx, c, el, s, impl, e)
            ctx.case([c, el, s], nontrivial=(s is not None) or el <= c or inside(spec["sat"], t))
            ctx.traces += 1
            key = {"api": "Program.get_prop_covered", "sat": s is not None, "elig0": el == 0}
            m = unq(rep) if not rep.startswith("err") else "err"
            bad = oracle_cov(impl, c, el, s)
            if bad is None and s is not None and el > 0:
                # closed form s*tanh(x/s) with libm's tanh
                want = min(1.0, s * math.tanh((c / el) / s))
                if abs(impl - want) > 1e-12 * max(1.0, s):
                    bad = f"saturated coverage {impl!r} != min(1, s*tanh(x/s)) = {want!r}"
            agree = m != "err" and core.close(m, impl, scale=max(1.0, s or 1.0), rtol=1e-11)
            if bad or not agree:
                rp1 = dict(rp, index=j, model=rep, impl=impl, e=e)
                ctx.disagreements_checked += 1
                if bad:
                    ctx.violation(key, f"Program.get_prop_covered(capacity={c!r}, eligible={el!r}, saturation={s!r}): {bad}", rp1)
                else:
                    ctx.brk("correspondence", f"Program.get_prop_covered(capacity={c!r}, eligible={el!r}, saturation={s!r}): impl {impl!r} vs model {rep}", replay=rp1)
        if ladder:
            s = lookup(spec["sat"], 2000.0)
            for j in range(len(tvec) - 1):
                ctx.count("pair.capacity")
                if out[j] > out[j + 1] + tol(s):
                    ctx.violation({"api": "Program.get_prop_covered", "case": "monotone-capacity"},
                                  f"coverage decreases when capacity rises: cap {cap[j]!r}->{cap[j + 1]!r}, eligible {elig[j]!r}, saturation {s!r}: {out[j]!r} -> {out[j + 1]!r}", dict(rp, index=j))


def branch_cov(ctx, c, el, s, impl, e):
    if s is None:
        if el == 0:
            ctx.count("cov.nosat.elig0")
        elif el == c:
            ctx.count("cov.nosat.tie")
        elif el > c:
            ctx.count("cov.nosat.lt")
        else:
            ctx.count("cov.nosat.ge")
    else:
        if el == 0:
            ctx.count("cov.sat.elig0")
        else:
            ctx.count("cov.sat.curve")
            if impl == 1.0:
                ctx.count("cov.sat.capped1")
            # hypotheses on the exp oracle value: 0 < e <= 1 and the Pade bound (2-u) <= e(2+u)
            u = 2.0 * (c / el) / s
            ctx.hyp_checked += 1
            if e == 0.0:
                ctx.count("exp.underflow")
            elif 0 < e <= 1 and (not math.isfinite(u) or (2 - u) <= e * (2 + u) * (1 + 4e-16) + 4e-16):
                ctx.hyp_held += 1
        if s > 1:
            ctx.count("cov.sat.gt1")


# ----------------------------------------------------------------------------------------------
# C. ProgramSet.get_alloc / get_capacities / get_prop_coverage with overwrites
# ----------------------------------------------------------------------------------------------
_PROJECT = {}


def demo_project(name="udt"):
    import atomica as at

    if name not in _PROJECT:
        _PROJECT[name] = at.demo(name, do_run=False)
    return _PROJECT[name]


def blank_progset(specs):
    import sciris as sc
    import atomica as at

    P = demo_project()
    if "blank" not in _PROJECT:
        _PROJECT["blank"] = at.ProgramSet.new(tvec=np.array([2015.0, 2016.0]), progs=1, framework=P.framework, data=P.data)
    ps = sc.dcp(_PROJECT["blank"])
    ps.programs = sc.odict()
    for s in specs:
        ps.programs[s["name"]] = build_program(s)
    return ps


OV_KINDS = ["alloc", "capacity", "coverage"]


def g_instr(r, specs, force=None):
    """instructions with a random subset of overwrites per program (all 8 subsets cycle through `force`)"""
    ispec = {"start": 2000.0, "alloc": {}, "capacity": {}, "coverage": {}}
    for i, s in enumerate(specs):
        subset = force[i] if force is not None else [k for k in OV_KINDS if r.random() < 0.4]
        s0 = lookup(s["spend"], 2010.0) or 1000.0
        u0 = lookup(s["uc"], 2010.0)
        for kind in subset:
            if kind == "alloc":
                ispec["alloc"][s["name"]] = g_series(r, g_spend)
            elif kind == "capacity":
                lvl = max(s0 / u0, 1.0)
                ispec["capacity"][s["name"]] = g_series(r, lambda rr, lvl=lvl: float(rr.choice([0.0, lvl, lvl * 10 ** rr.uniform(-2, 2)])))
            else:
                ispec["coverage"][s["name"]] = g_series(r, lambda rr: float(rr.choice([0.0, 1.0, 0.5, rr.random(), rr.uniform(0, 3), 12.0])))
            sr = ispec[kind][s["name"]]
            if sr["a"] is not None and not sr["t"] and (zlib.crc32(repr((s["name"], kind, sr["a"])).encode()) % 3 == 0 or sr["a"] == 0.0):
                sr["scalar"] = True   # passed to ProgramInstructions as a number, not as a TimeSeries (decided from the values, so the random stream is unchanged)
    return ispec


def effcov_request(spec, ispec, t, dt, elig, e):
    nm = spec["name"]
    parts = [f"effcov {q(t)} {q(dt)} {q(elig)} {q(e)} {int(is_one_off(spec))} {int(per_year(spec))}",
             wire_series(spec["spend"]), wire_series(spec["uc"]), wire_series(spec.get("cc")), wire_series(spec.get("sat")),
             wire_series(ispec["alloc"].get(nm)), wire_series(ispec["capacity"].get(nm)), wire_series(ispec["coverage"].get(nm))]
    return " | ".join(parts)


def spec_point(spec, ispec, t, dt):
    """float-side evaluation of the specification up to the capacity (used for the exp oracle input and the oracles)"""
    nm = spec["name"]
    oo, py = is_one_off(spec), per_year(spec)
    a = lookup(ispec["alloc"].get(nm), t)
    spend = a if a is not None else lookup(spec["spend"], t)
    kov = lookup(ispec["capacity"].get(nm), t)
    cc = lookup(spec.get("cc"), t)
    cc_eff = None if cc is None else (cc * dt if py else cc)
    if kov is not None:
        cap = kov * dt if oo else kov
        cc_eff = None
    else:
        cap = spec_capacity(spend, lookup(spec["uc"], t), dt, oo, cc, py)
    cov_ov = lookup(ispec["coverage"].get(nm), t)
    return spend, cap, cc_eff, cov_ov


def eval_progset(ctx, specs, ispec, tvec, dt, elig, rp, what="ProgramSet"):
    """run the three ProgramSet calls; returns (alloc, caps, cov) dicts of float arrays or None"""
    ps = blank_progset(specs)
    instr = build_instructions(ispec) if ispec is not None else None

    def f():
        alloc = ps.get_alloc(tvec, instr)
        caps = ps.get_capacities(tvec, dt, instr)
        cov = ps.get_prop_coverage(tvec, dt, caps, {k: np.array(v, dtype=float) for k, v in elig.items()}, instr)
        return ({k: np.asarray(v, dtype=float) for k, v in alloc.items()}, {k: np.asarray(v, dtype=float) for k, v in caps.items()},
                {k: np.asarray(v, dtype=float) for k, v in cov.items()})

    return call(ctx, {"api": "ProgramSet.get_prop_coverage"}, what, f, rp)


EMPTY_I = {"start": 2000.0, "alloc": {}, "capacity": {}, "coverage": {}}


def run_effcov(ctx):
    r = ctx.rng
    subsets = [[k for b, k in zip(format(m, "03b"), OV_KINDS) if b == "1"] for m in range(8)]
    batch = []
    for ci in range(ctx.n(120, 2500)):
        nprog = r.randint(1, 4)
        specs = [g_progspec(r, f"prog{i}") for i in range(nprog)]
        force = [subsets[(ci + i) % 8] for i in range(nprog)] if ci % 2 == 0 else None
        ispec = g_instr(r, specs, force)
        dt = g_dt(r)
        allser = [s[k] for s in specs for k in ("spend", "uc", "cc", "sat")] + [x for d in ("alloc", "capacity", "coverage") for x in ispec[d].values()]
        tvec = g_tvec(r, allser, dt)
        if len(tvec) > 10:
            tvec = np.array(sorted(r.sample(list(tvec), 10)))
        elig = {}
        for s in specs:
            elig[s["name"]] = [g_elig(r, spec_point(s, ispec, t, dt)[1]) for t in tvec]
        rp = {"kind": "effcov", "specs": specs, "instr": ispec, "dt": dt, "tvec": farr(tvec), "elig": elig}
        use_instr = ispec if (any(ispec[d] for d in OV_KINDS) or r.random() < 0.5) else None  # also exercise instructions=None
        res = eval_progset(ctx, specs, use_instr, tvec, dt, elig, rp)
        if res is None:
            continue
        batch.append((specs, ispec, dt, tvec, elig, res, rp))
    reqs, es = [], []
    for specs, ispec, dt, tvec, elig, res, rp in batch:
        for s in specs:
            for j, t in enumerate(tvec):
                spend, cap, cc_eff, cov_ov = spec_point(s, ispec, t, dt)
                sat = lookup(s.get("sat"), t)
                e = exp_oracle(cap, elig[s["name"]][j], sat) if cov_ov is None else 1.0
                es.append(e)
                reqs.append(effcov_request(s, ispec, float(t), dt, elig[s["name"]][j], e))
    reps = core.drive(reqs)
    k = 0
    for specs, ispec, dt, tvec, elig, res, rp in batch:
        alloc, caps, cov = res
        for s in specs:
            nm = s["name"]
            oo = is_one_off(s)
            ovs = [d for d in OV_KINDS if nm in ispec[d]]
            for j, t in enumerate(tvec):
                rep, e = reps[k], es[k]
                k += 1
                spend, cap, cc_eff, cov_ov = spec_point(s, ispec, t, dt)
                sat = lookup(s.get("sat"), t)
                el = float(elig[nm][j])
                ctx.count("ov." + ("+".join(ovs) if ovs else "none"))
                for sr in (s["spend"], s.get("cc"), s.get("sat"), ispec["alloc"].get(nm), ispec["capacity"].get(nm), ispec["coverage"].get(nm)):
                    count_series(ctx, sr, t)
                i_alloc, i_cap, i_cov = float(alloc[nm][j]), float(caps[nm][j]), float(cov[nm][j])
                if cov_ov is None:
                    branch_cov(ctx, cap, el, sat, i_cov, e)
                nontrivial = bool(ovs) or sat is not None or el <= cap or (oo and dt != 1.0) or (cc_eff is not None and cc_eff < cap * (1 + 1e-9)) or any(inside(x, t) for x in (s["spend"], s["uc"], s.get("cc"), s.get("sat")))
                ctx.case([nm, rp["specs"].index(s), j, q(t), q(dt), q(el), wire_series(s["spend"]), wire_series(s["uc"]), ovs], nontrivial=nontrivial,
                         sample={"t": float(t), "dt": dt, "one_off": oo, "overwrites": ovs, "eligible": el, "impl": [i_alloc, i_cap, i_cov], "model": rep})
                ctx.traces += 1
                ctx.hyp_checked += 1
                ctx.hyp_held += int(spend >= 0 and lookup(s["uc"], t) > 0 and dt > 0 and el >= 0 and (sat is None or sat > 0))
                key = {"api": "ProgramSet.get_prop_coverage", "overwrites": "+".join(ovs) if ovs else "none", "oneoff": oo, "sat": sat is not None}
                toks = rep.split()
                bad = None
                agree = False
                if len(toks) == 3 and not rep.startswith("err"):
                    m_alloc, m_cap, m_cov = (unq(x) for x in toks)
                    agree = (core.close(m_alloc, i_alloc, rtol=1e-15) and core.close(m_cap, i_cap, scale=abs(cap), rtol=1e-12)
                             and core.close(m_cov, i_cov, scale=max(1.0, sat or 1.0), rtol=1e-11))
                # direct oracles
                if i_alloc != spend:
                    bad = f"get_alloc returned {i_alloc!r}, stepped spending (overwrite first) is {spend!r}"
                elif abs(i_cap - cap) > 1e-12 * max(abs(cap), 1e-300):
                    bad = f"get_capacities returned {i_cap!r}, expected {cap!r} (capacity overwrite, else min(constraint, spending(*dt)/unit cost))"
                elif cov_ov is not None:
                    want = min(cov_ov * dt if oo else cov_ov, 1.0)
                    if abs(i_cov - want) > 1e-15:
                        bad = f"coverage overwrite {cov_ov!r} ({'one-off, dt=%r' % dt if oo else 'continuous'}): get_prop_coverage returned {i_cov!r}, expected {want!r}"
                else:
                    bad = oracle_cov(i_cov, i_cap, el, sat, cc_eff)
                if bad or not agree:
                    rp1 = dict(rp, prog=nm, index=j, model=rep, impl=[i_alloc, i_cap, i_cov], e=e)
                    ctx.disagreements_checked += 1
                    if bad:
                        ctx.violation(key, f"ProgramSet pipeline for {nm} at t={float(t)!r} dt={dt!r} eligible={el!r} overwrites={ovs}: {bad}", rp1)
                    else:
                        ctx.brk("correspondence", f"ProgramSet pipeline for {nm} at t={float(t)!r} dt={dt!r} eligible={el!r} overwrites={ovs}: impl {[i_alloc, i_cap, i_cov]} vs model {rep}", replay=rp1)
        # --- precedence on the implementation: coverage beats everything, capacity beats spending -----------------
        if ctx.quick and k % 3:
            continue
        precedence_oracle(ctx, specs, ispec, dt, tvec, elig, res, rp)


def precedence_oracle(ctx, specs, ispec, dt, tvec, elig, res, rp):
    r = ctx.rng
    alloc, caps, cov = res
    # perturb everything that must not matter
    specs2 = json.loads(json.dumps(specs))
    ispec2 = json.loads(json.dumps(ispec))
    touched = False
    for s2 in specs2:
        nm = s2["name"]
        if nm in ispec["coverage"]:
            # spending, unit cost, constraint, saturation, other overwrites: all irrelevant
            s2["spend"] = g_series(r, g_spend)
            s2["uc"] = g_series(r, g_uc)
            s2["cc"] = None
            s2["sat"] = series(a=g_sat(r))
            ispec2["alloc"].pop(nm, None)
            ispec2["capacity"].pop(nm, None)
            touched = True
        elif nm in ispec["capacity"]:
            s2["spend"] = g_series(r, g_spend)
            s2["uc"] = g_series(r, g_uc)
            s2["cc"] = None
            ispec2["alloc"].pop(nm, None)
            touched = True
        elif nm in ispec["alloc"]:
            s2["spend"] = g_series(r, g_spend)
            touched = True
    if not touched:
        return
    rp2 = dict(rp, kind="precedence", specs2=specs2, instr2=ispec2)
    res2 = eval_progset(ctx, specs2, ispec2, tvec, dt, elig, rp2, what="ProgramSet (precedence probe)")
    if res2 is None:
        return
    for s in specs:
        nm = s["name"]
        if not any(nm in ispec[d] for d in OV_KINDS):
            continue
        ctx.count("precedence.checked")
        top = "coverage" if nm in ispec["coverage"] else ("capacity" if nm in ispec["capacity"] else "alloc")
        eq = lambda a, b: np.array_equal(a, b, equal_nan=True)
        same = eq(res2[2][nm], cov[nm]) if top != "alloc" else eq(res2[0][nm], alloc[nm]) and eq(res2[2][nm], cov[nm])
        if top == "capacity":
            same = same and eq(res2[1][nm], caps[nm])
        if not same:
            ctx.violation({"api": "ProgramSet.get_prop_coverage", "case": "precedence", "top": top},
                          f"{top} overwrite for {nm} does not take precedence: changing lower-ranked inputs changed the result {cov[nm].tolist()} -> {res2[2][nm].tolist()}", rp2)


# ----------------------------------------------------------------------------------------------
# D. ordered pairs (spending up / unit cost down) and one-off dt independence, on the implementation
# ----------------------------------------------------------------------------------------------
def scale_series(s, f):
    return series(a=None if s["a"] is None else s["a"] * f, t=s["t"], v=[v * f for v in s["v"]])


def run_pairs(ctx):
    r = ctx.rng
    npairs = 0
    target = ctx.n(1500, 10000)
    while npairs < target:
        nprog = 4
        specs = [g_progspec(r, f"prog{i}") for i in range(nprog)]
        dt = g_dt(r)
        tvec = g_tvec(r, [s[k] for s in specs for k in ("spend", "uc", "cc", "sat")], dt)[:8]
        mode = r.choice(["spend", "spend-overwrite", "unitcost"])
        lo, hi = json.loads(json.dumps(specs)), json.loads(json.dumps(specs))
        ilo, ihi = json.loads(json.dumps(EMPTY_I)), json.loads(json.dumps(EMPTY_I))
        for a, b in zip(lo, hi):
            f = r.choice([1.0, float(np.nextafter(1.0, 2.0)), 1.0 + 10 ** r.uniform(-8, 0), r.uniform(1, 100), 1e6])
            if mode == "spend":
                # raise some or all entered values (same time points): pointwise >=
                b["spend"] = series(a=None if a["spend"]["a"] is None else a["spend"]["a"] * f, t=a["spend"]["t"],
                                    v=[v * (f if r.random() < 0.7 else 1.0) + (r.choice([0.0, 0.0, 1.0, 1e4]) if v == 0 else 0.0) for v in a["spend"]["v"]])
                if b["spend"]["a"] == 0.0:
                    b["spend"]["a"] = float(r.choice([0.0, 1.0, 1e5]))
            elif mode == "spend-overwrite":
                base = g_series(r, g_spend)
                ilo["alloc"][a["name"]] = base
                ihi["alloc"][a["name"]] = scale_series(base, f)
            else:
                a["uc"] = scale_series(b["uc"], f)  # lo = higher unit cost
        elig = {}
        for s in lo:
            elig[s["name"]] = [g_elig(r, 0.5 * (spec_point(s, ilo, t, dt)[1] + spec_point(hi[lo.index(s)], ihi, t, dt)[1])) for t in tvec]
        rp = {"kind": "pair", "mode": mode, "lo": lo, "hi": hi, "ilo": ilo, "ihi": ihi, "dt": dt, "tvec": farr(tvec), "elig": elig}
        rlo = eval_progset(ctx, lo, ilo if mode == "spend-overwrite" else None, tvec, dt, elig, rp, "ProgramSet (pair, lower)")
        rhi = eval_progset(ctx, hi, ihi if mode == "spend-overwrite" else None, tvec, dt, elig, rp, "ProgramSet (pair, upper)")
        if rlo is None or rhi is None:
            npairs += nprog * len(tvec)
            continue
        for s in lo:
            nm = s["name"]
            for j, t in enumerate(tvec):
                npairs += 1
                ctx.count("pair.unitcost" if mode == "unitcost" else "pair.spend")
                sat = lookup(s.get("sat"), t)
                c_lo, c_hi = float(rlo[2][nm][j]), float(rhi[2][nm][j])
                k_lo, k_hi = float(rlo[1][nm][j]), float(rhi[1][nm][j])
                ctx.case(["pair", mode, nm, j, q(t), q(dt), wire_series(s["spend"]), wire_series(s["uc"])], nontrivial=c_lo != c_hi)
                bad = None
                for cv in (c_lo, c_hi):
                    if not (0 <= cv <= 1):
                        bad = f"coverage {cv!r} outside [0,1]"
                if k_lo > k_hi * (1 + 4e-16):
                    bad = f"capacity falls from {k_lo!r} to {k_hi!r}"
                elif c_lo > c_hi + tol(sat):
                    bad = f"coverage falls from {c_lo!r} to {c_hi!r}"
                if bad:
                    what = "spending rises" if mode != "unitcost" else "unit cost falls"
                    ctx.violation({"api": "ProgramSet.get_prop_coverage", "case": "monotone-" + mode},
                                  f"{nm} at t={float(t)!r}, dt={dt!r}, eligible={elig[nm][j]!r}, saturation={sat!r}: when {what}, {bad}", dict(rp, prog=nm, index=j))


def run_dtfree(ctx):
    """one-off programs: capacity per year (capacity/dt, what Result.get_coverage('capacity') reports) independent of dt"""
    r = ctx.rng
    for ci in range(ctx.n(60, 1500)):
        specs = [g_progspec(r, f"prog{i}") for i in range(3)]
        ispec = g_instr(r, specs) if r.random() < 0.5 else json.loads(json.dumps(EMPTY_I))
        ispec["coverage"] = {}
        tvec = g_tvec(r, [s[k] for s in specs for k in ("spend", "uc", "cc")], 0.5)[:8]
        d1, d2 = r.sample(DTS, 2)
        elig = {s["name"]: [1.0] * len(tvec) for s in specs}
        rp = {"kind": "dtfree", "specs": specs, "instr": ispec, "tvec": farr(tvec), "dts": [d1, d2]}
        r1 = eval_progset(ctx, specs, ispec, tvec, d1, elig, rp, "ProgramSet (dt probe)")
        r2 = eval_progset(ctx, specs, ispec, tvec, d2, elig, rp, "ProgramSet (dt probe)")
        if r1 is None or r2 is None:
            continue
        for s in specs:
            nm = s["name"]
            if not is_one_off(s):
                continue
            absolute_con = s.get("cc") is not None and not per_year(s) and nm not in ispec["capacity"]
            for j, t in enumerate(tvec):
                a1, a2 = float(r1[1][nm][j]) / d1, float(r2[1][nm][j]) / d2
                if absolute_con:
                    # an absolute ('people') constraint on a one-off program is per timestep by definition: only the unconstrained part is dt-free
                    cc = lookup(s["cc"], t)
                    if float(r1[1][nm][j]) >= cc * (1 - 1e-12) or float(r2[1][nm][j]) >= cc * (1 - 1e-12):
                        ctx.count("oneoff.absolute_con_binding")
                        continue
                ctx.count("oneoff.dtfree")
                ctx.case(["dtfree", nm, j, q(t), q(d1), q(d2), wire_series(s["spend"])], nontrivial=d1 != 1.0 and d2 != 1.0)
                if abs(a1 - a2) > 1e-12 * max(abs(a1), abs(a2)):
                    ctx.violation({"api": "ProgramSet.get_capacities", "case": "oneoff-dt"},
                                  f"one-off program {nm} at t={float(t)!r}: capacity per year is {a1!r} with dt={d1!r} but {a2!r} with dt={d2!r}", dict(rp, prog=nm, index=j))


# ----------------------------------------------------------------------------------------------
# E. Result.get_coverage on real simulations
# ----------------------------------------------------------------------------------------------
def spec_from_program(prog):
    def ser(ts):
        if not ts.has_data:
            return None
        return series(a=ts.assumption, t=ts.t, v=ts.vals)

    return {"name": prog.name, "uc_units": prog.unit_cost.units, "cc_units": prog.capacity_constraint.units,
            "spend": ser(prog.spend_data), "uc": ser(prog.unit_cost), "cc": ser(prog.capacity_constraint), "sat": ser(prog.saturation)}


def run_result(ctx):
    import sciris as sc
    import atomica as at

    r = ctx.rng
    demos = ["udt"] * ctx.n(6, 60) + ["hypertension"] * ctx.n(2, 20) + ["tb"] * ctx.n(1, 4)
    base_elig = {}
    for di, name in enumerate(demos):
        P = demo_project(name)
        ps = sc.dcp(P.progsets[0])
        # typical eligible numbers from the first run of this demo (a simulation output, used only to scale the generated spending)
        if name not in base_elig:
            res0 = call(ctx, {"api": "Result.get_coverage"}, "baseline run", lambda: P.run_sim(P.parsets[0], ps, progset_instructions=at.ProgramInstructions(start_year=2018)), {"kind": "result", "demo": name})
            if res0 is None:
                continue
            base_elig[name] = {k: float(np.mean(v)) for k, v in res0.get_coverage("eligible").items()}
        specs = []
        for prog in ps.programs.values():
            e0 = max(base_elig[name].get(prog.name, 100.0), 1.0)
            one_off = r.random() < 0.6
            uc = g_uc(r)
            frac = r.choice([0.0, 0.1, 0.5, 1.0, 1.5, 4.0, r.random() * 2])
            level = frac * e0 * uc  # continuous: spending that buys `frac` of the eligible people
            spec = {"name": prog.name, "uc_units": r.choice(ONEOFF_UNITS) if one_off else CONT_UNITS[0], "cc_units": r.choice(["people/year", "people"]),
                    "spend": g_series(r, lambda rr, level=level: float(level * rr.choice([0.0, 0.5, 1.0, 1.0, 2.0, 10.0])), 2014, 2024),
                    "uc": g_series(r, lambda rr, uc=uc: float(uc * rr.choice([1.0, 1.0, 0.5, 2.0])), 2014, 2024), "cc": None, "sat": None}
            if r.random() < 0.4:
                spec["cc"] = g_series(r, lambda rr, e0=e0: float(e0 * rr.choice([0.0, 0.2, 0.8, 1.0, 3.0])), 2014, 2024)
            if r.random() < 0.5:
                spec["sat"] = g_series(r, g_sat, 2014, 2024)
            specs.append(spec)
            prog.spend_data = to_ts(spec["spend"], "$/year")
            prog.unit_cost = to_ts(spec["uc"], spec["uc_units"])
            prog.capacity_constraint = to_ts(spec["cc"], spec["cc_units"])
            prog.saturation = to_ts(spec["sat"], "N.A.")
        ispec = g_instr(r, specs)
        for d in OV_KINDS:  # keep the overwrites in a range where the simulation stays sensible
            for nm, s in ispec[d].items():
                if d == "capacity":
                    e0 = max(base_elig[name].get(nm, 100.0), 1.0)
                    ispec[d][nm] = g_series(r, lambda rr, e0=e0: float(e0 * rr.choice([0.0, 0.3, 1.0, 2.0])), 2014, 2024)
        ispec["start"] = float(r.choice([2016, 2018, 2019]))
        dt = float(r.choice([1.0, 0.5, 0.25, 0.2, 1 / 12]))
        rp = {"kind": "result", "demo": name, "specs": specs, "instr": ispec, "dt": dt}
        P2 = sc.dcp(P)
        P2.settings.update_time_vector(dt=dt)
        instr = build_instructions(ispec)

        calls = []

        def f():
            # observe (from outside) the scalar calls the integration loop makes: Program.get_prop_covered(t, capacity[ti], n)
            from atomica.programs import Program
            orig = Program.get_prop_covered

            def spy(self, tvec, capacity, eligible):
                out = orig(self, tvec, capacity, eligible)
                if np.ndim(tvec) == 0 and np.ndim(capacity) == 0:
                    calls.append((self.name, float(tvec), float(capacity), float(eligible), float(np.asarray(out).ravel()[0])))
                return out

            Program.get_prop_covered = spy
            try:
                res = P2.run_sim(P2.parsets[0], ps, progset_instructions=instr)
            finally:
                Program.get_prop_covered = orig
            return res, {qn: {k: np.array(v, dtype=float) for k, v in res.get_coverage(qn).items()} for qn in ("capacity", "eligible", "fraction", "number")}

        out = call(ctx, {"api": "Result.get_coverage"}, f"run_sim/get_coverage on demo {name}", f, rp)
        if out is None:
            continue
        res, cv = out
        rdt = float(res.dt)
        tvec = np.asarray(res.t, dtype=float)
        check_integration_calls(ctx, name, specs, ispec, rdt, calls, rp)
        idx = sorted(set([0, 1, len(tvec) - 1] + r.sample(range(len(tvec)), min(len(tvec), ctx.n(6, 12)))))
        reqs, es, meta = [], [], []
        for s in specs:
            nm = s["name"]
            for j in idx:
                t = float(tvec[j])
                el = float(cv["eligible"][nm][j]) if nm in cv["eligible"] else 0.0
                spend, cap, cc_eff, cov_ov = spec_point(s, ispec, t, rdt)
                sat = lookup(s.get("sat"), t)
                e = exp_oracle(cap, el, sat) if cov_ov is None else 1.0
                reqs.append(effcov_request(s, ispec, t, rdt, el, e))
                meta.append((s, j, t, el, cap, cc_eff, cov_ov, sat))
        reps = core.drive(reqs)
        for rep, (s, j, t, el, cap, cc_eff, cov_ov, sat) in zip(reps, meta):
            nm = s["name"]
            oo = is_one_off(s)
            ctx.count("result.get_coverage")
            i_cap, i_frac, i_num = float(cv["capacity"][nm][j]), float(cv["fraction"][nm][j]), float(cv["number"][nm][j])
            ovs = [d for d in OV_KINDS if nm in ispec[d]]
            ctx.case(["result", name, di, nm, j, q(rdt)], nontrivial=bool(ovs) or sat is not None or el <= cap or oo)
            ctx.traces += 1
            key = {"api": "Result.get_coverage", "oneoff": oo, "overwrites": "+".join(ovs) if ovs else "none"}
            toks = rep.split()
            bad, agree = None, False
            if len(toks) == 3 and not rep.startswith("err"):
                m_alloc, m_cap, m_cov = (unq(x) for x in toks)
                ann = Fraction(rdt) if oo else Fraction(1)
                agree = (core.close(m_cap / ann, i_cap, scale=abs(cap / (rdt if oo else 1.0)), rtol=1e-12) and core.close(m_cov, i_frac, scale=max(1.0, sat or 1.0), rtol=1e-11)
                         and core.close(m_cov * Fraction(el) / ann, i_num, scale=max(1.0, sat or 1.0) * el / (rdt if oo else 1.0), rtol=1e-11))
            if el < 0:
                pass  # a negative compartment is another property's business
            elif cov_ov is None:
                bad = oracle_cov(i_frac, cap, el, sat, cc_eff)
            elif abs(i_frac - min(cov_ov * rdt if oo else cov_ov, 1.0)) > 1e-15:
                bad = f"coverage overwrite {cov_ov!r}: fraction {i_frac!r}"
            if bad is None and abs(i_cap - cap / (rdt if oo else 1.0)) > 1e-12 * max(abs(i_cap), 1e-300):
                bad = f"get_coverage('capacity') = {i_cap!r} people/year, expected {cap / (rdt if oo else 1.0)!r}"
            if bad or (not agree and el >= 0):
                rp1 = dict(rp, prog=nm, index=j, t=t, eligible=el, model=rep, impl=[i_cap, i_frac, i_num])
                ctx.disagreements_checked += 1
                if bad:
                    ctx.violation(key, f"Result.get_coverage on demo {name}, program {nm}, t={t!r}, dt={rdt!r}, eligible={el!r}: {bad}", rp1)
                else:
                    ctx.brk("correspondence", f"Result.get_coverage on demo {name}, program {nm}, t={t!r}, dt={rdt!r}: impl {[i_cap, i_frac, i_num]} vs model {rep}", replay=rp1)


def check_integration_calls(ctx, name, specs, ispec, rdt, calls, rp):
    """the coverage the integration loop itself computed at each step: capacity argument = this step's capacity, result obeys the property"""
    byname = {s["name"]: s for s in specs}
    if len(calls) > ctx.n(150, 600):
        calls = ctx.rng.sample(calls, ctx.n(150, 600))
    reqs, es = [], []
    for nm, t, cap, el, outv in calls:
        sat = lookup(byname[nm].get("sat"), t)
        e = exp_oracle(cap, el, sat) if el >= 0 else 1.0
        es.append(e)
        reqs.append(f"propcov {q(cap)} {q(el)} {'none' if sat is None else q(sat)} {q(e)}")
    reps = core.drive(reqs)
    for (nm, t, cap, el, outv), rep in zip(calls, reps):
        s = byname[nm]
        ctx.count("result.integration_call")
        ctx.traces += 1
        ctx.case(["integration", name, nm, q(t), q(rdt), q(cap), q(el)], nontrivial=True)
        if el < 0:
            continue
        spend, cap_want, cc_eff, cov_ov = spec_point(s, ispec, t, rdt)
        sat = lookup(s.get("sat"), t)
        bad = None
        if abs(cap - cap_want) > 1e-12 * max(abs(cap_want), 1e-300):
            bad = f"the step at t={t!r} used capacity {cap!r}, but the capacity of that step is {cap_want!r}"
        else:
            bad = oracle_cov(outv, cap, el, sat, cc_eff)
        agree = not rep.startswith("err") and core.close(unq(rep), outv, scale=max(1.0, sat or 1.0), rtol=1e-11)
        if bad or not agree:
            rp1 = dict(rp, prog=nm, t=t, call=[cap, el, outv], model=rep)
            ctx.disagreements_checked += 1
            if bad:
                ctx.violation({"api": "Model.update_pars->Program.get_prop_covered", "oneoff": is_one_off(s)}, f"integration of demo {name}, program {nm}, dt={rdt!r}, eligible={el!r}: {bad}", rp1)
            else:
                ctx.brk("correspondence", f"integration of demo {name}, program {nm}, t={t!r}: get_prop_covered({cap!r},{el!r}) = {outv!r} vs model {rep}", replay=rp1)


# ----------------------------------------------------------------------------------------------
# F. integer-typed inputs (same numbers, Python int / int64 instead of float)
# ----------------------------------------------------------------------------------------------
def run_dtype(ctx):
    from atomica.programs import Program
    from atomica.utils import TimeSeries

    cases = []
    for one_off in (True, False):
        for cc_units in ("people/year", "people"):
            cases.append(("capacity-int-spending", one_off, cc_units))
            cases.append(("capacity-int-assumption", one_off, cc_units))
    cases += [("propcov-int", True, "people/year"), ("propcov-int-sat", True, "people/year")]
    for kind, one_off, cc_units in cases:
        p = Program("P")
        p.unit_cost = TimeSeries(assumption=10.0, units="$/person" if one_off else "$/person/year")
        rp = {"kind": "dtype", "case": kind, "one_off": one_off, "cc_units": cc_units}
        ctx.count("dtype." + kind)
        ctx.case(["dtype", kind, one_off, cc_units], nontrivial=True)
        try:
            if kind == "capacity-int-spending":
                out = p.get_capacity(2020, 1000, 0.25)
                want = 25.0 if one_off else 100.0
            elif kind == "capacity-int-assumption":
                p.capacity_constraint = TimeSeries(assumption=80, units=cc_units)
                out = p.get_capacity(2020, 1000.0, 0.25)
                want = min(80 * 0.25 if "/year" in cc_units else 80.0, 25.0 if one_off else 100.0)
            elif kind == "propcov-int":
                out = p.get_prop_covered(2020, 50, 100)
                want = 0.5
            else:
                p.saturation = TimeSeries(assumption=1)
                out = p.get_prop_covered(2020, 50, 100)
                want = math.tanh(0.5)
            ok = abs(float(np.asarray(out).ravel()[0]) - want) < 1e-12
            if not ok:
                ctx.violation({"api": "Program." + ("get_capacity" if "capacity" in kind else "get_prop_covered"), "case": "int-dtype"}, f"{kind}: returned {out!r}, expected {want!r}", rp)
        except Exception as ex:
            ctx.violation({"api": "Program." + ("get_capacity" if "capacity" in kind else "get_prop_covered"), "case": "int-dtype"},
                          f"integer-typed input ({kind}, one_off={one_off}, constraint units {cc_units}) raised {type(ex).__name__}: {ex}", rp)


# ----------------------------------------------------------------------------------------------
def run(ctx):
    run_capacity(ctx)
    run_propcov(ctx)
    run_effcov(ctx)
    run_pairs(ctx)
    run_dtfree(ctx)
    run_result(ctx)
    run_dtype(ctx)
    ctx.exhaustive = False


def replay(ctx, data):
    """re-run one recorded case on the current tree; exit 1 if the implementation still fails the oracle / disagrees with the model"""
    rp = data["replay"]
    kind = rp["kind"]
    sub = core.Ctx(PROPERTY, "quick", 0)
    if kind == "dtype":
        run_dtype(sub)
        sub.violations = [v for v in sub.violations if v["replay"]["case"] == rp["case"] and v["replay"]["one_off"] == rp["one_off"] and v["replay"]["cc_units"] == rp["cc_units"]]
    elif kind == "capacity":
        p = build_program(rp["spec"])
        tvec, spending, dt = np.array(rp["tvec"]), np.array(rp["spending"]), rp["dt"]
        out = p.get_capacity(tvec, spending.copy(), dt)
        for j, t in enumerate(tvec):
            cc, uc = lookup(rp["spec"]["cc"], t), lookup(rp["spec"]["uc"], t)
            want = spec_capacity(spending[j], uc, dt, is_one_off(rp["spec"]), cc, per_year(rp["spec"]))
            rep = core.drive([f"capacity {q(spending[j])} {q(uc)} {q(dt)} {int(is_one_off(rp['spec']))} {'none' if cc is None else q(cc)} {int(per_year(rp['spec']))}"])[0]
            print(f"t={t}: impl {float(out[j])!r} spec {want!r} model {rep}")
            if abs(float(out[j]) - want) > 1e-12 * max(abs(want), 1e-300):
                sub.violation({"api": "Program.get_capacity"}, f"t={t}: impl {float(out[j])!r} != {want!r}", rp)
    elif kind == "propcov":
        p = build_program(rp["spec"])
        tvec, cap, elig = np.array(rp["tvec"]), np.array(rp["cap"]), np.array(rp["elig"])
        out = p.get_prop_covered(tvec, cap.copy(), elig.copy())
        for j, t in enumerate(tvec):
            s = lookup(rp["spec"]["sat"], t)
            e = exp_oracle(cap[j], elig[j], s)
            rep = core.drive([f"propcov {q(cap[j])} {q(elig[j])} {'none' if s is None else q(s)} {q(e)}"])[0]
            print(f"t={t}: cap={cap[j]!r} elig={elig[j]!r} sat={s!r}: impl {float(out[j])!r} model {rep}")
            bad = oracle_cov(float(out[j]), float(cap[j]), float(elig[j]), s)
            if bad or not core.close(unq(rep), float(out[j]), scale=max(1.0, s or 1.0), rtol=1e-11):
                sub.violation({"api": "Program.get_prop_covered"}, bad or f"impl {float(out[j])!r} vs model {rep}", rp)
        for j in range(len(tvec) - 1):
            if elig[j] == elig[j + 1] and cap[j] <= cap[j + 1] and lookup(rp["spec"]["sat"], tvec[j]) == lookup(rp["spec"]["sat"], tvec[j + 1]) and out[j] > out[j + 1] + tol(lookup(rp["spec"]["sat"], tvec[j])):
                sub.violation({"api": "Program.get_prop_covered", "case": "monotone-capacity"}, f"coverage falls {out[j]!r} -> {out[j + 1]!r}", rp)
    elif kind in ("effcov", "precedence"):
        tvec, dt, elig = np.array(rp["tvec"]), rp["dt"], rp["elig"]
        res = eval_progset(sub, rp["specs"], rp["instr"], tvec, dt, elig, rp)
        if res is not None:
            for s in rp["specs"]:
                nm = s["name"]
                for j, t in enumerate(tvec):
                    spend, cap, cc_eff, cov_ov = spec_point(s, rp["instr"], t, dt)
                    sat = lookup(s.get("sat"), t)
                    el = float(elig[nm][j])
                    e = exp_oracle(cap, el, sat) if cov_ov is None else 1.0
                    rep = core.drive([effcov_request(s, rp["instr"], float(t), dt, el, e)])[0]
                    impl = [float(res[0][nm][j]), float(res[1][nm][j]), float(res[2][nm][j])]
                    toks = rep.split()
                    ok = len(toks) == 3 and core.close(unq(toks[0]), impl[0], rtol=1e-15) and core.close(unq(toks[1]), impl[1], scale=abs(cap), rtol=1e-12) and core.close(unq(toks[2]), impl[2], scale=max(1.0, sat or 1.0), rtol=1e-11)
                    if nm == rp.get("prog", nm) and j == rp.get("index", j) or not ok:
                        print(f"{nm} t={float(t)!r}: impl alloc/capacity/coverage {impl} model {rep} {'OK' if ok else 'DIFFERENT'}")
                    if not ok:
                        sub.violation({"api": "ProgramSet.get_prop_coverage"}, f"{nm} t={float(t)!r}: impl {impl} vs model {rep}", rp)
            if kind == "precedence":
                precedence_oracle(sub, rp["specs"], rp["instr"], dt, tvec, elig, res, rp)
    elif kind == "pair":
        tvec, dt, elig = np.array(rp["tvec"]), rp["dt"], rp["elig"]
        ov = rp["mode"] == "spend-overwrite"
        rlo = eval_progset(sub, rp["lo"], rp["ilo"] if ov else None, tvec, dt, elig, rp)
        rhi = eval_progset(sub, rp["hi"], rp["ihi"] if ov else None, tvec, dt, elig, rp)
        for s in rp["lo"]:
            nm = s["name"]
            for j, t in enumerate(tvec):
                sat = lookup(s.get("sat"), t)
                if rlo[2][nm][j] > rhi[2][nm][j] + tol(sat) or rlo[1][nm][j] > rhi[1][nm][j] * (1 + 4e-16):
                    print(f"{nm} t={float(t)!r}: capacity {rlo[1][nm][j]!r} -> {rhi[1][nm][j]!r}, coverage {rlo[2][nm][j]!r} -> {rhi[2][nm][j]!r}")
                    sub.violation({"api": "ProgramSet.get_prop_coverage", "case": "monotone-" + rp["mode"]}, "coverage or capacity falls", rp)
    elif kind == "dtfree":
        tvec = np.array(rp["tvec"])
        d1, d2 = rp["dts"]
        elig = {s["name"]: [1.0] * len(tvec) for s in rp["specs"]}
        r1 = eval_progset(sub, rp["specs"], rp["instr"], tvec, d1, elig, rp)
        r2 = eval_progset(sub, rp["specs"], rp["instr"], tvec, d2, elig, rp)
        nm, j = rp["prog"], rp["index"]
        a1, a2 = float(r1[1][nm][j]) / d1, float(r2[1][nm][j]) / d2
        print(f"{nm} t={tvec[j]!r}: capacity/year {a1!r} (dt={d1!r}) vs {a2!r} (dt={d2!r})")
        if abs(a1 - a2) > 1e-12 * max(abs(a1), abs(a2)):
            sub.violation({"api": "ProgramSet.get_capacities", "case": "oneoff-dt"}, "annual capacity depends on dt", rp)
    elif kind == "result":
        print("Result.get_coverage case: re-run `./check C11 --tier %s --seed %s` to reproduce (the replay stores the program specs and instructions):" % (data.get("tier"), data.get("seed")))
        print(json.dumps({k: rp[k] for k in rp if k in ("demo", "dt", "prog", "t", "eligible", "model", "impl")}, indent=1))
        import sciris as sc
        P = sc.dcp(demo_project(rp["demo"]))
        ps = sc.dcp(P.progsets[0])
        for s in rp.get("specs", []):
            prog = ps.programs[s["name"]]
            prog.spend_data = to_ts(s["spend"], "$/year")
            prog.unit_cost = to_ts(s["uc"], s["uc_units"])
            prog.capacity_constraint = to_ts(s["cc"], s["cc_units"])
            prog.saturation = to_ts(s["sat"], "N.A.")
        if "specs" in rp:
            P.settings.update_time_vector(dt=rp["dt"])
            from atomica.programs import Program
            orig, calls = Program.get_prop_covered, []

            def spy(self, tvec, capacity, eligible):
                out = orig(self, tvec, capacity, eligible)
                if np.ndim(tvec) == 0 and np.ndim(capacity) == 0:
                    calls.append((self.name, float(tvec), float(capacity), float(eligible), float(np.asarray(out).ravel()[0])))
                return out

            Program.get_prop_covered = spy
            try:
                res = P.run_sim(P.parsets[0], ps, progset_instructions=build_instructions(rp["instr"]))
            finally:
                Program.get_prop_covered = orig
            check_integration_calls(sub, rp["demo"], rp["specs"], rp["instr"], float(res.dt), calls, rp)
            nm = rp["prog"]
            j = rp["index"] if "index" in rp else int(np.argmin(np.abs(np.asarray(res.t) - rp["t"])))
            s = next(x for x in rp["specs"] if x["name"] == nm)
            t, rdt = float(res.t[j]), float(res.dt)
            el = float(res.get_coverage("eligible")[nm][j])
            spend, cap, cc_eff, cov_ov = spec_point(s, rp["instr"], t, rdt)
            sat = lookup(s.get("sat"), t)
            e = exp_oracle(cap, el, sat) if cov_ov is None else 1.0
            rep = core.drive([effcov_request(s, rp["instr"], t, rdt, el, e)])[0]
            frac = float(res.get_coverage("fraction")[nm][j])
            print(f"{nm} t={t!r}: eligible {el!r} fraction {frac!r} capacity/yr {float(res.get_coverage('capacity')[nm][j])!r} model {rep}")
            bad = oracle_cov(frac, cap, el, sat, cc_eff) if cov_ov is None else None
            if bad or not core.close(unq(rep.split()[2]), frac, scale=max(1.0, sat or 1.0), rtol=1e-11):
                sub.violation({"api": "Result.get_coverage"}, bad or "differs from model", rp)
    else:
        print("unknown replay kind", kind)
        return 2
    for v in sub.violations:
        print("FAILS:", v["what"][:400])
    print("replay:", "property violated / disagreement reproduced" if sub.violations else "passes")
    return 1 if sub.violations else 0


if __name__ == "__main__":
    core.main(sys.modules[__name__])
