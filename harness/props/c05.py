"""
C05 -- Timed compartments release every cohort exactly when its duration expires.

Theorems: lean/AtomicaProofs/Properties/C05.lean (about Atomica.Timed.nrows / krows and about
Atomica.Engine.resolveFlow / updateComps / step restricted to timed compartments).

Correspondence and oracles (all run the real atomica code):
  run_rows     mode A: row count actually allocated by TimedCompartment.preallocate (and by TimedLink.preallocate for
               junction-sourced timed links) vs the driver's `trows D dt`, over a table of (k, dt) with D formed in
               floating point (k*dt, k/12, k/52, k*0.1, D < dt, D = 0, non-integer quotients).
  run_keyring  mode A for the abstract keyring: one timed compartment fed by a source with an arbitrary time-varying
               inflow, optional ordinary outflow of any size; rows and flush link of every step vs the driver's `tkey`
               (closed form: `flush_exact`), plus the impulse-response oracle (run with / without a unit pulse at step
               s: the flush-link difference must be 0 at every step except s+n, where it is the surviving pulse).
  run_groups   impulse-response oracle on duration groups (two compartments linked by a TimedLink directly or through
               a duration-group junction): the pulse leaves the group exactly at s+n whatever moves happened inside
               (`tlink_keeps_row`); a move to another group restarts the clock (`untimed_restarts`).
  run_release  random models (genfw with timed focus): for every timed compartment with only untimed inflow,
               flush[t] <= inflow[t-n] (equality when the flush link is the only out-link; I/n for t < n)
               (`engine_flush_exact`, `engine_release_exact`), n = `trows`.
  run_stream   mode B (vlib.engine_corr): every step of generated models with duration groups, junctions inside
               groups, extra outflows, transfers between groups of different length vs one exact `Engine.step`;
               occupancy oracle (`engine_occupancy_bound_general`).
  group_shift_oracle  (C05Groups.lean: `group_step_junctions`, `engine_group_release_exact_junctions`) on the
               implementation's arrays, for every duration group (timed compartments + duration-group junctions joined by
               TimedLinks) whose closedness hypothesis `ClosedGroupJ` holds (evaluated by the Lean driver, request `egroupj` =
               `Engine.closedGroupJCheck`, proved equivalent to the hypothesis): at every step
               sum_members row r (t+1) = sum_members row r+1 (t); last row = untimed inflow; sum flush links = sum_members row 0;
               group flush (t) = group arrivals (t-n).  Installed on `engine_corr.oracles` (so it runs on every model of the
               stream, next to mode B), on the models of run_groups / run_release, and on a hand-built library of groups with
               junctions inside (`run_groupsj`: fans of 2-3 outflows with proportions summing to < 1, = 1, > 1, residual
               junctions, two chained junctions, several timed inflows into one junction, float-hazard durations, one row).
"""
import collections
import math
import random as _random
import sys
from fractions import Fraction

import numpy as np

from vlib import core, engine_corr, genfw
from vlib.core import q, unq

PROPERTY = "C05"
LEAN_MODS = ["AtomicaProofs.Properties.C05", "AtomicaProofs.Properties.C05Groups"]
THEOREMS = [
    "Atomica.C05.rows_spec",
    "Atomica.C05.rows_spec_band",
    "Atomica.C05.rows_spec_short",
    "Atomica.C05.rows_cover",
    "Atomica.C05.rows_minimal",
    "Atomica.C05.keyring_closed_form",
    "Atomica.C05.flush_exact",
    "Atomica.C05.flush_initial",
    "Atomica.C05.flush_exact_pure",
    "Atomica.C05.flush_initial_pure",
    "Atomica.C05.no_early_release",
    "Atomica.C05.release_linear",
    "Atomica.C05.rows_within",
    "Atomica.C05.occupancy_bound_init",
    "Atomica.C05.occupancy_bound",
    "Atomica.C05.occupancy_eq",
    "Atomica.C05.short_duration_empties",
    "Atomica.C05.timed_step",
    "Atomica.C05.flush_link_value",
    "Atomica.C05.keyring_refines_engine",
    "Atomica.C05.keyring_refines_engine_pure",
    "Atomica.C05.tlink_keeps_row",
    "Atomica.C05.tlink_row0",
    "Atomica.C05.untimed_restarts",
    "Atomica.C05.flush_is_untimed",
    "Atomica.C05.short_duration_empties_engine",
    "Atomica.C05.group_mismatch_total",
    "Atomica.C05.rows_within_engine",
    "Atomica.C05.run_isRun",
    "Atomica.C05.run_nonneg",
    "Atomica.C05.engine_keyring_traj",
    "Atomica.C05.engine_flush_exact",
    "Atomica.C05.engine_release_exact",
    "Atomica.C05.engine_occupancy_bound",
    "Atomica.C05.engine_occupancy_bound_general",
    "Atomica.C05.arrivalsAll_eq_inAll",
    "Atomica.C05.group_step",
    "Atomica.C05.engine_group_release_exact",
    "Atomica.C05.ClosedGroup.toJ",
    "Atomica.C05.closedGroupJCheck_iff",
    "Atomica.C05.ClosedGroupJ.of_fed",
    "Atomica.C05.group_core",
    "Atomica.C05.groupFlowInv_resolve",
    "Atomica.C05.groupFlowInv_balanceOne",
    "Atomica.C05.group_step_junctions",
    "Atomica.C05.group_member_core",
    "Atomica.C05.group_rows_recorded",
    "Atomica.C05.engine_group_release_exact_junctions",
    "Atomica.C05.exJ_closed",
    "Atomica.C05.exJR_closed",
    "Atomica.C05.raw_rule_fails",
]
TRUSTED = [
    "the row count is compared on the float quotient the implementation forms: D = parameter.vals[0]*timescale*scale_factor and dt are sent to the driver as the exact rationals of those doubles; quotients within 1e-12 of the band edge k+1e-9 are counted as ambiguous",
    "floating-point cancellation in rows/flows (theorems are exact; implementation compared to 1e-11 relative in mode B, 1e-9 in the closed-form and impulse oracles)",
    "survival factors of the keyring request (tkey) are recomputed by the harness from the implementation's parameter values with exact fractions (rate units: min(1, v*dt) removed per step)",
]
ASSUMPTIONS = [
    "duration parameters are finite and constant in time (the implementation asserts this); NaN durations are not modelled",
    "closed-form theorems for single compartments (engine_keyring_traj, engine_flush_exact, engine_release_exact, engine_occupancy_bound) are for timed compartments whose inflow is untimed; duration groups are covered by group_step / engine_group_release_exact (groups closed under direct TimedLinks, no other outflow) and by group_step_junctions / engine_group_release_exact_junctions (closed groups WITH junctions inside: plain junctions, whose stated proportions are normalised, and residual junctions; hypotheses ClosedGroupJ, wfGroupRows, resCheck, proportions on the group's junction links >= 0), by the one-step theorems (timed_step, tlink_keeps_row, group_mismatch_total) and engine_occupancy_bound_general in general; groups with extra outflows out of the group are covered by mode B and the group impulse oracle on the implementation only",
]
RULE = (
    "rows: table k<=60 x 12 step sizes x float formations of D (k*dt, k/12, k/52, k*0.1, (k+0.5)*dt, 0.5*dt, 0) (quick: the hazard cases + a random sample), non-trivial = quotient not an exact integer in binary; "
    "keyring/groups: hand-built small models with random time-varying inflow, pulse step, ordinary outflow (incl. > 1 per step), non-trivial = more than one row; "
    "release/stream: vlib.genfw.random_spec with timed focus (1-2 duration groups of 1-3 compartments, group junctions incl. the rich family gj_rich, closed groups (stay_in_group), durations per population), non-trivial as in engine_corr.run_stream; "
    "groupsj: hand-built closed groups with junctions inside (shapes fan/chain/multi x proportion sums < 1, = 1, > 1, residual, hazard durations, one row) with random inflow/move rates, non-trivial = more than one row and people really passed through a junction of the group; "
    "group_shift_oracle: every duration group of every model above; a group counts (gshift.hyp_held.*) only if the driver evaluates ClosedGroupJ = true and the other hypotheses hold"
)
EXPECTED_BRANCHES = [
    "rows.integer_quotient", "rows.noninteger", "rows.short", "rows.zero", "rows.float_dust_above", "rows.float_dust_below", "rows.junction_link",
    "keyring.pure", "keyring.outflow", "keyring.rescale", "keyring.one_row", "impulse.checked",
    "group.direct", "group.junction", "group.restart",
    "gshift.hyp_held.nojunction", "gshift.hyp_held.junction", "gshift.hyp_held.resjunction", "gshift.moved_through_junction",
    "gshift.junction_sum_lt1", "gshift.junction_sum_eq1", "gshift.junction_sum_gt1", "gshift.junction_outflows_2", "gshift.junction_outflows_3",
    "gshift.chain", "gshift.multi_inflow", "gshift.steps_checked", "groupsj.fan", "groupsj.chain", "groupsj.multi",
    "release.exact", "release.bounded", "release.skipped_timed_inflow",
    "assign.runs", "assign.group_member",
    "has.timed", "has.timedlink", "has.multirow", "has.junction", "has.transfer",
]

TABLE_DTS = [1.0, 0.5, 0.25, 0.2, 0.1, 1 / 12, 1 / 52, 1 / 365, 0.3, 0.7, 0.05, 1 / 24]
HAZARDS = [("k*dt", 3, 0.1), ("k/12", 5, 1 / 12), ("k*dt", 6, 0.1), ("k*dt", 7, 0.1), ("k*dt", 3, 0.7), ("k/52", 7, 1 / 52), ("k*0.1", 3, 0.1), ("k*dt", 12, 0.3)]
ROWS_KEY = {"api": "TimedCompartment.preallocate", "case": "ceil-float"}
DYN_KEY = {"api": "TimedCompartment.preallocate", "case": "duration-varies-in-time"}


# ----------------------------------------------------------------------------------------------------------
# small hand-built specs
# ----------------------------------------------------------------------------------------------------------
def P(name, fmt, val, timed=False, ts=None):
    return {"name": name, "format": fmt, "timescale": ts, "function": None, "min": None, "max": None, "timed": timed, "targetable": False, "databook": True, "value": {"pa": val}}


def C(name, init=None, kind="normal"):
    if kind != "normal":
        return {"name": name, "kind": kind}
    return {"name": name, "kind": "normal", "databook": True, "init": {"pa": float(init or 0.0)}}


def times(start, dt, nsteps):
    return [start + k * dt for k in range(nsteps + 1)]


def series(tv, vals):
    return {"t": list(tv), "v": [float(v) for v in vals], "assumption": None}


def spec_single(D, dt, nsteps, inflow=None, outrate=None, init=30.0, start=2000.0):
    """src --nu0--> t00 --du0(flush)--> k0  [, t00 --ra1--> k1 ]"""
    tv = times(start, dt, nsteps)
    comps = [C("c0", 50.0), C("t00", init), C("k0", kind="sink"), C("k1", kind="sink"), C("src", kind="source")]
    pars = [P("du0", "duration", D, timed=True), P("nu0", "number", series(tv, inflow) if inflow is not None else 0.0), P("ra9", "rate", 0.1)]
    trans = [["t00", "k0", "du0"], ["src", "t00", "nu0"], ["c0", "k1", "ra9"]]
    if outrate is not None:
        pars.append(P("ra1", "rate", series(tv, outrate) if isinstance(outrate, (list, tuple)) else outrate))
        trans.append(["t00", "k1", "ra1"])
    return {"comps": comps, "characs": [], "pars": pars, "transitions": trans, "pops": ["pa"], "transfers": [], "settings": [start, start + nsteps * dt, dt], "regime": "c05"}


def spec_group(D, dt, nsteps, inflow, mode, move=0.4, back=0.0, D2=None, start=2000.0, jprop=1.0):
    """
    mode 'direct'  : t00 --ra1 (TimedLink)--> t01, both flush with du0
    mode 'junction': t00 --ra1--> g0 --pr0--> t01 (g0 in the duration group)
    mode 'restart' : t00 (group du0) --ra1 (ordinary Link)--> t10 (group du1 with duration D2)
    """
    tv = times(start, dt, nsteps)
    comps = [C("c0", 50.0), C("t00", 0.0), C("k0", kind="sink"), C("src", kind="source")]
    pars = [P("du0", "duration", D, timed=True), P("nu0", "number", series(tv, inflow)), P("ra1", "rate", move), P("ra9", "rate", 0.1)]
    trans = [["t00", "k0", "du0"], ["src", "t00", "nu0"], ["c0", "k0", "ra9"]]
    if mode == "restart":
        comps.append(C("t10", 0.0))
        pars.append(P("du1", "duration", D2, timed=True))
        trans += [["t10", "k0", "du1"], ["t00", "t10", "ra1"]]
    else:
        comps.append(C("t01", 0.0))
        trans.append(["t01", "k0", "du0"])
        if mode == "direct":
            trans.append(["t00", "t01", "ra1"])
        elif mode == "resjunction":
            # a junction with a residual ('>') outflow inside the group: 40 % to t01, the remainder to t02 (all three flush with du0)
            comps += [C("g0", kind="junction"), C("t02", 0.0)]
            pars.append(P("pr0", "proportion", 0.4))
            trans += [["t02", "k0", "du0"], ["t00", "g0", "ra1"], ["g0", "t01", "pr0"], ["g0", "t02", ">"]]
        else:
            comps.append(C("g0", kind="junction"))
            pars.append(P("pr0", "proportion", jprop))   # a single stated outflow: whatever weight is entered, the junction passes everything on (weights are normalised)
            trans += [["t00", "g0", "ra1"], ["g0", "t01", "pr0"]]
        if back:
            pars.append(P("ra2", "rate", back))
            trans.append(["t01", "t00", "ra2"])
    return {"comps": comps, "characs": [], "pars": pars, "transitions": trans, "pops": ["pa"], "transfers": [], "settings": [start, start + nsteps * dt, dt], "regime": "c05"}


def spec_rows(Dval, dt, junction=False):
    """c0 --ra0--> t00 --du0--> k0 (optionally a duration-group junction t00 -> g0 -> t01)"""
    comps = [C("c0", 100.0), C("t00", 30.0), C("k0", kind="sink")]
    pars = [P("ra0", "rate", 0.3), P("du0", "duration", Dval, timed=True)]
    trans = [["c0", "t00", "ra0"], ["t00", "k0", "du0"]]
    if junction:
        comps += [C("t01", 0.0), C("g0", kind="junction")]
        pars += [P("ra1", "rate", 0.5), P("pr0", "proportion", 1.0)]
        trans += [["t01", "k0", "du0"], ["t00", "g0", "ra1"], ["g0", "t01", "pr0"]]
    return {"comps": comps, "characs": [], "pars": pars, "transitions": trans, "pops": ["pa"], "transfers": [], "settings": [2000.0, 2000.0 + 2 * dt, dt], "regime": "c05"}


# ----------------------------------------------------------------------------------------------------------
# helpers on built models
# ----------------------------------------------------------------------------------------------------------
def impl_duration(comp):
    """the float `TimedCompartment.preallocate` computes"""
    p = comp.parameter
    return float(p.vals[0] * p.timescale * p.scale_factor)


def spec_rows_of(D, dt):
    """(n_spec, ambiguous) from the driver"""
    n = int(core.drive([f"trows {q(D)} {q(dt)}"])[0])
    x = Fraction(*float(D).as_integer_ratio()) / Fraction(*float(dt).as_integer_ratio())
    edge = abs((x - Fraction(1, 10**9)) - round(x - Fraction(1, 10**9)))
    return n, edge < Fraction(1, 10**12)


def timed_comps(m):
    from atomica import model as M

    return [c for pop in m.pops for c in pop.comps if isinstance(c, M.TimedCompartment)]


def get_comp(m, name, pop=0):
    return next(c for c in m.pops[pop].comps if c.name == name)


def classify_quotient(D, dt):
    x = Fraction(*float(D).as_integer_ratio()) / Fraction(*float(dt).as_integer_ratio())
    k = round(x)
    if x == k:
        return "integer_quotient", k
    if abs(x - k) <= Fraction(1, 10**9):
        return ("float_dust_above" if x > k else "float_dust_below"), k
    return "noninteger", k


# ----------------------------------------------------------------------------------------------------------
# run_rows
# ----------------------------------------------------------------------------------------------------------
def form_D(form, k, dt):
    if form == "k*dt":
        return k * dt
    if form == "k/12":
        return k / 12
    if form == "k/52":
        return k / 52
    if form == "k*0.1":
        return k * 0.1
    if form == "(k+.5)*dt":
        return (k + 0.5) * dt
    if form == "half":
        return 0.5 * dt
    if form == "zero":
        return 0.0
    if form == "k*dt-":
        return math.nextafter(k * dt, 0.0)
    raise ValueError(form)


def rows_cases(ctx):
    cases = list(HAZARDS)
    full = []
    for dt in TABLE_DTS:
        for k in range(1, 61):
            for form in ("k*dt", "k/12", "k/52", "k*0.1", "(k+.5)*dt", "k*dt-"):
                if (form == "k/12" and dt not in (1 / 12, 1 / 24, 0.25, 0.5, 1.0)) or (form == "k/52" and dt not in (1 / 52, 1.0)) or (form == "k*0.1" and dt not in (0.1, 0.05, 0.2, 0.5, 1.0)):
                    continue
                if (form in ("k*dt", "k*dt-")) and k * dt > 60:
                    continue
                full.append((form, k, dt))
        full += [("half", 0, dt), ("zero", 0, dt)]
    if ctx.quick:
        r = ctx.rng
        cases += r.sample(full, 200) + [("half", 0, 0.1), ("zero", 0, 0.25)]
    else:
        cases += full
    return cases


def spec_rows_many(pairs):
    """[(D, dt)] -> [(n_spec, ambiguous)] with one driver call"""
    reps = core.drive([f"trows {q(D)} {q(dt)}" for D, dt in pairs])
    out = []
    for (D, dt), rep in zip(pairs, reps):
        x = Fraction(*float(D).as_integer_ratio()) / Fraction(*float(dt).as_integer_ratio())
        edge = abs((x - Fraction(1, 10**9)) - round(x - Fraction(1, 10**9)))
        out.append((int(rep), edge < Fraction(1, 10**12)))
    return out


def run_rows(ctx):
    import atomica as at
    from atomica import model as M
    from atomica.model import Model

    cases = rows_cases(ctx)
    fw, data, parset, _ = genfw.build(spec_rows(1.0, 1.0))
    fwj, dataj, parsetj, _ = genfw.build(spec_rows(1.0, 1.0, junction=True))
    built = []
    for i, (form, k, dt) in enumerate(cases):
        Dval = form_D(form, k, dt)
        use_j = (i % 7 == 3)
        ps, f = (parsetj, fwj) if use_j else (parset, fw)
        ts = ps.pars["du0"].ts["pa"]
        ts.t, ts.vals, ts.assumption = [], [], float(Dval)
        settings = at.ProjectSettings(sim_start=2000.0, sim_end=2000.0 + 2 * dt, sim_dt=dt)
        key = {"form": form, "k": k, "dt": dt, "junction": use_j}
        replay = {"how": "rows", "form": form, "k": k, "dt": dt, "junction": use_j,
                  "script": f"import sys; sys.path.insert(0,'harness'); from props import c05; print(c05.rows_of_model({form!r},{k},{dt!r},{use_j}))"}
        try:
            m = Model(settings, f, ps)
        except Exception as e:
            ctx.violation({"api": "TimedCompartment.preallocate", "case": "raises"}, f"building a model with duration {Dval!r} (={form}, k={k}), dt={dt!r} raised {type(e).__name__}: {str(e)[:120]}", replay)
            continue
        tcs = timed_comps(m)
        jl = [(l.name, l._vals.shape[0]) for pop in m.pops for l in pop.links if isinstance(l, M.TimedLink) and isinstance(l.source, M.JunctionCompartment)]
        built.append((key, replay, impl_duration(tcs[0]), float(m.dt), [(c.name, c._vals.shape[0]) for c in tcs], jl))
    specs = spec_rows_many([(b[2], b[3]) for b in built])
    n_bad = 0
    for (key, replay, D, dtm, rows, jl), (n_spec, amb) in zip(built, specs):
        form, k = key["form"], key["k"]
        cls, kk = classify_quotient(D, dtm)
        if D == 0:
            cls = "zero"
        elif D < dtm:
            cls = "short"
        ctx.count("rows." + cls)
        ctx.case(key, nontrivial=cls not in ("integer_quotient", "zero"), sample={**key, "D": D, "n_spec": n_spec})
        if amb:
            ctx.ambiguous += 1
            continue
        for cname, n_impl in rows:
            if n_impl != n_spec:
                n_bad += 1
                kind = dict(ROWS_KEY) if cls.startswith("float_dust") else {"api": "TimedCompartment.preallocate", "case": cls}
                why = f"is {kk} steps up to rounding error" if cls.startswith("float_dust") else f"needs {n_spec} steps"
                ctx.violation(kind, f"TimedCompartment {cname}: duration {D!r} (formed as {form}, k={k}) with dt={dtm!r}: D/dt = {D / dtm!r} {why} "
                              f"but {n_impl} rows were allocated (specification max(1, ceil(D/dt - 1e-9)) = {n_spec}): a cohort stays {n_impl} steps instead of {n_spec}", replay)
                break
        for lname, L in jl:
            ctx.count("rows.junction_link")
            # D15: no max(1, .) here; 0 rows instead of 1 is harmless (a one-row source gives a timed link nothing), anything else must agree
            if L != n_spec and not (n_spec == 1 and L == 0):
                kind = dict(ROWS_KEY, api="TimedLink.preallocate") if cls.startswith("float_dust") else {"api": "TimedLink.preallocate", "case": cls}
                ctx.violation(kind, f"junction-sourced TimedLink {lname}: {L} rows allocated for duration {D!r}, dt={dtm!r}; specification {n_spec}", replay)
            elif L == 0:
                ctx.count("rows.junction_link_zero_rows")
    ctx.extra["rows_cases"] = len(cases)
    ctx.extra["rows_mismatches"] = n_bad
    ctx.exhaustive = not ctx.quick


def rows_of_model(form, k, dt, junction=False):
    """replay helper: (D, dt, rows allocated, rows specified)"""
    from atomica import model as M

    fw, data, parset, settings = genfw.build(spec_rows(form_D(form, k, dt), dt, junction=junction))
    m = M.Model(settings, fw, parset)  # built (rows are allocated), not processed: a row mismatch may make `process` raise
    tcs = timed_comps(m)
    D = impl_duration(tcs[0])
    jl = [l._vals.shape[0] for pop in m.pops for l in pop.links if isinstance(l, M.TimedLink) and isinstance(l.source, M.JunctionCompartment)]
    info = {"D": D, "dt": m.dt, "D/dt": D / m.dt, "rows_allocated": [c._vals.shape[0] for c in tcs], "junction_link_rows": jl, "rows_specified": spec_rows_of(D, m.dt)[0]}
    try:
        m.process()
    except Exception as e:
        info["process_raises"] = f"{type(e).__name__}: {str(e)[:100]}"
    return info


# ----------------------------------------------------------------------------------------------------------
# run_keyring: one timed compartment = the abstract keyring; impulse response
# ----------------------------------------------------------------------------------------------------------
def link_vals(m, src, dst, pop=0):
    return np.asarray(next(l for l in m.pops[pop].links if l.source.name == src and l.dest.name == dst).vals, dtype=float)


def removed_fraction(v, dt):
    """exact fraction of every row removed per step by a 'rate' link with value v (timescale 1), after rescaling"""
    v = Fraction(*float(v).as_integer_ratio())
    if v <= 0:
        return Fraction(0)
    f = v * Fraction(*float(dt).as_integer_ratio())
    return min(f, Fraction(1)) if f > 1 else f


def keyring_case(r, regime):
    dt = r.choice([1.0, 0.5, 0.25, 0.2, 0.1, 1 / 12, 0.3, 0.7])
    k = r.choice([1, 1, 2, 3, 3, 4, 5, 7])
    Dform = r.choice(["k*dt", "k*dt", "(k+.5)*dt", "half", "k/12" if dt == 1 / 12 else "k*dt"])
    D = form_D(Dform, k, dt)
    nsteps = r.randint(k + 3, 2 * k + 8)
    inflow = [r.choice([0.0, 0.0, 10.0, round(r.random() * 200, 2), 1000.0]) for _ in range(nsteps + 1)]
    if regime == "pure":
        outrate = None
    elif regime == "outflow":
        outrate = [round(r.random() * 0.6 / dt, 3) if r.random() < 0.8 else 0.0 for _ in range(nsteps + 1)]
    else:  # rescale: requested fraction > 1 on some steps
        outrate = [r.choice([0.5 / dt, 1.0 / dt, 2.5 / dt, 0.0, 40.0]) for _ in range(nsteps + 1)]
    init = r.choice([0.0, 30.0, 120.0])
    return {"D": D, "Dform": Dform, "k": k, "dt": dt, "nsteps": nsteps, "inflow": inflow, "outrate": outrate, "init": init}


def check_keyring(ctx, case, regime):
    """returns True if everything agreed"""
    spec = spec_single(case["D"], case["dt"], case["nsteps"], inflow=case["inflow"], outrate=case["outrate"], init=case["init"])
    m = genfw.run(spec)
    t00 = get_comp(m, "t00")
    D = impl_duration(t00)
    n_spec, amb = spec_rows_of(D, m.dt)
    if amb:
        ctx.ambiguous += 1
        return True
    n_impl = t00._vals.shape[0]
    T = len(m.t)
    a = link_vals(m, "src", "t00")
    flush = link_vals(m, "t00", "k0")
    key = {"oracle": "keyring", "regime": regime, "n": n_spec, "dt": case["dt"], "Dform": case["Dform"], "T": T}
    replay = {"how": "keyring", "case": case, "regime": regime}
    ctx.case(key, nontrivial=n_spec > 1, sample={"n": n_spec, "dt": case["dt"], "T": T, "regime": regime})
    ctx.count("keyring." + regime)
    if n_spec == 1:
        ctx.count("keyring.one_row")
    # hypotheses of engine_keyring_traj: initial rows >= 0, only untimed inflow
    ctx.hyp_checked += 1
    if (t00._vals[:, 0] >= 0).all() and not any(type(l).__name__ == "TimedLink" for l in t00.inlinks):
        ctx.hyp_held += 1
    # survival factors
    if case["outrate"] is None:
        rem = [Fraction(0)] * T
    else:
        pv = np.asarray(next(p for p in m.pops[0].pars if p.name == "ra1").vals, dtype=float)
        rem = [removed_fraction(pv[t], m.dt) for t in range(T)]
    I = Fraction(*float(t00._vals[:, 0].sum()).as_integer_ratio())
    init = [I / n_spec] * n_spec
    sig = []
    for t in range(T):
        sig += [1 - rem[t]] * n_spec
    req = f"tkey {n_spec} {T} " + " ".join(q(v) for v in init) + " " + " ".join(q(float(v)) for v in a) + " " + " ".join(q(v) for v in sig)
    rep = core.drive([req])[0]
    fpart, rpart = rep.split("|")
    mflush = [unq(s) for s in fpart.split()]
    scale = max(1.0, float(I), float(np.max(np.abs(a))))
    ok = True
    if n_impl != n_spec:
        ok = False
        kcls, _ = classify_quotient(D, m.dt)
        vkey = dict(ROWS_KEY) if kcls.startswith("float_dust") else {"api": "TimedCompartment.preallocate", "case": kcls}
        # behavioural consequence: find the first step where the timed outflow differs from the closed form
        first = next((t for t in range(T) if not core.close(mflush[t], flush[t], scale=scale, rtol=1e-9)), None)
        ctx.violation(vkey, f"timed compartment with duration {D!r}, dt={m.dt!r} ({n_spec} steps up to rounding error) has {n_impl} rows; "
                      f"the cohort entering at step s leaves at step s+{n_impl} instead of s+{n_spec}" + (f" (flush link at index {first}: {flush[first]!r}, closed form {float(mflush[first])!r})" if first is not None else ""), replay)
        return ok
    for t in range(T):
        if not core.close(mflush[t], flush[t], scale=scale, rtol=1e-9):
            ok = False
            ctx.violation({"api": "TimedCompartment.resolve_outflows", "oracle": "flush-closed-form"},
                          f"flush link at index {t}: {flush[t]!r} but closed form a[t-n]*prod(sigma) (n={n_spec}) gives {float(mflush[t])!r}", replay)
            break
    # rows at the last step
    mrows = [unq(s) for s in rpart.split()]
    # tkey returns the state after T steps; the implementation has states 0..T-1, so compare through a second request of T-1 steps
    req2 = f"tkey {n_spec} {T - 1} " + " ".join(q(v) for v in init) + " " + " ".join(q(float(v)) for v in a[: T - 1]) + " " + " ".join(q(v) for v in sig[: (T - 1) * n_spec])
    mrows = [unq(s) for s in core.drive([req2])[0].split("|")[1].split()]
    for rr in range(n_spec):
        if not core.close(mrows[rr], float(t00._vals[rr, T - 1]), scale=scale, rtol=1e-9):
            ok = False
            ctx.violation({"api": "TimedCompartment.update", "oracle": "rows-closed-form"}, f"row {rr} at the last step: {t00._vals[rr, T - 1]!r} but closed form gives {float(mrows[rr])!r}", replay)
            break
    ctx.traces += 1
    return ok


def check_impulse(ctx, case, regime, r):
    """impulse response on the implementation only"""
    T = case["nsteps"] + 1
    s = r.randint(0, max(0, T - 3))
    pulse = r.choice([1.0, 1.0, 250.0])
    spec0 = spec_single(case["D"], case["dt"], case["nsteps"], inflow=case["inflow"], outrate=case["outrate"], init=case["init"])
    infl1 = list(case["inflow"])
    infl1[s] = infl1[s] + pulse / case["dt"]  # number per year -> `pulse` people in step s
    spec1 = spec_single(case["D"], case["dt"], case["nsteps"], inflow=infl1, outrate=case["outrate"], init=case["init"])
    m0, m1 = genfw.run(spec0), genfw.run(spec1)
    t00 = get_comp(m0, "t00")
    D = impl_duration(t00)
    n_spec, amb = spec_rows_of(D, m0.dt)
    if amb:
        return
    da = link_vals(m1, "src", "t00") - link_vals(m0, "src", "t00")
    P_ = da[s]
    df = link_vals(m1, "t00", "k0") - link_vals(m0, "t00", "k0")
    scale = max(1.0, abs(P_), float(np.max(np.abs(link_vals(m1, "t00", "k0")))))
    ctx.count("impulse.checked")
    replay = {"how": "impulse", "case": case, "regime": regime, "s": s, "pulse": pulse}
    ctx.case({"oracle": "impulse", "n": n_spec, "s": s, "regime": regime, "dt": case["dt"]}, nontrivial=n_spec > 1 and s + n_spec < T - 1)
    # expected survival
    if case["outrate"] is None:
        surv = 1.0
    else:
        pv = np.asarray(next(p for p in m0.pops[0].pars if p.name == "ra1").vals, dtype=float)
        surv = 1.0
        for j in range(1, n_spec + 1):
            if s + j < T:
                surv *= float(1 - removed_fraction(pv[s + j], m0.dt))
    n_impl = t00._vals.shape[0]
    for t in range(T):
        expect = P_ * surv if t == s + n_spec else 0.0
        if abs(df[t] - expect) > 1e-9 * scale:
            kcls, _ = classify_quotient(D, m0.dt)
            if n_impl != n_spec:
                vkey = dict(ROWS_KEY) if kcls.startswith("float_dust") else {"api": "TimedCompartment.preallocate", "case": kcls}
            else:
                vkey = {"api": "TimedCompartment.update", "oracle": "impulse", "when": "early" if t < s + n_spec else ("at" if t == s + n_spec else "late")}
            ctx.violation(vkey, f"unit pulse of {P_!r} people entering at step {s} (duration {D!r}, dt={m0.dt!r}, n={n_spec}, rows allocated {n_impl}): flush-link difference at step {t} is {df[t]!r}, expected {expect!r} "
                          f"(the pulse must leave at step s+n={s + n_spec} and at no other step)", replay)
            return


def run_keyring(ctx, n):
    r = ctx.rng
    for i in range(n):
        regime = ["pure", "outflow", "rescale"][i % 3]
        rr = _random.Random(r.randrange(1 << 30))
        case = keyring_case(rr, regime)
        if i < 2:  # the known hazard: D = 3*0.1, dt = 0.1 and 5/12, 1/12
            case.update({"D": [3 * 0.1, 5 / 12][i], "Dform": ["k*dt", "k/12"][i], "k": [3, 5][i], "dt": [0.1, 1 / 12][i]})
            case["nsteps"] = 14
            case["inflow"] = (case["inflow"] * 3)[:15]
            if case["outrate"] is not None:
                case["outrate"] = (case["outrate"] * 3)[:15]
        if check_keyring(ctx, case, regime):
            if i % 2 == 0 or not ctx.quick:
                check_impulse(ctx, case, regime, rr)


# ----------------------------------------------------------------------------------------------------------
# run_groups: duration groups keep the elapsed time; other moves restart it
# ----------------------------------------------------------------------------------------------------------
def check_group(ctx, case):
    mode = case["mode"]
    T = case["nsteps"] + 1
    s, pulse = case["s"], case["pulse"]
    infl1 = list(case["inflow"])
    infl1[s] = infl1[s] + pulse / case["dt"]
    kw = dict(mode=mode, move=case["move"], back=case.get("back", 0.0), D2=case.get("D2"), jprop=case.get("jprop", 1.0))
    try:
        m0 = genfw.run(spec_group(case["D"], case["dt"], case["nsteps"], case["inflow"], **kw))
        m1 = genfw.run(spec_group(case["D"], case["dt"], case["nsteps"], infl1, **kw))
    except Exception as e:  # a hand-built duration group is inside the property's quantifier: it must build and run
        cause = repr(e.__cause__)[:160] if e.__cause__ is not None else ""
        ctx.case({"oracle": "group-impulse", "mode": mode, "dt": case["dt"], "D": case["D"], "raises": True}, nontrivial=True)
        ctx.violation({"api": "Model.process", "oracle": "group-impulse", "mode": mode, "when": "raises"},
                      f"duration group (mode {mode}, duration {case['D']!r}, dt={case['dt']!r}): the model cannot be built/run: {type(e).__name__}: {str(e)[:120]} {cause}", {"how": "group", "case": case})
        return
    t00 = get_comp(m0, "t00")
    D = impl_duration(t00)
    n, amb = spec_rows_of(D, m0.dt)
    if amb:
        return
    n_impl = t00._vals.shape[0]
    ctx.count("group." + mode)
    replay = {"how": "group", "case": case}
    P_ = (link_vals(m1, "src", "t00") - link_vals(m0, "src", "t00"))[s]
    ctx.case({"oracle": "group-impulse", "mode": mode, "n": n, "s": s, "dt": case["dt"], "move": case["move"]}, nontrivial=n > 1)
    apply_group_shift(ctx, m1, genfw.extract_net(m1), replay, label=f"hand-built group ({mode})")
    if n_impl != n:
        kcls, _ = classify_quotient(D, m0.dt)
        ctx.violation(dict(ROWS_KEY) if kcls.startswith("float_dust") else {"api": "TimedCompartment.preallocate", "case": kcls},
                      f"duration group with duration {D!r}, dt={m0.dt!r}: {n_impl} rows allocated, specification {n}", replay)
        return
    if mode in ("direct", "junction", "resjunction"):
        out0 = link_vals(m0, "t00", "k0") + link_vals(m0, "t01", "k0")
        out1 = link_vals(m1, "t00", "k0") + link_vals(m1, "t01", "k0")
        if mode == "resjunction":
            out0 = out0 + link_vals(m0, "t02", "k0")
            out1 = out1 + link_vals(m1, "t02", "k0")
        df = out1 - out0
        scale = max(1.0, abs(P_), float(np.max(np.abs(out1))))
        for t in range(T):
            expect = P_ if t == s + n else 0.0
            if abs(df[t] - expect) > 1e-9 * scale:
                ctx.violation({"api": "TimedCompartment.update", "oracle": "group-impulse", "mode": mode, "when": "early" if t < s + n else ("at" if t == s + n else "late")},
                              f"duration group (compartments linked {'by a TimedLink' if mode == 'direct' else ('through a duration-group junction with a residual outflow' if mode == 'resjunction' else 'through a duration-group junction')}, n={n}): pulse of {P_!r} entering at step {s}; "
                              f"difference of the group's timed outflow at step {t} is {df[t]!r}, expected {expect!r} (moves inside the group must keep the elapsed time)", replay)
                return
        # the move really happened (otherwise the oracle is vacuous)
        if n > 1 and s + 2 < T - 1:
            moved = link_vals(m1, "t00", "g0" if mode in ("junction", "resjunction") else "t01") - link_vals(m0, "t00", "g0" if mode in ("junction", "resjunction") else "t01")
            if np.max(np.abs(moved)) > 0:
                ctx.count("group.moved_nonzero")
    else:
        t10 = get_comp(m0, "t10")
        n2, amb2 = spec_rows_of(impl_duration(t10), m0.dt)
        if amb2 or t10._vals.shape[0] != n2:
            return
        for mm in (m0, m1):
            inflow10 = link_vals(mm, "t00", "t10")
            flush10 = link_vals(mm, "t10", "k0")
            scale = max(1.0, float(np.max(np.abs(inflow10))))
            for t in range(n2, T):
                if abs(flush10[t] - inflow10[t - n2]) > 1e-9 * scale:
                    ctx.violation({"api": "TimedCompartment.update", "oracle": "restart"},
                                  f"people moved from group du0 into compartment t10 of another group (n={n2}) at step {t - n2}: {inflow10[t - n2]!r}; its timed outflow at step {t} is {flush10[t]!r} "
                                  f"(a move to another group must restart the clock: they leave exactly {n2} steps later)", replay)
                    return


def run_groups(ctx, n):
    r = ctx.rng
    for i in range(n):
        rr = _random.Random(r.randrange(1 << 30))
        mode = ["direct", "junction", "restart", "resjunction"][i % 4]
        dt = rr.choice([1.0, 0.5, 0.25, 0.2, 0.1, 1 / 12, 0.3])
        k = rr.choice([2, 3, 3, 4, 5, 6])
        D = rr.choice([k * dt, (k - 0.5) * dt, k * dt])
        nsteps = rr.randint(k + 4, 2 * k + 8)
        case = {"mode": mode, "D": D, "dt": dt, "nsteps": nsteps, "inflow": [rr.choice([0.0, 10.0, round(rr.random() * 100, 2)]) for _ in range(nsteps + 1)],
                "s": rr.randint(0, 3), "pulse": rr.choice([1.0, 100.0]), "move": rr.choice([0.2 / dt, 0.5 / dt, 0.9 / dt, 1.0 / dt, 3.0 / dt]), "back": rr.choice([0.0, 0.0, 0.3 / dt]),
                "D2": rr.choice([2, 3, 5]) * dt, "jprop": [0.5, 1.0, 0.8, 2.0][(i // 4) % 4]}
        check_group(ctx, case)


# ----------------------------------------------------------------------------------------------------------
# group_shift_oracle: closed duration groups WITH JUNCTIONS INSIDE keep everybody's elapsed time
# (theorems group_step_junctions / engine_group_release_exact_junctions of C05Groups.lean, on the implementation's arrays)
# ----------------------------------------------------------------------------------------------------------
def duration_groups(net):
    """candidate groups: connected components of {timed compartments, duration-group junctions} joined by TimedLinks -> [(G, J)]"""
    kinds = net["kinds"]
    nC = len(kinds)
    node = [kinds[c] == "t" or (kinds[c] in "jr" and bool(net["jgroup"][c])) for c in range(nC)]
    parent = list(range(nC))

    def find(a):
        while parent[a] != a:
            parent[a] = parent[parent[a]]
            a = parent[a]
        return a

    for l in range(len(net["links"])):
        a, b = net["src"][l], net["dst"][l]
        if net["tlink"][l] and node[a] and node[b]:
            parent[find(a)] = find(b)
    groups = {}
    for c in range(nC):
        if node[c]:
            groups.setdefault(find(c), []).append(c)
    out = []
    for _, cs in sorted(groups.items()):
        G = [c for c in cs if kinds[c] == "t"]
        J = [c for c in cs if kinds[c] in "jr"]
        if G:
            out.append((G, J))
    return out


def closed_py(net, G, J):
    """the clauses of `ClosedGroupJ` evaluated in Python (cross-check of the driver's `egroupj`, and the reason when it fails) -> (n, reason|None)"""
    Gs, Js = set(G), set(J)
    rows = sorted({net["nrows"][c] for c in G})
    n = net["nrows"][G[0]]
    if len(rows) != 1:
        return n, "rows_differ"
    for l in range(len(net["links"])):
        a, b = net["src"][l], net["dst"][l]
        inside = b in Gs or b in Js
        if a in Js:
            if net["lrows"][l] != n:
                return n, "junction_link_rows"
            if not inside:
                return n, "junction_feeds_outside"
        if a in Gs and not net["isflush"][l] and not (net["tlink"][l] and inside):
            return n, "member_outflow_leaves_group"
        if b in Gs and net["tlink"][l] and not (a in Gs or a in Js):
            return n, "timed_inflow_from_outside"
        if b in Js and not (a in Gs or a in Js):
            return n, "junction_fed_from_outside"
    return n, None


def group_shift_oracle(m, net, rtol=1e-9):
    """
    For every duration group of `m` that satisfies the hypotheses of `group_step_junctions` (closedness evaluated by the Lean
    driver), at every step, on the implementation's own arrays:
        rows      sum_members row r (t+1) = sum_members row r+1 (t)            (r + 1 < n)
        last-row  sum_members last row (t+1) = sum_members max(0, untimed inflow (t))
        flush     sum of the members' flush links (t) = sum_members row 0 (t)
        release   group flush (t) = group untimed inflow (t-n)  (t >= n),  = initial group row t  (t < n)
        junction-row / member-row  (`group_rows_recorded`) the same through the per-row values the links record (TimedLink._vals):
                  each junction of the group passes every row on unchanged; member row r (t+1) = row r+1 (t) - out-links row r+1 + timed in-links row r+1
    Returns ([(key, what)], stats Counter).  `stats["gshift.check_mismatch"]` > 0 means the Python and the Lean evaluation of the
    closedness hypothesis differ (a correspondence break, not a property violation).
    """
    stats = collections.Counter()
    out = []
    comps, links, kinds = net["comps"], net["links"], net["kinds"]
    nL, T = len(links), len(m.t)
    cands = duration_groups(net)
    if not cands:
        return out, stats
    nt = genfw.net_tokens(net)
    nC = len(kinds)
    checks = [(G, J) + closed_py(net, G, J) for G, J in cands]

    def bits(xs):
        xs = set(xs)
        return " ".join("1" if c in xs else "0" for c in range(nC))

    reps = core.drive(["ewf " + nt] + [f"egroupj {nt} {n} {bits(G)} {bits(J)}" for (G, J, n, why) in checks])
    wf = reps[0] == "true"
    x0_nonneg = all(v >= 0 for c, rows in enumerate(genfw.snapshot_stock(m, 0)) if kinds[c] != "k" for v in rows)
    rec = [np.asarray(l.vals, dtype=float) for l in links]
    for (G, J, n, why), rep in zip(checks, reps[1:]):
        stats["gshift.groups"] += 1
        if rep not in ("true", "false") or (rep == "true") != (why is None):
            stats["gshift.check_mismatch"] += 1
            continue
        if why is not None:
            stats["gshift.hyp_failed." + why] += 1
            continue
        Gs, Js = set(G), set(J)
        jout = [l for l in range(nL) if net["src"][l] in Js]
        props = {l: np.asarray(links[l].parameter.vals, dtype=float) for l in jout if links[l].parameter is not None}
        if not wf:
            stats["gshift.hyp_failed.wf"] += 1
            continue
        if not x0_nonneg or not (m.dt > 0):
            stats["gshift.hyp_failed.initial_stock_negative"] += 1
            continue
        R = sum(np.asarray(comps[c]._vals, dtype=float) for c in G)  # n x T: people of the group by row
        inc = [l for l in range(nL) if net["src"][l] in Gs or net["src"][l] in Js or net["dst"][l] in Gs]
        if not (np.isfinite(R).all() and all(np.isfinite(rec[l]).all() for l in inc) and all(np.isfinite(v).all() for v in props.values())):
            stats["gshift.skipped_nonfinite"] += 1  # a step of the model is undefined there (plain junction, proportions sum to 0, people flow in)
            continue
        if any((v < 0).any() for v in props.values()):
            stats["gshift.hyp_failed.negative_proportion"] += 1
            continue
        res = any(kinds[j] == "r" for j in J)
        cat = "resjunction" if res else ("junction" if J else "nojunction")
        stats["gshift.hyp_held." + cat] += 1
        stats["gshift.hyp_held"] += 1
        # what the held groups look like (evidence that the quantifier of the property is reached)
        for j in J:
            outs = [l for l in jout if net["src"][l] == j]
            ins = [l for l in range(nL) if net["dst"][l] == j]
            stats[f"gshift.junction_outflows_{min(len(outs), 4)}"] += 1
            if len(ins) >= 2:
                stats["gshift.multi_inflow"] += 1
            if any(net["dst"][l] in Js for l in outs):
                stats["gshift.chain"] += 1
            ps = sum((props[l] for l in outs if l in props), np.zeros(T))
            through = sum((rec[l] for l in ins), np.zeros(T))
            if (through > 0).any():
                stats["gshift.moved_through_junction"] += 1
            for nm, cond in (("lt1", ps < 1), ("eq1", ps == 1), ("gt1", ps > 1)):
                if (cond & (through > 0)).any():
                    stats["gshift.junction_sum_" + nm + ("_residual" if kinds[j] == "r" else "")] += 1
        unt = np.zeros(T)
        for c in G:
            u = sum((rec[l] for l in range(nL) if net["dst"][l] == c and not net["tlink"][l]), np.zeros(T))
            unt += np.maximum(u, 0.0)
        flush = sum((rec[l] for l in range(nL) if net["src"][l] in Gs and net["isflush"][l]), np.zeros(T))
        tolv = rtol * np.maximum(1.0, np.abs(R).sum(axis=0) + np.abs(unt))  # per time index
        names = ",".join(str(comps[c].name) for c in G) + ((" + junctions " + ",".join(str(comps[c].name) for c in J)) if J else "")
        pop = str(comps[G[0]].pop.name)
        key = {"oracle": "group-shift", "junctions": cat}
        stats["gshift.steps_checked"] += T - 1
        found = None
        if n > 1 and T > 1:
            d = R[:-1, 1:] - R[1:, :-1]
            bad = np.abs(d) > np.maximum(tolv[:-1], tolv[1:])[None, :]
            if bad.any():
                t = int(np.argmax(bad.any(axis=0)))
                r = int(np.argmax(bad[:, t]))
                found = ("rows", f"step {t}->{t + 1}: group row {r} after the step holds {R[r, t + 1]!r} but group row {r + 1} before it held {R[r + 1, t]!r} "
                                 f"(diff {d[r, t]:.3e}): moves inside the group, directly or through its junctions, must keep everybody's elapsed time")
        if found is None and T > 1:
            d = R[n - 1, 1:] - unt[:-1]
            bad = np.abs(d) > np.maximum(tolv[:-1], tolv[1:])
            if bad.any():
                t = int(np.argmax(bad))
                found = ("last-row", f"step {t}->{t + 1}: the last row of the group holds {R[n - 1, t + 1]!r} but the untimed inflow of its members at index {t} was {unt[t]!r} (diff {d[t]:.3e})")
        if found is None:
            d = flush - R[0, :]
            bad = np.abs(d) > tolv
            if bad.any():
                t = int(np.argmax(bad))
                found = ("flush", f"index {t}: the flush links of the group carry {flush[t]!r} but row 0 of the group holds {R[0, t]!r} (diff {d[t]:.3e})")
        if found is None:
            for t in range(T):
                expect = unt[t - n] if t >= n else R[t, 0] if t < R.shape[0] else 0.0
                if abs(flush[t] - expect) > max(tolv[t], tolv[max(0, t - n)]):
                    found = ("release", f"index {t}: the group's timed outflow is {flush[t]!r} but the cohort that " + (f"entered the group at index {t - n} is {expect!r}" if t >= n else f"initially sat in group row {t} is {expect!r}"))
                    break
        if found is None:
            # group_rows_recorded: the same step seen through the per-row values the links record (TimedLink._vals)
            lv = {l: np.asarray(links[l]._vals, dtype=float) for l in range(nL) if net["tlink"][l] and (net["src"][l] in Gs or net["src"][l] in Js)}
            if all(v.shape[0] == n for v in lv.values()):
                for j in J:
                    vin = sum((lv[l] for l in lv if net["dst"][l] == j), np.zeros((n, T)))
                    vout = sum((lv[l] for l in lv if net["src"][l] == j), np.zeros((n, T)))
                    bad = np.abs(vin - vout) > tolv[None, :]
                    if bad.any():
                        t = int(np.argmax(bad.any(axis=0)))
                        r = int(np.argmax(bad[:, t]))
                        found = ("junction-row", f"index {t}: junction {comps[j].name} of the group receives {vin[r, t]!r} in row {r} but its out-links record {vout[r, t]!r} in that row")
                        break
            if found is None and n > 1 and T > 1 and all(v.shape[0] == n for v in lv.values()):
                for c in G:
                    X = np.asarray(comps[c]._vals, dtype=float)
                    vin = sum((lv[l] for l in lv if net["dst"][l] == c), np.zeros((n, T)))
                    vout = sum((lv[l] for l in lv if net["src"][l] == c), np.zeros((n, T)))
                    d = X[:-1, 1:] - (X[1:, :-1] - vout[1:, :-1] + vin[1:, :-1])
                    bad = np.abs(d) > np.maximum(tolv[:-1], tolv[1:])[None, :]
                    if bad.any():
                        t = int(np.argmax(bad.any(axis=0)))
                        r = int(np.argmax(bad[:, t]))
                        found = ("member-row", f"step {t}->{t + 1}: row {r} of member {comps[c].name} holds {X[r, t + 1]!r} but its row {r + 1} held {X[r + 1, t]!r}, its out-links record {vout[r + 1, t]!r} "
                                               f"taken from that row and the timed links into it record {vin[r + 1, t]!r} delivered to that row (diff {d[r, t]:.3e})")
                        break
        if found is not None:
            out.append((dict(key, part=found[0]), f"closed duration group [{names}] of population {pop} (n={n} rows, hypotheses of group_step_junctions hold): " + found[1]))
    return out, stats


def apply_group_shift(ctx, m, net, replay, label=None):
    """run the oracle on one model outside the stream; records counters, hypotheses, violations; returns the stats"""
    viol, stats = group_shift_oracle(m, net)
    _record_gshift(ctx, stats)
    for key, what in viol:
        ctx.violation({"api": "Model.process", **key}, (f"{label}: " if label else "") + what, replay)
    return viol, stats


def _record_gshift(ctx, stats):
    for k, v in stats.items():
        ctx.count(k, v)
    ctx.hyp_checked += stats.get("gshift.groups", 0)
    ctx.hyp_held += stats.get("gshift.hyp_held", 0)
    if stats.get("gshift.check_mismatch"):
        ctx.brk("correspondence", "closedness hypothesis of a duration group: the Python evaluation and the driver's closedGroupJCheck (egroupj) differ", stage="wf")


def install_oracles(ctx):
    """`engine_corr._run_stream` calls `engine_corr.oracles(m, net)`: add the group-shift oracle, bound to this (sub-)context's counters,
    so that every model of the stream is checked and a mode-B break of stage balance-timed / update-timed comes with a concrete violation"""
    base = getattr(engine_corr, "_c05_base_oracles", None) or engine_corr.oracles
    engine_corr._c05_base_oracles = base

    def oracles_plus(m, net):
        out, illposed = base(m, net)
        viol, stats = group_shift_oracle(m, net)
        _record_gshift(ctx, stats)
        return out + [(PROPERTY, key, what) for key, what in viol], illposed

    engine_corr.oracles = oracles_plus


# ----------------------------------------------------------------------------------------------------------
# run_groupsj: hand-built closed groups with junctions inside
# ----------------------------------------------------------------------------------------------------------
def spec_groupj(D, dt, nsteps, inflow, shape, props, moves, residual=False, back=0.0, start=2000.0):
    """
    src --nu0--> t00;  members t00, t01, t02 of the duration group du0 (all flush into k0);  junctions inside the group:
      'fan'   : t00 --ra1--> g0 --> t01: props[0], t02: props[1] [, t00: props[2]]
      'chain' : t00 --ra1--> g0 --> g1: props[0], t01: props[1];   g1 --> t01: props[2], t02: props[3]
      'multi' : t00 --ra1--> g0 <--ra2-- t01;   g0 --> t02: props[0], t00: props[1]
    residual: the LAST outflow of the last junction is the residual link '>' (its entry in `props` is ignored)
    back: rate of a direct TimedLink t02 --ra3--> t00
    """
    tv = times(start, dt, nsteps)
    comps = [C("c0", 50.0), C("t00", 0.0), C("t01", 0.0), C("t02", 0.0), C("k0", kind="sink"), C("src", kind="source"), C("g0", kind="junction")]
    pars = [P("du0", "duration", D, timed=True), P("nu0", "number", series(tv, inflow)), P("ra1", "rate", moves[0]), P("ra9", "rate", 0.1)]
    trans = [["t00", "k0", "du0"], ["t01", "k0", "du0"], ["t02", "k0", "du0"], ["src", "t00", "nu0"], ["c0", "k0", "ra9"], ["t00", "g0", "ra1"]]
    if shape == "fan":
        outs = [("g0", d) for d in ["t01", "t02", "t00"][: len(props)]]
    elif shape == "chain":
        comps.append(C("g1", kind="junction"))
        outs = [("g0", "g1"), ("g0", "t01"), ("g1", "t01"), ("g1", "t02")]
    elif shape == "multi":
        pars.append(P("ra2", "rate", moves[1]))
        trans.append(["t01", "g0", "ra2"])
        outs = [("g0", "t02"), ("g0", "t00")]
    else:
        raise ValueError(shape)
    for k, (j, d) in enumerate(outs):
        if residual and k == len(outs) - 1:
            trans.append([j, d, ">"])
        else:
            pars.append(P(f"pr{k}", "proportion", props[k]))
            trans.append([j, d, f"pr{k}"])
    if back:
        pars.append(P("ra3", "rate", back))
        trans.append(["t02", "t00", "ra3"])
    return {"comps": comps, "characs": [], "pars": pars, "transitions": trans, "pops": ["pa"], "transfers": [], "settings": [start, start + nsteps * dt, dt], "regime": "c05"}


GROUPSJ_LIBRARY = [
    # (name, shape, props, residual)
    ("fan2-lt1", "fan", [0.5, 0.3], False),
    ("fan2-eq1", "fan", [0.25, 0.75], False),
    ("fan2-gt1", "fan", [0.9, 0.6], False),
    ("fan3-lt1", "fan", [0.2, 0.2, 0.2], False),
    ("fan3-gt1", "fan", [1.0, 1.0, 1.0], False),
    ("fan2-residual-lt1", "fan", [0.4, None], True),
    ("fan3-residual-gt1", "fan", [0.7, 0.6, None], True),
    ("chain-lt1", "chain", [0.3, 0.3, 0.5, 0.3], False),
    ("chain-gt1-residual", "chain", [1.5, 0.5, 0.4, None], True),
    ("multi-lt1", "multi", [0.5, 0.25], False),
    ("multi-residual", "multi", [0.35, None], True),
]


def groupsj_case(rr, i):
    name, shape, props, residual = GROUPSJ_LIBRARY[i % len(GROUPSJ_LIBRARY)]
    variant = (i // len(GROUPSJ_LIBRARY)) % 4
    dt = rr.choice([1.0, 0.5, 0.25, 0.2, 0.1, 1 / 12, 0.3])
    k = rr.choice([2, 3, 3, 4, 5, 6])
    D = rr.choice([k * dt, (k - 0.5) * dt, k * dt])
    if i % 5 == 2:  # the float hazards: D = k*dt "up to rounding error" (3*0.1/0.1 = 3.0000000000000004, 5/12 / (1/12) = 5.000000000000001)
        dt, k, D = rr.choice([(0.1, 3, 3 * 0.1), (1 / 12, 5, 5 / 12), (0.1, 7, 7 * 0.1)])
    elif i % 11 == 7:  # a group whose duration is shorter than one step: a single row
        k, D = 1, 0.5 * dt
    if variant:  # later rounds: random proportions in the same regime
        scale_ = rr.choice([0.5, 1.0, 2.0, rr.random() * 3])
        props = [None if p is None else round(p * scale_, 4) for p in props]
    nsteps = rr.randint(k + 4, 2 * k + 8)
    return {"name": name, "shape": shape, "props": props, "residual": residual, "D": D, "dt": dt, "nsteps": nsteps,
            "inflow": [rr.choice([0.0, 10.0, round(rr.random() * 100, 2)]) for _ in range(nsteps + 1)],
            "moves": [rr.choice([0.2 / dt, 0.5 / dt, 0.9 / dt, 1.0 / dt, 3.0 / dt]), rr.choice([0.3 / dt, 0.7 / dt])], "back": rr.choice([0.0, 0.0, 0.4 / dt])}


def check_groupj(ctx, case, mode_b=True):
    spec = spec_groupj(case["D"], case["dt"], case["nsteps"], case["inflow"], case["shape"], case["props"], case["moves"], residual=case["residual"], back=case.get("back", 0.0))
    replay = {"how": "groupj", "case": case}
    ctx.count("groupsj." + case["shape"])
    try:
        m = genfw.run(spec, capture_preflush=True)
    except Exception as e:
        cause = repr(e.__cause__)[:160] if e.__cause__ is not None else ""
        ctx.case({"oracle": "groupj", "name": case["name"], "dt": case["dt"], "D": case["D"]}, nontrivial=True)
        ctx.violation({"api": "Model.process", "oracle": "group-shift", "part": "raises", "junctions": "resjunction" if case["residual"] else "junction"},
                      f"closed duration group with junctions inside ({case['name']}, duration {case['D']!r}, dt={case['dt']!r}): the model cannot be built/run: {type(e).__name__}: {str(e)[:120]} {cause}", replay)
        return
    net = genfw.extract_net(m)
    viol, stats = apply_group_shift(ctx, m, net, replay, label=f"library group {case['name']}")
    n = max(net["nrows"])
    ctx.case({"oracle": "groupj", "name": case["name"], "props": case["props"], "n": n, "dt": case["dt"], "moves": case["moves"]},
             nontrivial=n > 1 and stats.get("gshift.moved_through_junction", 0) > 0, sample={"name": case["name"], "n": n, "props": case["props"]})
    if not stats.get("gshift.hyp_held"):
        why = [k for k in stats if k.startswith("gshift.hyp_failed") or k.startswith("gshift.skipped")]
        ctx.brk("correspondence", f"library group {case['name']}: the hypotheses of group_step_junctions do not hold on the net the implementation built: {why}", stage="wf", case=case)
    if mode_b:
        if core.drive([f"ewf {genfw.net_tokens(net)}"])[0] != "true":
            ctx.brk("correspondence", f"library group {case['name']}: extracted net fails wfCheck", stage="wf", case=case)
            return
        for b in engine_corr.compare_trace(ctx, spec, m, net, case["name"]):
            if PROPERTY in engine_corr.STAGE_PROPS.get(b["stage"], set()):
                ctx.disagreements_checked += 1
                ctx.brk("correspondence", f"library group {case['name']}: mode B {b['stage']}: {b['what']}", stage=b["stage"], case=case, spec=spec)


def spec_dropout_junction(D, dt, nsteps, inflow, move, drop, start=2000.0):
    """t00, t01 members of the duration group du0; junction g0: t00 --ra1--> g0 --pr0--> c1 (an ordinary compartment OUTSIDE the group), g0 --'>'--> t01.
    The junction's only outflow into the group is the residual link: it still belongs to the group (people passing through it from t00 to t01 keep their elapsed time)."""
    tv = times(start, dt, nsteps)
    comps = [C("c0", 50.0), C("c1", 0.0), C("t00", 0.0), C("t01", 0.0), C("k0", kind="sink"), C("src", kind="source"), C("g0", kind="junction")]
    pars = [P("du0", "duration", D, timed=True), P("nu0", "number", series(tv, inflow)), P("ra1", "rate", move), P("ra9", "rate", 0.1), P("pr0", "proportion", drop)]
    trans = [["t00", "k0", "du0"], ["t01", "k0", "du0"], ["src", "t00", "nu0"], ["c0", "k0", "ra9"], ["t00", "g0", "ra1"], ["g0", "c1", "pr0"], ["g0", "t01", ">"]]
    return {"comps": comps, "characs": [], "pars": pars, "transitions": trans, "pops": ["pa"], "transfers": [], "settings": [start, start + nsteps * dt, dt], "regime": "c05"}


def run_dropout_junction(ctx, n):
    """nobody stays in a duration group longer than n steps, also when the move inside the group goes through a junction whose other outflow leaves the group:
    a pulse entering at step s has left the group (through the timed outflow or the drop-out link) by step s+n."""
    r = ctx.rng
    for i in range(n):
        rr = _random.Random(r.randrange(1 << 30))
        dt = rr.choice([1.0, 0.5, 0.25])
        k = rr.choice([2, 3, 4])
        D = k * dt
        nsteps = 2 * k + 6
        s_ = rr.randint(0, 2)
        infl = [rr.choice([0.0, 10.0, 40.0]) for _ in range(nsteps + 1)]
        infl1 = list(infl)
        infl1[s_] += 100.0 / dt
        case = {"D": D, "dt": dt, "nsteps": nsteps, "move": rr.choice([0.4 / dt, 0.8 / dt]), "drop": rr.choice([0.2, 0.5]), "s": s_}
        try:
            m0 = genfw.run(spec_dropout_junction(D, dt, nsteps, infl, case["move"], case["drop"]))
            m1 = genfw.run(spec_dropout_junction(D, dt, nsteps, infl1, case["move"], case["drop"]))
        except Exception as e:
            ctx.brk("correspondence", f"drop-out junction model could not be run: {type(e).__name__}: {str(e)[:160]}", case=case)
            continue
        ctx.count("groups.dropout_junction")
        occ = lambda m: sum(np.asarray(m.pops[0].get_comp(c).vals, dtype=float) for c in ("t00", "t01"))
        extra = occ(m1) - occ(m0)
        nrows = m0.pops[0].get_comp("t00")._vals.shape[0]
        ctx.case({"oracle": "dropout-junction", **case}, nontrivial=True, sample=case)
        late = [int(t) for t in range(len(extra)) if t > s_ + nrows and abs(extra[t]) > 1e-7]
        if late:
            ctx.violation({"api": "ProjectFramework", "case": "junction-tied-to-its-group-by-the-residual-link-only"},
                          f"duration group of n={nrows} steps (D={D}, dt={dt}): a pulse of 100 entering t00 at step {s_} and moving t00 -> g0 -> t01 (g0's other outflow leaves the group) is still in the group at steps {late[:4]} "
                          f"({extra[late[0]]:.4g} people at step {late[0]}): moving through the junction restarted the elapsed time", {"kind": "dropout_junction", "case": case, "inflow": infl})


def run_groupsj(ctx, n):
    r = ctx.rng
    for i in range(n):
        rr = _random.Random(r.randrange(1 << 30))
        check_groupj(ctx, groupsj_case(rr, i))


def focus_gshift(r):
    """generated models whose duration groups are closed (every transition out of a timed compartment stays in its group) and have
    junctions of the rich family inside"""
    feats = focus(r)
    feats.update({"group_size": r.choice([1, 2, 2, 3, 3]), "group_junction": r.choice([0.5, 1.0, 1.0]), "gj_rich": 0.85, "stay_in_group": r.choice([1.0, 1.0, 0.8]),
                  "junctions": r.choice([0, 0, 1]), "nsteps": r.randint(8, 18)})
    if isinstance(feats.get("duration"), list) and r.random() < 0.6:
        feats["duration"] = feats["duration"][0]  # one length for all populations (a group that spans populations of different length is not closed)
    return feats


def run_gshift(ctx, n):
    """the group-shift oracle (and mode B) on generated models weighted toward closed groups with junctions inside"""
    engine_corr.run_stream(ctx, PROPERTY, n, regimes=("calibrated", "boundary", "calibrated", "extreme"), focus=focus_gshift, workers=1)


# ----------------------------------------------------------------------------------------------------------
# run_release: random models, every timed compartment with only untimed inflow
# ----------------------------------------------------------------------------------------------------------
def focus(r):
    dt = r.choice([1.0, 0.5, 0.25, 0.2, 0.1, 1 / 12, 1 / 52, 0.3, 0.7])
    k = r.choice([1, 2, 3, 3, 4, 5, 6, 7, 12])
    form = r.choice(["k*dt", "k*dt", "k/12" if dt == 1 / 12 else "k*dt", "k/52" if dt == 1 / 52 else "(k+.5)*dt", "half", "(k+.5)*dt"])
    D = form_D(form, k, dt)
    feats = {"timed": r.choice([1, 1, 2]), "dt": dt, "group_size": r.choice([1, 1, 2, 2, 3]), "group_junction": r.choice([0.0, 0.5, 1.0]), "nsteps": r.randint(8, 22), "dur_function": 0.25}
    x = r.random()
    if x < 0.55:
        feats["duration"] = D
    elif x < 0.8:
        feats["duration"] = [D, form_D("k*dt", r.choice([1, 2, 4, 9]), dt), D]  # groups whose length differs between populations
        feats["npops"] = r.choice([2, 3])
        feats["transfers"] = True
    # else: the generator's own durations (with timescales)
    return feats


def focus_release(r):
    """as `focus`, weighted toward compartments without timed inflow (single-compartment groups, one population)"""
    feats = focus(r)
    if r.random() < 0.7:
        feats["group_size"] = 1
        feats["group_junction"] = 0.0
        if r.random() < 0.7:
            feats["npops"] = 1
            if isinstance(feats.get("duration"), list):
                feats["duration"] = feats["duration"][0]
            feats.pop("transfers", None)
    return feats


def check_release(ctx, m, net, case_key, spec):
    from atomica import model as M

    T = len(m.t)
    for c in timed_comps(m):
        # group_mismatch_total / rows_within_engine: whatever the row counts of the incoming timed links, everything that is
        # recorded as flowing in arrives (and within the rows): total' = total - outflow + inflow
        tot = np.asarray(c.vals, dtype=float)
        inn = sum((np.asarray(l.vals, dtype=float) for l in c.inlinks), np.zeros(T))
        out = sum((np.asarray(l.vals, dtype=float) for l in c.outlinks), np.zeros(T))
        if np.isfinite(tot).all() and np.isfinite(inn).all() and np.isfinite(out).all():
            ctx.count("release.timed_balance")
            resid = tot[1:] - (tot[:-1] - out[:-1] + inn[:-1])
            tolv = 1e-9 * np.maximum(1.0, np.maximum(np.abs(tot[:-1]), np.abs(inn[:-1])))
            if (np.abs(resid) > tolv).any():
                t = int(np.argmax(np.abs(resid) > tolv))
                mism = [l.name for l in c.inlinks if isinstance(l, M.TimedLink) and l._vals.shape[0] != c._vals.shape[0]]
                ctx.violation({"api": "TimedCompartment.update", "oracle": "timed-balance", "rows_mismatch": bool(mism)},
                              f"TimedCompartment {c.name} ({c.pop.name}, {c._vals.shape[0]} rows) at index {t + 1}: occupancy {tot[t + 1]!r} != {tot[t]!r} - outflow {out[t]!r} + inflow {inn[t]!r}"
                              + (f"; timed links with a different row count: {mism}" if mism else ""), {"how": "release", "spec": spec, "case": case_key, "comp": [c.pop.name, c.name]})
        if any(isinstance(l, M.TimedLink) for l in c.inlinks):
            ctx.count("release.skipped_timed_inflow")
            continue
        replay = {"how": "release", "spec": spec, "case": case_key, "comp": [c.pop.name, c.name]}
        pv_ = np.asarray(c.parameter.vals, dtype=float)
        if (c.parameter.fcn_str and c.parameter._is_dynamic) or not np.all(pv_ == pv_[0]):
            # outside the property's domain (a duration is constant in time) -- but the implementation ACCEPTED it: its own guard
            # ("Duration parameter value cannot vary over time") looks at the values before a state-dependent function has been evaluated
            ctx.count("release.duration_varies_in_time")
            Dpre = c._vals.shape[0] * m.dt
            ctx.violation(dict(DYN_KEY), f"TimedCompartment {c.name} ({c.pop.name}): its duration parameter {c.parameter.name} = '{c.parameter.fcn_str}' depends on the model state and takes the values "
                          f"{[float(v) for v in pv_[:3]]}... during the run, yet the model was built without complaint: {c._vals.shape[0]} rows (about {Dpre:.4g} years, from the databook value) were allocated before the function "
                          f"was ever evaluated, so the function is silently ignored (TimedCompartment.preallocate asserts 'Duration parameter value cannot vary over time' on values that are not computed yet)", replay)
            continue
        D = impl_duration(c)
        n, amb = spec_rows_of(D, m.dt)
        if amb:
            ctx.ambiguous += 1
            continue
        if c._vals.shape[0] != n:
            kcls, _ = classify_quotient(D, m.dt)
            ctx.violation(dict(ROWS_KEY) if kcls.startswith("float_dust") else {"api": "TimedCompartment.preallocate", "case": kcls},
                          f"TimedCompartment {c.name} ({c.pop.name}): duration {D!r}, dt={m.dt!r}: {c._vals.shape[0]} rows allocated, specification {n}", replay)
            continue
        inflow = sum((np.asarray(l.vals, dtype=float) for l in c.inlinks), np.zeros(T))
        flush = np.asarray(c.flush_link.vals, dtype=float)
        if not (np.isfinite(inflow).all() and np.isfinite(flush).all()):
            continue
        only_flush = all(l is c.flush_link for l in c.outlinks)
        ctx.hyp_checked += 1
        if (c._vals[:, 0] >= 0).all():
            ctx.hyp_held += 1
        ctx.count("release.exact" if only_flush else "release.bounded")
        scale = max(1.0, float(np.max(np.abs(inflow))), float(c._vals[:, 0].sum()))
        for t in range(T):
            cohort = max(0.0, inflow[t - n]) if t >= n else float(c._vals[t, 0])
            bad = abs(flush[t] - cohort) > 1e-9 * scale if only_flush else flush[t] > cohort + 1e-9 * scale
            if bad:
                ctx.violation({"api": "TimedCompartment.resolve_outflows", "oracle": "release", "exact": only_flush},
                              f"TimedCompartment {c.name} ({c.pop.name}), n={n}: timed outflow at step {t} is {flush[t]!r}; the cohort that entered at step {t - n} "
                              f"({'initial row ' + str(t) if t < n else 'inflow'}) is {cohort!r}" + (" and the flush link is the only way out" if only_flush else ""), replay)
                break


def run_release(ctx, n):
    r = ctx.rng
    for i in range(n):
        regime = ["calibrated", "boundary", "extreme"][i % 3]
        sub_seed = r.randrange(1 << 30)
        feats = focus_release(_random.Random(sub_seed ^ 0x5A5A))
        rr = _random.Random(sub_seed)
        try:
            spec, m, _ = genfw.random_model(rr, regime, feats)
        except RuntimeError:
            ctx.count("gen.failed")
            continue
        net = genfw.extract_net(m)
        key = {"sub_seed": sub_seed, "regime": regime, "features": feats, "oracle": "release"}
        ctx.case(key, nontrivial=any(n > 1 for n in net["nrows"]))
        if any(net["jgroup"]):
            ctx.count("has.groupjunction")
        if any(net["tlink"][l] and net["kinds"][net["dst"][l]] == "t" and net["lrows"][l] != net["nrows"][net["dst"][l]] for l in range(len(net["links"]))):
            ctx.count("has.rows_mismatch_link")
        check_release(ctx, m, net, key, spec)
        apply_group_shift(ctx, m, net, {"how": "gshift", "spec": spec, "case": key})


# ----------------------------------------------------------------------------------------------------------
# ----------------------------------------------------------------------------------------------------------
# run_assign: duration-group assignment of junctions (framework validation) must yield a runnable model
# ----------------------------------------------------------------------------------------------------------
ASSIGN_KEY = {"api": "ProjectFramework._assign_junction_duration_groups"}
ASSIGN_MARKERS = ("Mismatched junction duration groups", "Error when balancing the junction", "Cannot flush into the same duration group")


def spec_assign(case, dt=0.1, D=0.3):
    """junction j0 next to the duration group du0 = {t00, t01}"""
    comps = [C("c0", 100.0), C("t00", 30.0), C("t01", 10.0), C("k0", kind="sink"), C("j0", kind="junction")]
    pars = [P("du0", "duration", D, timed=True), P("ra0", "rate", 0.2), P("ra1", "rate", 0.3), P("pr0", "proportion", 1.0)]
    trans = [["t00", "k0", "du0"], ["t01", "k0", "du0"], ["t00", "j0", "ra1"], ["j0", "t01", "pr0"]]
    if case == "pure":
        trans.append(["c0", "t00", "ra0"])
    elif case == "mixed_inflow":  # an ordinary compartment also feeds the junction
        trans.append(["c0", "j0", "ra0"])
    elif case == "mixed_outflow":  # the junction also feeds an ordinary compartment
        pars.append(P("pr1", "proportion", 0.5))
        trans += [["c0", "t00", "ra0"], ["j0", "c0", "pr1"]]
    elif case == "to_plain_junction":  # the junction feeds a second junction that leads outside the group
        comps.append(C("j1", kind="junction"))
        pars += [P("pr1", "proportion", 0.5), P("pr2", "proportion", 1.0)]
        trans += [["c0", "t00", "ra0"], ["j0", "j1", "pr1"], ["j1", "c0", "pr2"]]
    elif case == "source_inflow":
        comps.append(C("src", kind="source"))
        pars.append(P("nu0", "number", 5.0))
        trans += [["c0", "t00", "ra0"], ["src", "j0", "nu0"]]
    else:
        raise ValueError(case)
    return {"comps": comps, "characs": [], "pars": pars, "transitions": trans, "pops": ["pa"], "transfers": [], "settings": [2000.0, 2000.0 + 8 * dt, dt], "regime": "c05"}


def check_assign(ctx, spec, label):
    """accepted by validation => builds and runs, and a junction marked as group member only has TimedLinks in"""
    import atomica as at
    from atomica import model as M

    replay = {"how": "assign", "spec": spec, "label": label}
    try:
        m = genfw.run(spec)
    except at.InvalidFramework:
        ctx.count("assign.rejected_by_validation")
        return True
    except Exception as e:  # accepted, then an internal error
        cause = repr(e.__cause__)[:120] if e.__cause__ is not None else ""
        ctx.violation(dict(ASSIGN_KEY, case=label), f"framework accepted by validation, but the model cannot be built/run: {type(e).__name__}: {str(e)[:140]} {cause} "
                      f"(a junction was assigned to a duration group although it also has links to compartments outside the group)", replay)
        return False
    ctx.count("assign.runs")
    for pop in m.pops:
        for c in pop.comps:
            if isinstance(c, M.JunctionCompartment) and c.duration_group:
                ctx.count("assign.group_member")
                if not all(isinstance(l, M.TimedLink) for l in c.inlinks + c.outlinks):
                    ctx.violation(dict(ASSIGN_KEY, case="member-with-untimed-link"), f"junction {c.name} is a member of duration group {c.duration_group} but has ordinary links", replay)
                    return False
    return True


def run_assign(ctx):
    for case in ("pure", "mixed_inflow", "mixed_outflow", "to_plain_junction", "source_inflow"):
        ctx.case({"oracle": "assign", "case": case}, nontrivial=case != "pure")
        check_assign(ctx, spec_assign(case), case)


def rejects_to_violations(ctx):
    """specs the generator produced that validation accepted but build/run refused, when the refusal is about duration groups"""
    seen = set()
    for x in genfw.REJECT_LOG:
        mk = next((mk for mk in ASSIGN_MARKERS if mk in x["msg"]), None)
        if mk is None:
            continue
        ctx.count("assign.generated_unrunnable")
        if mk in seen:
            continue
        seen.add(mk)
        # re-run once to make sure the refusal replays and to read its cause
        try:
            genfw.run(x["spec"])
            continue
        except Exception as e:
            cause = repr(e.__cause__)[:100] if e.__cause__ is not None else ""
        if mk == "Error when balancing the junction" and "_vals" not in cause:
            ctx.notes.append(f"junction balance error with another cause (not counted for C05): {cause}")
            continue
        ctx.violation(dict(ASSIGN_KEY, case="generated: " + mk), f"generated framework accepted by validation, but the model cannot be built/run: {x['type']}: {x['msg'][:160]} {cause}", {"how": "assign", "spec": x["spec"], "label": "generated"})


COUNTS = {"keyring": (14, 240), "groups": (9, 150), "groupsj": (13, 220), "release": (16, 480), "gshift": (18, 480), "stream": (30, 1200)}
SHARDS = 12


def _work(ctx, counts):
    install_oracles(ctx)  # this (sub-)context's counters receive the group-shift statistics of every model of the streams
    run_keyring(ctx, counts["keyring"])
    run_groups(ctx, counts["groups"])
    run_dropout_junction(ctx, max(3, counts["groups"] // 3))
    run_groupsj(ctx, counts["groupsj"])
    run_release(ctx, counts["release"])
    run_gshift(ctx, counts["gshift"])
    engine_corr.run_stream(ctx, PROPERTY, counts["stream"], regimes=("calibrated", "boundary", "extreme"), focus=focus, workers=1)


def _shard(args):
    seed, shard, counts = args
    import logging

    import atomica

    atomica.logger.setLevel(logging.ERROR)
    sub = core.Ctx(PROPERTY, "thorough", seed * 100 + shard + 1)
    err = None
    try:
        _work(sub, counts)
    except Exception:
        import traceback

        err = traceback.format_exc()
    return {"evaluations": sub.evaluations, "keys": sub.nontrivial_keys, "samples": sub.samples, "branches": sub.branches, "traces": sub.traces,
            "dis": sub.disagreements_checked, "hc": sub.hyp_checked, "hh": sub.hyp_held, "amb": sub.ambiguous, "breaks": sub.breaks, "violations": sub.violations,
            "notes": sub.notes, "extra": sub.extra, "rejects": list(genfw.REJECT_LOG), "err": err, "shard_seed": seed * 100 + shard + 1}


def _merge(ctx, res):
    ctx.evaluations += res["evaluations"]
    ctx.nontrivial_keys |= res["keys"]
    ctx.samples += res["samples"][: max(0, 3 - len(ctx.samples))]
    for k, v in res["branches"].items():
        ctx.count(k, v)
    ctx.traces += res["traces"]
    ctx.disagreements_checked += res["dis"]
    ctx.hyp_checked += res["hc"]
    ctx.hyp_held += res["hh"]
    ctx.ambiguous += res["amb"]
    for b in res["breaks"]:
        b["shard_seed"] = res["shard_seed"]
    for v in res["violations"]:
        v["replay"]["shard_seed"] = res["shard_seed"]
    ctx.breaks += res["breaks"]
    ctx.violations += res["violations"]
    ctx.notes += res["notes"]
    for k, v in res["extra"].items():
        if isinstance(v, (int, float)):
            ctx.extra[k] = ctx.extra.get(k, 0) + v
    genfw.REJECT_LOG.extend(res["rejects"])
    if res["err"]:
        raise RuntimeError("worker failed:\n" + res["err"])


def run(ctx):
    engine_corr.selfcheck_ref(ctx, 2)
    run_rows(ctx)
    run_assign(ctx)
    if ctx.quick:
        _work(ctx, {k: v[0] for k, v in COUNTS.items()})
    else:
        import multiprocessing as mp

        counts = {k: -(-v[1] // SHARDS) for k, v in COUNTS.items()}
        with mp.get_context("fork").Pool(SHARDS) as pool:
            for res in pool.imap(_shard, [(ctx.seed, sh, counts) for sh in range(SHARDS)]):
                _merge(ctx, res)
    rejects_to_violations(ctx)
    import collections
    import json

    ctx.extra["violation_keys"] = dict(collections.Counter(json.dumps(v["key"], sort_keys=True) for v in ctx.violations))
    if genfw.REJECT_LOG:
        ctx.extra["accepted_but_unrunnable"] = len(genfw.REJECT_LOG)
        ctx.notes.append("frameworks accepted by validation but refused at build/run (C18 material): " + "; ".join(sorted({x["type"] + ": " + x["msg"][:70] for x in genfw.REJECT_LOG}))[:600])


def replay(ctx, data):
    rp = data["replay"]
    how = rp.get("how")

    class _C(core.Ctx):
        pass

    c2 = core.Ctx(PROPERTY, "quick", 0)
    if how == "rows":
        info = rows_of_model(rp["form"], rp["k"], rp["dt"], rp.get("junction", False))
        print(info)
        bad = any(n != info["rows_specified"] for n in info["rows_allocated"]) or any(L != info["rows_specified"] and not (L == 0 and info["rows_specified"] == 1) for L in info["junction_link_rows"])
    elif how == "keyring":
        check_keyring(c2, rp["case"], rp["regime"])
        bad = bool(c2.violations)
    elif how == "impulse":
        class R:
            def randint(self, a, b):
                return rp["s"]

            def choice(self, xs):
                return rp["pulse"]

        check_impulse(c2, rp["case"], rp["regime"], R())
        bad = bool(c2.violations)
    elif how == "group":
        check_group(c2, rp["case"])
        bad = bool(c2.violations)
    elif how == "assign":
        check_assign(c2, rp["spec"], rp.get("label", "replay"))
        bad = bool(c2.violations)
    elif how == "groupj":
        check_groupj(c2, rp["case"])
        for b in c2.breaks:
            print("break:", b["what"])
        bad = bool(c2.violations) or bool(c2.breaks)
    elif how == "gshift":
        try:
            m = genfw.run(rp["spec"])
        except Exception as e:
            print(f"model refused: {type(e).__name__}: {str(e)[:200]}")
            print("FAILS")
            return 1
        apply_group_shift(c2, m, genfw.extract_net(m), rp)
        bad = bool(c2.violations)
    elif how == "release":
        try:
            m = genfw.run(rp["spec"])
        except Exception as e:
            # the recorded model is no longer accepted: that settles a violation that was about ACCEPTING it (state-dependent duration); any other recorded model is valid and must run
            refused_ok = (data.get("key") or {}).get("case") == DYN_KEY["case"]
            print(f"model refused: {type(e).__name__}: {str(e)[:200]}")
            print("passes" if refused_ok else "FAILS")
            return 0 if refused_ok else 1
        check_release(c2, m, genfw.extract_net(m), rp["case"], rp["spec"])
        bad = bool(c2.violations)
    elif "spec" in rp:  # from engine_corr.run_stream
        install_oracles(c2)
        try:
            m = genfw.run(rp["spec"], capture_preflush=True)
        except Exception as e:
            print(f"model refused: {type(e).__name__}: {str(e)[:200]}")
            print("FAILS")
            return 1
        net = genfw.extract_net(m)
        brs = engine_corr.compare_trace(c2, rp["spec"], m, net, rp.get("case")) + engine_corr.compare_flush(c2, m, net)
        ors, _ = engine_corr.oracles(m, net)
        mine = [b for b in brs if PROPERTY in engine_corr.STAGE_PROPS.get(b["stage"], set())]
        for b in mine:
            print("mode B:", b)
        for o in ors:
            if o[0] == PROPERTY:
                print("oracle:", o[1], o[2])
        bad = bool(mine) or any(o[0] == PROPERTY for o in ors)
    else:
        print("unknown replay kind; content:", str(rp)[:2000])
        return 2
    for v in c2.violations:
        print("violation:", v["key"], v["what"])
    print("FAILS" if bad else "passes")
    return 1 if bad else 0


if __name__ == "__main__":
    core.main(sys.modules[__name__])
