"""
C15 -- Optimization and calibration never make things worse and never leak side effects.

Parts (all run against the real atomica code under core.REPO and the compiled Lean driver):

  translate      regenerate lean/AtomicaModel/Generated/Brackets.lean (skeletons of calibrate, Project.run_optimization,
                 Project.calibrate, reconcile, optimize) from the Python AST                     [c15_skeleton.py]
  run_skeletons  driver verdict per skeleton (restores / crash witness / caller objects written); the generated Lean term
                 and the wire term must be the same skeleton
  run_objective  mode A: Optimization.compute_objective on processed models vs Protocol.Objective (`objective`)
  run_calobj     mode A: calibration._calculate_objective vs Protocol.Objective.calObjective (`calobj`)
  run_problems   mode E: small optimize / Project.run_optimization / calibrate / reconcile problems on generated and
                 library models with ASD: every (x, f) evaluated is logged and replayed through Protocol.replay (`asd`);
                 the objective of start and end is recomputed independently from Results; bounds; hard targets; deep
                 comparison of caller objects and project.settings; then the same run with an exception injected at the
                 k-th simulation for every k up to the number of simulations of the reference run.
"""
from __future__ import annotations

import logging
import math
import sys
import time
import traceback
from fractions import Fraction

import numpy as np

from vlib import core
from vlib.core import q, unq

from props import c15_models as M
from props import c15_skeleton as SK

PROPERTY = "C15"
LEAN_MODS = ["AtomicaProofs.Properties.C15"]
THEOREMS = [
    "Atomica.C15.asd_invariant",
    "Atomica.C15.asd_returns_best",
    "Atomica.C15.asd_fun",
    "Atomica.C15.objective_is_sum",
    "Atomica.C15.measure_is_sum",
    "Atomica.C15.current_selection_differs",
    "Atomica.C15.finite_iff_met",
    "Atomica.C15.hard_targets_kept",
    "Atomica.C15.restores_sound",
    "Atomica.C15.witness_sound",
    "Atomica.C15.skeletons_classified",
    "Atomica.C15.calibrate_restores",
    "Atomica.C15.calibrate_settings_restored",
    "Atomica.C15.reconcile_optimize_no_settings",
    "Atomica.C15.works_on_copy_sound",
    "Atomica.C15.no_writes_sound",
    "Atomica.C15.calibrate_works_on_copy",
]
TRUSTED = [
    "sciris.asd (third party): accept rule and clipping modelled from sc_asd.py (sciris 3.3.0) and checked on every logged trace; proposal distribution, step sizes, stopping criteria not modelled (theorems hold for every proposal sequence)",
    "translator harness/props/c15_skeleton.py: Python AST -> Bracket.Stmt (which statements touch *.settings.*, ownership classification of modified objects); backed by crash injection and deep comparison at run time",
    "Bracket semantics: `restore f v` stores exactly the saved value (ProjectSettings.sim_end setter is idempotent on its own output; checked at run time by the settings snapshot)",
    "deterministic simulation: the objective of a point does not depend on when it is evaluated (checked: independent re-evaluation of start and end)",
    "np.sum / SLSQP / np.interp floating point (compared to 1e-9 relative)",
]
RULE = ("objective: processed models of generated SIR projects and library demos x random measurables (kind, weight, single year on/off grid, ranges, open ranges, "
        "population selections, program spending, links); problems: optimize / run_optimization / calibrate / reconcile specs drawn from ctx.rng (adjustables, bounds incl. "
        "start outside bounds, hard targets, total-spend constraints, budget 0..40 iterations, maxtime 0), one reference run + one run per crash point. "
        "non-trivial = (objective) a window that selects some but not all time points or a population selection or a hard target; (problem) at least one accepted step "
        "or a crash point after the first simulation")
EXPECTED_BRANCHES = [
    "asd.accepted", "asd.rejected", "asd.inf_evaluation", "asd.clipped_to_bound", "asd.zero_iterations",
    "objective.window_single", "objective.window_range", "objective.window_open", "objective.pop_selection", "objective.program_spend",
    "objective.link", "objective.hard_met", "objective.hard_missed", "objective.not_matched",
    "calobj.fractional", "calobj.wape", "calobj.data_outside_sim",
    "problem.optimize", "problem.run_optimization", "problem.calibrate", "problem.project_calibrate", "problem.reconcile",
    "problem.hard_target", "problem.total_spend_constraint", "problem.invalid_initial", "problem.maxtime_zero",
    "crash.before_asd", "crash.during_asd", "crash.after_asd",
    "skeleton.restores",
]

TOL = 1e-9


# ==================================================================================================================
# utilities: canonical deep snapshot, crash injection, asd spy
# ==================================================================================================================
class Injected(Exception):
    """the exception injected at a crash point (not a subclass of anything atomica catches)"""


SKIP_ATTRS = {"spreadsheet", "_spreadsheet", "created", "modified", "uid", "gitinfo", "version"}


def canon(o, memo=None):
    """canonical, comparable rendering of an object graph (arrays by bytes, floats exactly, cycles by first-visit index)"""
    if memo is None:
        memo = {}
    if o is None or isinstance(o, (bool, int, str, bytes)):
        return o
    if isinstance(o, float):
        return ("f", o.hex()) if o == o else ("f", "nan")
    if isinstance(o, np.generic):
        return canon(o.item(), memo)
    if isinstance(o, np.ndarray):
        if o.dtype == object:
            return ("ndo", o.shape, tuple(canon(x, memo) for x in o.ravel()))
        return ("nd", o.dtype.str, o.shape, o.tobytes())
    oid = id(o)
    if oid in memo:
        return ("ref", memo[oid][0])
    memo[oid] = (len(memo), o)   # keeps `o` alive so that its id cannot be reused by a temporary during this traversal
    if isinstance(o, dict):
        return ("dict", type(o).__name__, tuple((canon(k, memo), canon(v, memo)) for k, v in o.items()))
    if isinstance(o, (list, tuple)):
        return (type(o).__name__, tuple(canon(x, memo) for x in o))
    if isinstance(o, (set, frozenset)):
        return ("set", tuple(sorted((canon(x, memo) for x in o), key=repr)))
    mod = type(o).__module__ or ""
    if mod.startswith("pandas") or mod.startswith("openpyxl") or mod.startswith("logging"):
        return ("opaque", type(o).__qualname__)
    items = []
    if hasattr(o, "__dict__"):
        items += list(o.__dict__.items())
    for klass in type(o).__mro__:
        for s in getattr(klass, "__slots__", ()) or ():
            if isinstance(s, str) and hasattr(o, s) and s != "__dict__":
                items.append((s, getattr(o, s)))
    if items:
        return ("obj", type(o).__qualname__, tuple((k, canon(v, memo)) for k, v in sorted(items, key=lambda kv: kv[0]) if k not in SKIP_ATTRS))
    return ("opaque", type(o).__qualname__)


def first_diff(a, b, path=""):
    if type(a) is not type(b):
        return f"{path}: {str(a)[:60]} -> {str(b)[:60]}"
    if isinstance(a, tuple):
        if len(a) != len(b):
            return f"{path}: length {len(a)} -> {len(b)}"
        if a and a[0] == "obj" and len(a) == 3:
            if a[1] != b[1]:
                return f"{path}: class {a[1]} -> {b[1]}"
            da, db = dict(a[2]), dict(b[2])
            for k in da:
                if k not in db:
                    return f"{path}.{k}: removed"
                d = first_diff(da[k], db[k], f"{path}.{k}")
                if d:
                    return d
            for k in db:
                if k not in da:
                    return f"{path}.{k}: added"
            return None
        if a and a[0] == "dict" and len(a) == 3:
            if len(a[2]) != len(b[2]):
                return f"{path}: dict size {len(a[2])} -> {len(b[2])}"
            for (ka, va), (kb, vb) in zip(a[2], b[2]):
                if ka != kb:
                    return f"{path}: key {str(ka)[:40]} -> {str(kb)[:40]}"
                d = first_diff(va, vb, f"{path}[{ka if not isinstance(ka, tuple) else ka[-1]}]")
                if d:
                    return d
            return None
        if a and a[0] == "f" and len(a) == 2 and a != b:
            fa = float.fromhex(a[1]) if a[1] != "nan" else float("nan")
            fb = float.fromhex(b[1]) if b[1] != "nan" else float("nan")
            return f"{path}: {fa!r} -> {fb!r}"
        if a and a[0] == "nd" and len(a) == 4 and a != b:
            try:
                xa = np.frombuffer(a[3], dtype=np.dtype(a[1])).reshape(a[2])
                xb = np.frombuffer(b[3], dtype=np.dtype(b[1])).reshape(b[2])
                return f"{path}: array {xa.tolist()!r:.80} -> {xb.tolist()!r:.80}"
            except Exception:
                return f"{path}: array changed"
        for i, (x, y) in enumerate(zip(a, b)):
            d = first_diff(x, y, f"{path}[{i}]" if not (i == 0 and isinstance(x, str)) else path)
            if d:
                return d
        return None
    if a != b:
        return f"{path}: {str(a)[:60]} -> {str(b)[:60]}"
    return None


class Caller:
    """the caller's objects of one run and their snapshot"""

    def __init__(self, P, parset=None, progset=None, instructions=None, optimization=None):
        self.P, self.parset, self.progset, self.instructions, self.optimization = P, parset, progset, instructions, optimization
        self.before = self.snap()

    def snap(self):
        P = self.P
        memo = {}
        return {
            "project.settings": canon(P.settings, memo),
            "parset": canon(self.parset, memo),
            "progset": canon(self.progset, memo),
            "instructions": canon(self.instructions, memo),
            "optimization": canon(self.optimization, memo),
            "project.parsets": canon(list(P.parsets.values()), memo),
            "project.progsets": canon(list(P.progsets.values()), memo),
            "project.data": canon(P.data, memo),
            "project.results": len(P.results),
        }

    def changes(self):
        after = self.snap()
        out = []
        for k in self.before:
            if self.before[k] != after[k]:
                out.append((k, first_diff(self.before[k], after[k], k) or k))
        return out


class CrashAt:
    """raise Injected at the k-th call (1-based) of cls.attr; counts calls; k=None only counts"""

    def __init__(self, cls, attr, k=None):
        self.cls, self.attr, self.k = cls, attr, k
        self.calls = 0
        self.fired = False

    def __enter__(self):
        self.orig = getattr(self.cls, self.attr)
        outer = self

        def wrapped(*a, **kw):
            outer.calls += 1
            if outer.k is not None and outer.calls == outer.k:
                outer.fired = True
                raise Injected(f"injected at call {outer.k} of {outer.cls.__name__}.{outer.attr}")
            return outer.orig(*a, **kw)

        setattr(self.cls, self.attr, wrapped)
        return self

    def __exit__(self, *exc):
        setattr(self.cls, self.attr, self.orig)
        return False


class AsdSpy:
    """wraps sciris.asd: logs every evaluation (x, f), start, bounds and the result; can inject keyword arguments"""

    def __init__(self, inject=None):
        self.inject = inject or {}
        self.records = []

    def __enter__(self):
        import sciris as sc

        self.sc = sc
        self.orig = sc.asd
        outer = self

        def wrapped(function, x, args=None, **kw):
            rec = {"x0": np.array(x, dtype=float).ravel().copy(), "log": [], "kw": dict(kw)}
            outer.records.append(rec)

            def f(xx, *a, **k):
                v = function(xx, *a, **k)
                rec["log"].append((np.array(xx, dtype=float).ravel().copy(), v))
                rec["in_settings"] = outer.settings_probe() if outer.settings_probe else None
                return v

            kw2 = dict(kw)
            kw2.update(outer.inject)
            rec["xmin"] = None if kw2.get("xmin") is None else np.array(kw2["xmin"], dtype=float).ravel()
            rec["xmax"] = None if kw2.get("xmax") is None else np.array(kw2["xmax"], dtype=float).ravel()
            res = outer.orig(f, x, args, **kw2)
            rec["x"] = np.array(res["x"], dtype=float).ravel().copy()
            rec["fval"] = float(res["fval"])
            rec["exit"] = str(res["exitreason"])
            return res

        sc.asd = wrapped
        return self

    settings_probe = None

    def __exit__(self, *exc):
        self.sc.asd = self.orig
        return False


def fq(v):
    """objective value on the wire"""
    v = float(v)
    if math.isinf(v) and v > 0:
        return "inf"
    if not math.isfinite(v):
        return None
    return q(v)


def asd_request(rec):
    n = len(rec["x0"])
    lo = rec["xmin"] if rec["xmin"] is not None else np.full(n, -np.inf)
    hi = rec["xmax"] if rec["xmax"] is not None else np.full(n, np.inf)
    log = rec["log"]
    if not log:
        return None
    toks = ["asd", str(n)] + [q(v) for v in rec["x0"]] + [q(v) for v in lo] + [q(v) for v in hi]
    f0 = fq(log[0][1])
    if f0 is None or not np.array_equal(log[0][0], rec["x0"]):
        return None
    toks += [f0, str(len(log) - 1)]
    for x, f in log[1:]:
        fv = fq(f)
        if fv is None:
            return None
        toks += [q(v) for v in x] + [fv]
    return " ".join(toks)


def check_asd_trace(ctx, rec, key, replay):
    """replay the logged evaluations through Protocol.replay; compare the returned point and value"""
    req = asd_request(rec)
    if req is None:
        ctx.count("asd.nan_or_unusable_log")
        ctx.brk("correspondence", f"asd log not usable (NaN objective or first evaluation not at x0): {key}", key=key)
        return None
    rep = core.drive([req])[0].split()
    ctx.traces += 1
    log = rec["log"]
    if len(log) == 1:
        ctx.count("asd.zero_iterations")
    fs = [float(f) for _, f in log]
    if any(math.isinf(f) for f in fs[1:]):
        ctx.count("asd.inf_evaluation")
    lo, hi = rec["xmin"], rec["xmax"]
    for x, _ in log[1:]:
        if (lo is not None and np.any(x == lo)) or (hi is not None and np.any(x == hi)):
            ctx.count("asd.clipped_to_bound")
            break
    if rep[0] != "ok":
        ctx.brk("correspondence", f"asd trace not reproduced by the model: {' '.join(rep)}", key=key, replay=replay)
        return None
    acc, in0, in1 = int(rep[1]), rep[2] == "1", rep[3] == "1"
    fm = rep[4]
    xm = [unq(t) for t in rep[5:]]
    ctx.count("asd.accepted", acc)
    ctx.count("asd.rejected", len(log) - 1 - acc)
    ctx.hyp_checked += 1
    ctx.hyp_held += int(in0)
    ok = len(xm) == len(rec["x"]) and all(Fraction(*float(a).as_integer_ratio()) == b for a, b in zip(rec["x"], xm))
    fv = float("inf") if fm == "inf" else float(Fraction(fm))
    ok = ok and (fv == rec["fval"])
    if not ok:
        ctx.brk("correspondence", f"asd returned x={rec['x'].tolist()} f={rec['fval']} but the accept-loop model gives x={[float(v) for v in xm]} f={fv}", key=key, replay=replay)
    if in0 and not in1:
        ctx.brk("correspondence", "model: start in box but result outside (contradicts asd_invariant)", key=key)
    return {"accepted": acc, "in0": in0, "in1": in1, "n": len(log)}


# ==================================================================================================================
# part 1: skeletons
# ==================================================================================================================
def translate(ctx):
    sk = SK.regenerate(core.REPO, core.LEAN)
    ctx.extra["skeletons"] = {k: {"file": v["file"], "function": v["py"], "lines": list(v["lines"]), "sha": v["sha"], "tokens": len(v["wire"])} for k, v in sk.items()}
    ctx._sk = sk


def run_skeletons(ctx):
    sk = getattr(ctx, "_sk", None) or SK.translate_all(core.REPO)
    names = list(sk)
    reps = core.drive([f"skeleton {n}" for n in names] + ["bracket " + " ".join(sk[n]["wire"]) for n in names])
    verdicts = {}
    for i, n in enumerate(names):
        gen, wire_rep = reps[i], reps[len(names) + i]
        key = {"api": "skeleton", "name": n}
        if not gen.startswith("ok "):
            ctx.brk("correspondence", f"driver has no generated skeleton {n}: {gen}", key=key)
            continue
        rendered, report = gen[3:].split(" | ")
        if rendered.split() != sk[n]["wire"] or report != wire_rep:
            ctx.brk("correspondence", f"generated Lean skeleton of {n} differs from the translator output of this run", key=key)
        t = wire_rep.split()
        restores = t[1] == "1"
        wi = t.index("witness")
        witness = None if t[wi + 1] == "none" else (int(t[wi + 1]), int(t[wi + 2]), int(t[wi + 3]))
        wr = t.index("writes")
        nw = int(t[wr + 1])
        writes = t[wr + 2: wr + 2 + nw]
        fi = t.index("fields")
        fields = [int(x) for x in t[fi + 2:]]
        verdicts[n] = {"restores": restores, "witness": witness, "writes": writes, "fields": fields}
        ctx.count("skeleton.restores" if restores else "skeleton.leak_witness" if witness else "skeleton.unclassified")
        ctx.case(key, nontrivial=bool(fields) or bool(writes), sample={"skeleton": n, **verdicts[n]})
        if not restores and witness is None:
            ctx.brk("correspondence", f"static check rejects {n} but no single-crash witness exists (analysis too coarse)", key=key)
    ctx.extra["skeleton_verdicts"] = verdicts
    # the claims of calibrate_works_on_copy
    for n in ("calibrate", "reconcile", "optimize"):
        if n in verdicts and verdicts[n]["writes"]:
            ctx.brk("correspondence", f"{n} modifies caller-owned object(s) {verdicts[n]['writes']} in place according to the skeleton", key={"api": "skeleton", "name": n})
    return verdicts


# ==================================================================================================================
# part 2: objective (mode A)
# ==================================================================================================================
def popvars(model, name):
    """per population: list of (isLink, vals) or None when the quantity is not defined there"""
    from atomica.model import Link
    from atomica.system import NotFoundError

    out = []
    for pop in model.pops:
        try:
            vs = pop.get_variable(name)
        except NotFoundError:
            out.append((pop.name, None))
            continue
        out.append((pop.name, [(isinstance(v, Link), np.array(v.vals, dtype=float)) for v in vs]))
    return out


def measurable_obj(at, m):
    """spec dict -> atomica Measurable"""
    t = m["t"] if len(m["t"]) == 2 else m["t"][0]
    t = [m["t"][0], np.inf] if (len(m["t"]) == 2 and m["t"][1] is None) else t
    pops = m.get("pops")
    k = m["cls"]
    if k == "Measurable":
        return at.Measurable(m["name"], t=t, pop_names=pops, weight=m["weight"])
    if k == "Minimize":
        return at.MinimizeMeasurable(m["name"], t=t, pop_names=pops)
    if k == "Maximize":
        return at.MaximizeMeasurable(m["name"], t=t, pop_names=pops)
    if k == "AtMost":
        return at.AtMostMeasurable(m["name"], t=t, threshold=m["threshold"], pop_names=pops)
    if k == "AtLeast":
        return at.AtLeastMeasurable(m["name"], t=t, threshold=m["threshold"], pop_names=pops)
    if k == "IncreaseBy":
        return at.IncreaseByMeasurable(m["name"], t=t, increase=m["amount"], pop_names=pops, target_type=m["target_type"])
    if k == "DecreaseBy":
        return at.DecreaseByMeasurable(m["name"], t=t, decrease=m["amount"], pop_names=pops, target_type=m["target_type"])
    raise ValueError(k)


def m_weight(m):
    return {"Minimize": 1.0, "Maximize": -1.0, "Measurable": m.get("weight", 1.0)}.get(m["cls"], 1.0)


def m_is_hard(m):
    return m["cls"] in ("AtMost", "AtLeast", "IncreaseBy", "DecreaseBy")


def objective_request(model, ms, baselines):
    """wire request for the Lean `objective` handler; None if some value is not finite"""
    t = np.array(model.t, dtype=float)
    nt = len(t)
    toks = ["objective", q(model.dt), str(nt)] + [q(v) for v in t] + [str(len(ms))]
    popcode = {p.name: f"p{i}" for i, p in enumerate(model.pops)}
    for m, base in zip(ms, baselines):
        k = m["cls"]
        if k in ("Measurable", "Minimize", "Maximize"):
            toks += ["plain"]
        elif k == "AtMost":
            toks += ["atmost", q(m["threshold"])]
        elif k == "AtLeast":
            toks += ["atleast", q(m["threshold"])]
        else:
            if base is None or not math.isfinite(float(base)):
                return None
            toks += [("inc" if k == "IncreaseBy" else "dec") + m["target_type"], q(m["amount"]), q(float(base))]
        toks += [q(m_weight(m))]
        if len(m["t"]) == 1:
            toks += ["at", q(m["t"][0])]
        else:
            toks += ["range", q(m["t"][0]), "inf" if m["t"][1] is None else q(m["t"][1])]
        if m.get("pops"):
            toks += ["pops", str(len(m["pops"]))] + [popcode.get(p, "zz_" + str(i)) for i, p in enumerate(m["pops"])]
        else:
            toks += ["all"]
        if m["name"] in model.progset.programs if model.progset is not None else False:
            alloc = np.array(model.progset.get_alloc(model.t, model.program_instructions)[m["name"]], dtype=float)
            if not np.all(np.isfinite(alloc)) or len(alloc) != nt:
                return None
            toks += ["prog"] + [q(v) for v in alloc]
        else:
            pv = popvars(model, m["name"])
            toks += ["vars", str(len(pv))]
            for name, vs in pv:
                if vs is None:
                    toks += [popcode[name], "0", "0"]
                    continue
                toks += [popcode[name], "1", str(len(vs))]
                for is_link, vals in vs:
                    if not np.all(np.isfinite(vals)) or len(vals) != nt:
                        return None
                    toks += ["1" if is_link else "0"] + [q(v) for v in vals]
    return " ".join(toks)


def indep_measure(model, m):
    """the documented sum, written independently of Measurable.get_objective_val (float arithmetic)"""
    t = np.array(model.t, dtype=float)
    if len(m["t"]) == 1:
        mask = t == m["t"][0]
    else:
        mask = (t >= m["t"][0]) & ((t < m["t"][1]) if m["t"][1] is not None else True)
    if model.progset is not None and m["name"] in model.progset.programs:
        alloc = np.array(model.progset.get_alloc(model.t, model.program_instructions)[m["name"]], dtype=float)
        return float(alloc[mask].sum()), float(np.abs(alloc[mask]).sum())
    total, scale, matched = 0.0, 0.0, False
    for name, vs in popvars(model, m["name"]):
        if m.get("pops"):
            if name not in m["pops"]:
                continue
            if vs is None:
                raise KeyError("notFound")
        elif vs is None:
            continue
        matched = True
        for is_link, vals in vs:
            d = model.dt if is_link else 1.0
            total += float(vals[mask].sum()) / d
            scale += float(np.abs(vals[mask]).sum()) / d
    if not matched:
        raise KeyError("notMatched")
    return total, scale


def indep_objective(model, ms, baselines):
    """returns (objective, scale, hard_status list)"""
    obj, scale, hard = 0.0, 0.0, []
    for m, base in zip(ms, baselines):
        v, s = indep_measure(model, m)
        k = m["cls"]
        if not m_is_hard(m):
            obj += m_weight(m) * v
            scale += abs(m_weight(m)) * s
            hard.append(None)
            continue
        if k == "AtMost":
            missed, margin = v > m["threshold"], abs(v - m["threshold"])
        elif k == "AtLeast":
            missed, margin = v < m["threshold"], abs(v - m["threshold"])
        elif k == "IncreaseBy":
            if m["target_type"] == "frac":
                missed, margin = bool((np.float64(v) / np.float64(base)) < (1 + m["amount"])), abs(v - base * (1 + m["amount"]))
            else:
                missed, margin = v < base + m["amount"], abs(v - base - m["amount"])
        else:
            if m["target_type"] == "frac":
                missed, margin = bool((np.float64(v) / np.float64(base)) > (1 - m["amount"])), abs(v - base * (1 - m["amount"]))
            else:
                missed, margin = v > base - m["amount"], abs(v - base + m["amount"])
        hard.append({"missed": bool(missed), "ambiguous": margin <= 1e-9 * max(s, 1.0)})
        if missed:
            obj = float("inf")
    return obj, scale, hard


def processed_model(P, parset, progset, instructions):
    res = P.run_sim(parset=parset, progset=progset, progset_instructions=instructions, store_results=False)
    return res.model


def quantity_names(P, progset):
    """names usable as Measurable quantities for this project"""
    fw = P.framework
    comps = [c for c in fw.comps.index if fw.comps.at[c, "is source"] != "y" and fw.comps.at[c, "is junction"] != "y"]
    characs = list(fw.characs.index)
    links = [p + ":flow" for p in fw.transitions.keys() if p != ">" and p in fw.pars.index]
    progs = list(progset.programs.keys()) if progset is not None else []
    return {"comps": comps, "characs": characs, "links": links, "progs": progs}


def gen_measurable(rng, names, tvec, pops, allow_hard=True, value_of=None):
    """one measurable spec; thresholds of hard targets are placed relative to the value at the reference model"""
    r = rng.random()
    group = "comps" if r < 0.35 else "characs" if r < 0.6 else "links" if r < 0.8 else "progs"
    if not names[group]:
        group = "comps"
    name = rng.choice(names[group])
    t0, t1 = float(tvec[0]), float(tvec[-1])
    grid = [float(x) for x in tvec]
    r = rng.random()
    if r < 0.3:
        tt = [rng.choice(grid)]                       # single year on the grid
    elif r < 0.35:
        tt = [rng.choice(grid) + 0.013]               # single year off the grid (empty window)
    elif r < 0.75:
        a = rng.choice(grid[:-1])
        b = rng.choice([x for x in grid if x > a] + [t1 + 5])
        tt = [a, b]
    else:
        tt = [rng.choice(grid[:-1]), None]            # open range [a, inf)
    m = {"name": name, "t": tt, "pops": None}
    if group != "progs" and len(pops) >= 1 and rng.random() < 0.3:
        k = rng.randint(1, len(pops))
        m["pops"] = sorted(rng.sample(list(pops), k))
    r = rng.random()
    if not allow_hard or r < 0.55:
        m["cls"] = rng.choice(["Measurable", "Measurable", "Minimize", "Maximize"])
        if m["cls"] == "Measurable":
            m["weight"] = rng.choice([1.0, 2.5, 0.5, -1.0, 3.0])
    else:
        m["cls"] = rng.choice(["AtMost", "AtLeast", "IncreaseBy", "DecreaseBy"])
        v = value_of(m) if value_of else 1.0
        if m["cls"] in ("AtMost", "AtLeast"):
            slack = rng.choice([0.0, 0.01, 0.2, -0.05])
            sign = 1 if m["cls"] == "AtMost" else -1
            m["threshold"] = float(v + sign * slack * max(abs(v), 1.0))
        else:
            m["target_type"] = rng.choice(["frac", "abs"])
            m["amount"] = rng.choice([0.0, 0.0, 0.05, 0.5]) if m["target_type"] == "frac" else rng.choice([0.0, 0.0, 1.0])
    return m


def run_objective(ctx):
    import atomica as at

    r = ctx.rng
    models = []
    for _ in range(ctx.n(5, 16)):
        models.append(M.gen_model_spec(r))
    for name in (M.LIB_QUICK[:3] if ctx.quick else M.LIB_THOROUGH):
        models.append({"kind": "lib", "name": name})
    models.append({"kind": "lib", "name": "combined"})   # several population types: most quantities exist only in some populations
    n_per = ctx.n(40, 80)
    reqs, meta = [], []
    for ms_ in models:
        try:
            P = M.build_project(ms_)
        except Exception as e:
            ctx.notes.append(f"model {ms_.get('name', 'gen')} not built: {type(e).__name__}: {e}"[:200])
            continue
        parset, progset = P.parsets[0], P.progsets[0]
        start_year = float(P.settings.sim_start + 2)
        ins = at.ProgramInstructions(start_year=start_year)
        model = processed_model(P, parset, progset, ins)
        # a second, different run gives the baselines of the relative targets
        ins2 = at.ProgramInstructions(start_year=start_year, alloc={k: 1.5 * v[0] for k, v in progset.get_alloc(start_year).items()})
        base_model = processed_model(P, parset, progset, ins2)
        names = quantity_names(P, progset)
        pops = [p.name for p in model.pops]

        def value_of(m, _model=model):
            try:
                return indep_measure(_model, m)[0]
            except KeyError:
                return 1.0

        # directed: a hard target on ONE population of several, with the threshold between that population's value and the value over all populations,
        # so that the verdict depends on the population selection being honoured
        directed = []
        if len(pops) >= 2:
            for cls in ("AtLeast", "AtMost"):
                for grp in ("comps", "characs"):
                    if not names[grp]:
                        continue
                    nm = r.choice(names[grp])
                    sel = [r.choice(pops)]
                    tt = [float(r.choice(list(model.t)))]
                    try:
                        v_sel = indep_measure(model, {"name": nm, "t": tt, "pops": sel})[0]
                        v_all = indep_measure(model, {"name": nm, "t": tt, "pops": None})[0]
                    except KeyError:
                        continue
                    if not (math.isfinite(v_sel) and math.isfinite(v_all)) or abs(v_all - v_sel) <= 1e-6 * max(1.0, abs(v_all)):
                        continue
                    directed.append([{"name": nm, "t": tt, "pops": sel, "cls": cls, "threshold": float(0.5 * (v_sel + v_all))}])
                    ctx.count("objective.directed_pop_threshold")
        for k_ in range(n_per + len(directed)):
            ms = directed[k_] if k_ < len(directed) else [gen_measurable(r, names, model.t, pops, value_of=value_of) for _ in range(r.choice([1, 1, 2, 3]))]
            objs = [measurable_obj(at, m) for m in ms]
            baselines = []
            for m in ms:
                if m["cls"] in ("IncreaseBy", "DecreaseBy"):
                    try:
                        baselines.append(indep_measure(base_model, m)[0])
                    except KeyError:
                        baselines.append(1.0)   # the quantity does not exist: the value is never used (error either way)
                else:
                    baselines.append(None)
            req = objective_request(model, ms, baselines)
            if req is None:
                ctx.count("objective.skipped_nonfinite")
                continue
            reqs.append(req)
            meta.append((ms_, ms, objs, baselines, model))
    reps = core.drive(reqs)
    for (mspec, ms, objs, baselines, model), rep in zip(meta, reps):
        check_objective_case(ctx, at, mspec, ms, objs, baselines, model, rep)


def impl_objective(at, objs, baselines, model):
    opt = at.Optimization(adjustments=[at.Adjustment("none")], measurables=objs)
    try:
        return "ok", float(opt.compute_objective(model, baselines))
    except at.NotFoundError as e:
        return "notFound", str(e)
    except Exception as e:
        if "not found in any populations" in str(e):
            return "notMatched", str(e)
        return "raised", f"{type(e).__name__}: {e}"


def check_objective_case(ctx, at, mspec, ms, objs, baselines, model, rep):
    t = np.array(model.t)
    key = {"api": "Optimization.compute_objective", "model": mspec.get("name", "generated"), "measurables": [{k: v for k, v in m.items()} for m in ms]}
    toks = rep.split()
    if toks[0] != "ok":
        ctx.brk("correspondence", f"driver rejected objective request: {rep[:80]}", key=key)
        return
    model_val, spec_val, cur_val = toks[1], toks[3], toks[5]
    if model_val != spec_val:
        ctx.brk("proof", f"driver: objective {model_val} != Spec.objective {spec_val} (contradicts objective_is_sum)", key=key)
    kind, val = impl_objective(at, objs, baselines, model)
    nontrivial = False
    for m in ms:
        if len(m["t"]) == 1:
            ctx.count("objective.window_single")
            sel = int(np.sum(t == m["t"][0]))
        elif m["t"][1] is None:
            ctx.count("objective.window_open")
            sel = int(np.sum(t >= m["t"][0]))
        else:
            ctx.count("objective.window_range")
            sel = int(np.sum((t >= m["t"][0]) & (t < m["t"][1])))
        if 0 < sel < len(t) or m.get("pops") or m_is_hard(m):
            nontrivial = True
        if m.get("pops"):
            ctx.count("objective.pop_selection")
        if model.progset is not None and m["name"] in model.progset.programs:
            ctx.count("objective.program_spend")
        if m["name"].endswith(":flow"):
            ctx.count("objective.link")
    ctx.case(key, nontrivial, sample={"model": key["model"], "measurables": ms, "impl": [kind, val if kind == "ok" else str(val)[:60]], "lean": model_val})
    # independent evaluation of the documented sum (the oracle)
    try:
        ind, scale, hard = indep_objective(model, ms, baselines)
        ind_kind = "ok"
    except KeyError as e:
        ind_kind, ind, scale, hard = e.args[0], None, 1.0, []
    for h in hard:
        if h:
            ctx.count("objective.hard_missed" if h["missed"] else "objective.hard_met")
    ambiguous = any(h and h["ambiguous"] for h in hard)

    def agree(kind_a, val_a, lean_tok):
        if lean_tok in ("notFound", "notMatched"):
            return kind_a == lean_tok
        if kind_a != "ok":
            return False
        if lean_tok == "inf":
            return math.isinf(val_a) and val_a > 0
        return core.close(Fraction(lean_tok), val_a, scale=scale, rtol=TOL)

    if model_val == "notMatched":
        ctx.count("objective.not_matched")
    # oracle vs model (harness self-check), then implementation vs model
    if not agree(ind_kind, ind, model_val) and not ambiguous:
        ctx.brk("correspondence", f"independent sum {ind_kind}:{ind} differs from the Lean model {model_val}", key=key)
        return
    if agree(kind, val, model_val):
        return
    if ambiguous:
        ctx.ambiguous += 1
        return
    ctx.disagreements_checked += 1
    replay = {"part": "objective", "model": mspec, "measurables": ms, "baselines": [None if b is None else float(b) for b in baselines], "lean": model_val, "impl": [kind, str(val)]}
    if agree(kind, val, cur_val):
        ctx.count("objective.current_model_matches_impl")
    if any(m.get("pops") for m in ms) and kind == "notMatched" and ind_kind in ("ok", "notFound"):
        ctx.violation({"api": "Measurable.get_objective_val", "case": "pop_names-selection-never-matches"},
                      f"Measurable({ms[0]['name']!r}, pop_names={[m.get('pops') for m in ms]}) raises '{str(val)[:70]}' although the quantity exists in the selected populations; "
                      f"documented sum over the requested populations = {ind!r}", replay)
    else:
        ctx.violation({"api": "Optimization.compute_objective", "case": "objective-is-not-the-documented-sum", "impl": kind},
                      f"compute_objective gives {kind}:{val!r}; documented sum = {ind_kind}:{ind!r} (Lean {model_val})", replay)


# ==================================================================================================================
# part 3: calibration objective (mode A)
# ==================================================================================================================
def cal_quantities(P, parset):
    """(var, pop) pairs with time-specific data, and adjustable (par, pop) pairs"""
    outs = []
    for name in list(P.framework.comps.index) + list(P.framework.characs.index):
        for pop in P.data.pops.keys():
            ts = P.data.get_ts(name, pop)
            if ts is not None and ts.has_time_data:
                outs.append((name, pop))
    adj = []
    for name, par in parset.pars.items():
        if name in P.framework.pars.index and P.framework.pars.at[name, "function"] is None or name in P.framework.comps.index:
            for pop in par.pops:
                adj.append((name, pop))
    return outs, adj


def calobj_request(P, result, output_quantities):
    toks = ["calobj"]
    body = []
    n = 0
    for var, pop, weight, metric in output_quantities:
        ts = P.data.get_ts(var, pop)
        if ts is None or not ts.has_time_data:
            continue
        data_t, data_v = ts.get_arrays()
        v = result.model.get_pop(pop).get_variable(var)[0]
        mt, mv = np.array(v.t, dtype=float), np.array(v.vals, dtype=float)
        if not np.all(np.isfinite(mv)):
            return None
        body += [q(weight), metric, str(len(data_t))] + [q(x) for x in data_v] + [q(x) for x in data_t] + [str(len(mt))] + [q(x) for x in mt] + [q(x) for x in mv]
        n += 1
    return " ".join(toks + [str(n)] + body)


def indep_calobj(P, result, output_quantities):
    """the documented calibration objective, written independently (floats)"""
    total, scale, outside = 0.0, 0.0, False
    for var, pop, weight, metric in output_quantities:
        ts = P.data.get_ts(var, pop)
        if ts is None or not ts.has_time_data:
            continue
        data_t, data_v = ts.get_arrays()
        v = result.model.get_pop(pop).get_variable(var)[0]
        mt, mv = np.array(v.t, dtype=float), np.array(v.vals, dtype=float)
        pairs = []
        for x, y in zip(data_t, data_v):
            if x < mt[0] or x > mt[-1]:
                outside = True
                continue
            if y != y:
                continue
            j = int(np.searchsorted(mt, x, side="right") - 1)
            if mt[j] == x:
                fit = mv[j]
            else:
                fit = mv[j] + (mv[j + 1] - mv[j]) * (x - mt[j]) / (mt[j + 1] - mt[j])
            pairs.append((y, fit))
        if metric == "fractional":
            s = sum(abs(f - o) / max(o, 1.0) for o, f in pairs)
        elif metric == "wape":
            mean = sum(o for o, _ in pairs) / len(pairs) if pairs else 0.0
            s = sum(abs(f - o) / (mean + 1e-6) for o, f in pairs) if pairs else 0.0
        elif metric == "meansquare":
            s = math.sqrt(sum((f - o) ** 2 for o, f in pairs) / len(pairs)) if pairs else float("nan")
        else:
            raise ValueError(metric)
        total += weight * s
        scale += abs(weight) * s
    return total, scale, outside


def apply_factors(parset, pars_to_adjust, factors):
    ps = parset.copy()
    for (par, pop, *_), f in zip(pars_to_adjust, factors):
        if pop == "all":
            ps.pars[par].meta_y_factor = f
        else:
            ps.pars[par].y_factor[pop] = f
    return ps


def run_calobj(ctx):
    import atomica as at
    from atomica import calibration

    r = ctx.rng
    models = [M.gen_model_spec(r) for _ in range(ctx.n(4, 15))]
    for name in (["udt", "hiv"] if ctx.quick else ["udt", "usdt", "hiv", "tb_simple", "hypertension", "tb"]):
        models.append({"kind": "lib", "name": name})
    reqs, meta = [], []
    for mspec in models:
        try:
            P = M.build_project(mspec)
        except Exception as e:
            ctx.notes.append(f"model not built: {e}"[:150])
            continue
        parset = P.parsets[0]
        outs, adj = cal_quantities(P, parset)
        if not outs or not adj:
            continue
        for _ in range(ctx.n(5, 12)):
            pa = [(p, pop, 0.1, 10.0) for p, pop in r.sample(adj, min(len(adj), r.choice([1, 2, 3])))]
            factors = [r.choice([1.0, 0.5, 1.7, 0.9, 3.0]) for _ in pa]
            oq = [(v, pop, r.choice([1.0, 2.0, 0.5]), r.choice(["fractional", "wape", "fractional"])) for v, pop in r.sample(outs, min(len(outs), r.choice([1, 2, 3])))]
            ps = apply_factors(parset, pa, factors)
            try:
                res = P.run_sim(parset=ps, store_results=False)
            except Exception:
                ctx.count("calobj.sim_failed")
                continue
            req = calobj_request(P, res, oq)
            if req is None:
                continue
            reqs.append(req)
            meta.append((mspec, P, parset, pa, factors, oq, res))
    reps = core.drive(reqs)
    for (mspec, P, parset, pa, factors, oq, res), rep in zip(meta, reps):
        key = {"api": "calibration._calculate_objective", "model": mspec.get("name", "generated"), "pars": [list(x[:2]) for x in pa], "factors": factors, "outputs": [list(x) for x in oq]}
        rp = {"part": "calobj", "model": mspec, "pars": [list(x) for x in pa], "factors": factors, "outputs": [list(x) for x in oq]}
        for x in oq:
            ctx.count("calobj." + x[3])
        try:
            impl = float(calibration._calculate_objective(np.array(factors), pa, oq, parset.copy(), P))
        except Exception as e:
            ctx.violation({"api": "calibration._calculate_objective", "case": "raises", "exc": type(e).__name__}, f"_calculate_objective raised {type(e).__name__}: {e}", rp)
            continue
        ind, scale, outside = indep_calobj(P, res, oq)
        if outside:
            ctx.count("calobj.data_outside_sim")
        ctx.case(key, nontrivial=impl > 0, sample={**key, "impl": impl})
        toks = rep.split()
        if toks[0] != "ok":
            ctx.brk("correspondence", f"calobj: driver replied {rep[:60]}", key=key)
            continue
        lean = Fraction(toks[1])
        if not core.close(lean, ind, scale=scale, rtol=TOL):
            ctx.brk("correspondence", f"calobj: independent sum {ind!r} differs from the Lean model {float(lean)!r}", key=key)
            continue
        if not core.close(lean, impl, scale=scale, rtol=TOL):
            ctx.disagreements_checked += 1
            ctx.violation({"api": "calibration._calculate_objective", "case": "objective-is-not-the-documented-sum"},
                          f"_calculate_objective = {impl!r}, documented sum of weight*metric over data points = {ind!r}", {**rp, "impl": impl, "lean": float(lean)})


# ==================================================================================================================
# part 4: problems (mode E)
# ==================================================================================================================
class OptimIns:
    """what Project.run_optimization expects in project.optims (the former OptimInstructions interface)"""

    def __init__(self, name, spec):
        self.name = name
        self.spec = spec
        self.json = {"end_year": spec["end_year"], "optim_type": "outcome"}

    def make(self, project):
        import atomica as at

        optimization, instructions = build_optimization(at, project, self.spec)
        optimization.parsetname = project.parsets[0].name
        optimization.progsetname = project.progsets[0].name
        return optimization, instructions


def build_optimization(at, P, spec):
    progset = P.progsets[0]
    alloc = spec.get("alloc")
    ins = at.ProgramInstructions(alloc=alloc if alloc is not None else progset, start_year=spec["start_year"])
    adjs = []
    for a in spec["adjustments"]:
        adjs.append(at.SpendingAdjustment(a["prog"], a["t"], a["limit"], a["lower"], np.inf if a["upper"] is None else a["upper"], initial=a.get("initial")))
    meas = [measurable_obj(at, m) for m in spec["measurables"]]
    cons = None
    if spec.get("constraint") is not None:
        c = spec["constraint"]
        cons = at.TotalSpendConstraint(total_spend=c.get("total_spend"), t=c.get("t"), budget_factor=c.get("budget_factor", 1.0))
    opt = at.Optimization(name="c15", adjustments=adjs, measurables=meas, constraints=cons, maxiters=spec["maxiters"], maxtime=spec.get("maxtime"))
    return opt, ins


def gen_optimize_spec(ctx, mspec, via_project=False, force=None):
    import atomica as at

    r = ctx.rng
    P = M.build_project(mspec)
    progset, parset = P.progsets[0], P.parsets[0]
    tvec = P.settings.tvec
    start_year = float(tvec[min(len(tvec) - 2, max(1, int(round(3 / P.settings.sim_dt))))])
    progs = list(progset.programs.keys())
    chosen = r.sample(progs, min(len(progs), r.choice([2, 2, 3, 4])))
    years = [start_year] if r.random() < 0.75 else [start_year, float(tvec[min(len(tvec) - 1, list(tvec).index(start_year) + int(round(2 / P.settings.sim_dt)))])]
    years = sorted(set(years))
    alloc0 = progset.get_alloc(np.array(years))
    adjs = []
    for p in chosen:
        limit = r.choice(["abs", "rel", "rel"])
        if limit == "abs":
            hi = float(max(alloc0[p]) * r.choice([1.5, 3.0, 10.0]) + r.choice([0.0, 100.0]))
            lo = r.choice([0.0, 0.0, float(min(alloc0[p])) * 0.5])
            adjs.append({"prog": p, "t": years, "limit": "abs", "lower": lo, "upper": hi if r.random() < 0.8 else None})
        else:
            adjs.append({"prog": p, "t": years, "limit": "rel", "lower": r.choice([0.0, 0.5, 1.0]), "upper": r.choice([1.0, 1.5, 2.0, None])})
    names = quantity_names(P, progset)
    ins = at.ProgramInstructions(alloc=progset, start_year=start_year)
    model = processed_model(P, parset, progset, ins)
    pops = [p.name for p in model.pops]

    def value_of(m):
        try:
            return indep_measure(model, m)[0]
        except KeyError:
            return 1.0

    def exists(n):
        try:
            indep_measure(model, {"name": n, "t": [float(tvec[0]), None], "pops": None})
            return True
        except KeyError:
            return False

    names = {g: [n for n in v if g == "progs" or exists(n)] for g, v in names.items()}
    names_soft = dict(names, progs=[])
    tail = [float(x) for x in tvec if x >= start_year]
    ms = []
    soft = gen_measurable(r, names_soft, tail, pops, allow_hard=False)
    if soft["cls"] == "Measurable" and soft.get("weight", 1.0) == 0:
        soft["weight"] = 1.0
    ms.append(soft)
    if r.random() < 0.6 or force == "hard":
        m2 = gen_measurable(r, names, tail, pops, allow_hard=True, value_of=value_of)
        if force == "hard":
            while not m_is_hard(m2) or m2.get("pops"):
                m2 = gen_measurable(r, names, tail, pops, allow_hard=True, value_of=value_of)
        ms.append(m2)
    if force == "invalid":
        ms.append({"cls": "IncreaseBy", "name": soft["name"], "t": soft["t"], "pops": None, "target_type": "frac", "amount": 0.5})
    if r.random() < 0.15:
        ms.append(gen_measurable(r, names_soft, tail, pops, allow_hard=False))
    cons = None
    rr = r.random()
    if rr < 0.6:
        cons = {}
    elif rr < 0.75:
        cons = {"t": [years[0]]}
    elif rr < 0.85:
        cons = {"budget_factor": r.choice([0.9, 1.1])}
    spec = {"kind": "optimize", "via_project": via_project, "model": mspec, "start_year": start_year, "end_year": float(tvec[-1]) if r.random() < (0.2 if via_project else 0.5) else float(tvec[-1] - round(1 / P.settings.sim_dt) * P.settings.sim_dt),
            "adjustments": adjs, "measurables": ms, "constraint": cons, "maxiters": r.choice([1, 2, 3, 6, 10, 15, 25, 40] if not ctx.quick else [1, 4, 8, 12, 16]),
            "maxtime": 0.0 if (r.random() < 0.08 or force == "maxtime") else None, "seed": r.randint(0, 10**6)}
    if force in ("hard", "invalid", "nopops"):
        for m in spec["measurables"]:
            m["pops"] = None
    return spec


def gen_calibrate_spec(ctx, mspec, force=None):
    r = ctx.rng
    P = M.build_project(mspec)
    parset = P.parsets[0]
    outs, adj = cal_quantities(P, parset)
    if not outs or not adj:
        return None
    pa = []
    for p, pop in r.sample(adj, min(len(adj), r.choice([1, 2, 3, 4]))):
        rr = r.random()
        if rr < 0.12:
            lo, hi = r.choice([(1.2, 3.0), (0.1, 0.8)])      # start (y_factor 1) outside the bounds
        elif rr < 0.3:
            lo, hi = r.choice([(1.0, 2.0), (0.5, 1.0)])      # start exactly on a bound
        else:
            lo, hi = r.choice([(0.1, 10.0), (0.5, 2.0), (0.8, 1.25)])
        pa.append([p, pop if r.random() < 0.85 else None, lo, hi])
    if force == "outside":
        pa[0][2], pa[0][3] = 1.2, 3.0
        if len(pa) > 1:
            pa[-1][2], pa[-1][3] = 0.1, 0.8
    if r.random() < 0.15:
        pa.append([r.choice(adj)[0], "all", 0.5, 2.0])
    seen, pa2 = set(), []
    for x in pa:
        if (x[0], x[1]) not in seen:
            seen.add((x[0], x[1]))
            pa2.append(x)
    oq = []
    for v, pop in r.sample(outs, min(len(outs), r.choice([1, 2, 3]))):
        oq.append([v, pop if r.random() < 0.8 else None, r.choice([1.0, 2.0, 0.5]), r.choice(["fractional", "fractional", "wape", "meansquare"] if r.random() < 0.5 else ["fractional", "wape"])])
    if force == "meansquare":
        oq[0][3] = "meansquare"
    return {"kind": "calibrate", "via_project": r.random() < 0.4, "model": mspec, "pars": pa2, "outputs": oq, "maxiters": r.choice([1, 2, 3, 6, 10, 15, 25, 40] if not ctx.quick else [1, 4, 8, 12, 16]),
            "max_time": 0.0 if (r.random() < 0.08 or force == "maxtime") else 30, "seed": r.randint(0, 10**6), "stepsize": r.choice([0.1, 0.3])}


def gen_reconcile_spec(ctx, mspec, force=None):
    r = ctx.rng
    if force == "capacity":
        return {"kind": "reconcile", "model": mspec, "year": 2018.0, "unit_cost_bounds": 0.5, "baseline_bounds": 0.0, "outcome_bounds": 0.0, "capacity_bounds": r.choice([0.02, 0.05]),
                "eval_range": None, "maxiters": r.choice([5, 10]), "seed": r.randint(0, 10**6)}
    return {"kind": "reconcile", "model": mspec, "year": 2018.0, "unit_cost_bounds": r.choice([0.1, 0.2, 0.5]), "baseline_bounds": r.choice([0.0, 0.2]),
            "outcome_bounds": r.choice([0.0, 0.3]), "capacity_bounds": [0.0, 0.02, 0.3][(r.randint(0, 10**6)) % 3], "eval_range": None if r.random() < 0.6 else [2018.0, 2020.0],
            "maxiters": r.choice([2, 5, 10, 20]), "seed": r.randint(0, 10**6)}


def expand_cal(P, parset, spec):
    """the expansion of pop=None that calibrate() performs (for the independent objective)"""
    pa = []
    for par, pop, lo, hi in spec["pars"]:
        if pop is None:
            for pn in parset.pars[par].pops:
                pa.append((par, pn, lo, hi))
        else:
            pa.append((par, pop, lo, hi))
    oq = []
    for v, pop, w, metric in spec["outputs"]:
        if pop is None:
            for pn in P.data.pops.keys():
                oq.append((v, pn, w, metric))
        else:
            oq.append((v, pop, w, metric))
    return pa, oq


def api_name(spec):
    if spec.get("via_project"):
        return {"optimize": "Project.run_optimization", "calibrate": "Project.calibrate"}.get(spec["kind"], spec["kind"])
    return spec["kind"]


def run_problem(spec, crash=None):
    """
    Run one problem on a freshly built project.  `crash` = (target, k): raise Injected at the k-th call of the target.
    Returns a dict with: status ('ok' | exception class name), exc, caller changes, sims, asd records, results.
    """
    import atomica as at
    from atomica import model as atmodel
    from atomica.programs import ProgramSet

    P = M.build_project(spec["model"])
    parset, progset = P.parsets[0], P.progsets[0]
    kind = spec["kind"]
    out = {"kind": kind}
    target = crash[0] if crash else "sim"
    cls, attr = (atmodel.Model, "process") if target == "sim" else (ProgramSet, "get_outcomes")
    k = crash[1] if crash else None
    instructions = optimization = None
    if kind == "optimize":
        if spec.get("via_project"):
            P.optims["c15"] = OptimIns("c15", spec)
            optimization, instructions = None, None
        else:
            optimization, instructions = build_optimization(at, P, spec)
    caller = Caller(P, parset, progset, instructions, optimization)
    spy = AsdSpy(inject={"randseed": spec["seed"]} if kind != "reconcile" else {"randseed": spec["seed"], "maxiters": spec["maxiters"]})
    spy.settings_probe = lambda: float(P.settings.sim_end)
    result = None
    with CrashAt(cls, attr, k) as ca, spy:
        try:
            if kind == "optimize" and spec["via_project"]:
                result = P.run_optimization("c15", maxiters=spec["maxiters"], maxtime=spec.get("maxtime"), store_results=False)
            elif kind == "optimize":
                result = at.optimize(P, optimization, parset=parset, progset=progset, instructions=instructions, optim_args={"randseed": spec["seed"]})
            elif kind == "calibrate":
                pars = [tuple(x) for x in spec["pars"]]
                outs = [tuple(x) for x in spec["outputs"]]
                if spec.get("via_project"):
                    result = P.calibrate(parset=parset, adjustables=pars, measurables=outs, max_time=spec["max_time"], maxiters=spec["maxiters"], stepsize=spec["stepsize"])
                else:
                    result = at.calibrate(P, parset, pars, outs, max_time=spec["max_time"], maxiters=spec["maxiters"], stepsize=spec["stepsize"])
            elif kind == "reconcile":
                result = at.reconcile(P, parset, progset, spec["year"], max_time=30, unit_cost_bounds=spec["unit_cost_bounds"], baseline_bounds=spec["baseline_bounds"],
                                      capacity_bounds=spec["capacity_bounds"], outcome_bounds=spec["outcome_bounds"], eval_range=spec["eval_range"])
            out["status"] = "ok"
        except Injected as e:
            out["status"] = "Injected"
            out["exc"] = str(e)
        except Exception as e:
            out["status"] = type(e).__name__
            out["exc"] = str(e)[:200]
            out["tb"] = traceback.format_exc()[-600:]
    out["calls"] = ca.calls
    out["fired"] = ca.fired
    out["changes"] = caller.changes()
    out["records"] = spy.records
    out["result"] = result
    out["P"], out["parset"], out["progset"], out["instructions"], out["optimization"] = P, parset, progset, instructions, optimization
    return out


def bounds_of_adjustments(at, P, spec, progset, ins0):
    """(prog, t) -> (lo, hi) on the spending in the returned instructions"""
    out = {}
    for a in spec["adjustments"]:
        for i, t in enumerate(a["t"]):
            x0 = a.get("initial") if a.get("initial") is not None else progset.get_alloc(np.array([t]), ins0)[a["prog"]][0]
            lo = a["lower"] if a["limit"] == "abs" else x0 * a["lower"]
            hi = (np.inf if a["upper"] is None else a["upper"]) if a["limit"] == "abs" else (np.inf if a["upper"] is None else x0 * a["upper"])
            out[(a["prog"], t)] = (lo, hi, x0)
    return out


def check_reference(ctx, spec, ref):
    """all oracles on a run without injected failure"""
    import atomica as at

    kind = spec["kind"]
    api = api_name(spec)
    key = {"api": api, "model": spec["model"].get("name", "generated"), "seed": spec["seed"]}
    replay = {"part": "problem", "spec": spec}
    P, parset, progset = ref["P"], ref["parset"], ref["progset"]
    status = ref["status"]
    accepted = 0
    # --- caller objects
    for where, d in ref["changes"]:
        if where == "project.results" and api == "Project.run_optimization":
            continue
        if where == "project.settings" and status != "ok":
            ctx.violation({"api": api, "case": "sim_end-not-restored-after-exception", "where": where}, f"{api}: {d} after a run that ended with {status}: {ref.get('exc', '')[:80]}", replay)
            continue
        ctx.violation({"api": api, "case": "caller-object-changed", "where": where, "when": "normal-run" if status == "ok" else status},
                      f"{api}: {d} after a run that ended with {status}", replay)
    # --- expected ways of not finishing
    if status != "ok":
        if kind == "optimize" and status in ("InvalidInitialConditions", "Exception") and ("initialization" in ref.get("exc", "") or "optimization target" in ref.get("exc", "") or "initial value" in ref.get("exc", "")):
            ctx.count("problem.invalid_initial")
            return key, 0
        if status == "Exception" and "not found in any populations" in ref.get("exc", "") and any(m.get("pops") for m in spec.get("measurables", [])):
            ctx.violation({"api": "Measurable.get_objective_val", "case": "pop_names-selection-never-matches"},
                          f"{api} with a Measurable restricted to populations {[m.get('pops') for m in spec['measurables'] if m.get('pops')]} raises '{ref['exc'][:80]}'", replay)
            return key, 0
        if kind == "calibrate" and status == "TypeError" and any(o[3] == "meansquare" for o in spec["outputs"]):
            ctx.violation({"api": "calibrate", "case": "metric-meansquare-raises"},
                          f"calibrate with the documented metric 'meansquare' raises TypeError: {ref['exc'][:80]}", replay)
            return key, 0
        if kind == "calibrate" and ref["calls"] == 0 and not ref["records"]:
            pa, _ = expand_cal(P, parset, spec)
            outside = [(par, pop) for par, pop, lo, hi in pa if not (lo <= (parset.pars[par].meta_y_factor if pop == "all" else parset.pars[par].y_factor[pop]) <= hi)]
            if outside:
                ctx.count("problem.calibrate_start_outside_refused")   # refusing to start is consistent with the property (as optimize does)
                return key, 0
        if kind == "reconcile" and status == "ValueError" and "cannot be zero" in ref.get("exc", ""):
            ctx.count("problem.reconcile_nothing_to_adjust")
            return key, 0
        if status in ("UnresolvableConstraint",):
            ctx.count("problem.unresolvable_constraint")
            return key, 0
        ctx.violation({"api": api, "case": "unexpected-exception", "exc": status}, f"{api} raised {status}: {ref.get('exc', '')[:150]}", {**replay, "tb": ref.get("tb")})
        return key, 0
    # --- the trace through the accept-loop model
    recs = ref["records"]
    if len(recs) != 1:
        ctx.brk("correspondence", f"{api}: expected exactly one sc.asd call, saw {len(recs)}", key=key)
        return key, 0
    rec = recs[0]
    tr = check_asd_trace(ctx, rec, key, replay)
    accepted = tr["accepted"] if tr else 0
    f0 = float(rec["log"][0][1])
    fbest = rec["fval"]
    if not (fbest <= f0):
        ctx.violation({"api": api, "case": "objective-worse-than-start"}, f"{api}: asd returned f={fbest!r} > f(start)={f0!r}", replay)
    if kind == "optimize":
        check_optimize_result(ctx, at, spec, ref, rec, api, key, replay)
    elif kind == "calibrate":
        check_calibrate_result(ctx, at, spec, ref, rec, api, key, replay)
    elif kind == "reconcile":
        new_progset = ref["result"][0]
        if new_progset is progset:
            ctx.violation({"api": api, "case": "returns-caller-object"}, "reconcile returned the caller's ProgramSet object", replay)
        lo, hi = rec["xmin"], rec["xmax"]
        if np.all(rec["x0"] >= lo) and np.all(rec["x0"] <= hi) and not (np.all(rec["x"] >= lo - 1e-12) and np.all(rec["x"] <= hi + 1e-12)):
            ctx.violation({"api": api, "case": "value-outside-bounds"}, f"reconcile: x={rec['x'].tolist()} outside [{lo.tolist()}, {hi.tolist()}]", replay)
        # the bounds as the CALLER gave them (each a fraction of the original value), stated independently of the box the library handed to the optimiser
        bad = []
        yr = spec["year"]
        def frac_ok(new, old, b):
            lo_, hi_ = sorted([old * (1 - b), old * (1 + b)])
            return lo_ - 1e-9 * max(1.0, abs(old)) <= new <= hi_ + 1e-9 * max(1.0, abs(old))
        for nm, prog0 in progset.programs.items():
            prog1 = new_progset.programs[nm]
            for attr, b in (("unit_cost", spec["unit_cost_bounds"]), ("capacity_constraint", spec["capacity_bounds"])):
                ts0, ts1 = getattr(prog0, attr), getattr(prog1, attr)
                if not ts0.has_data or not ts1.has_data:
                    continue
                old = float(ts0.interpolate(np.array([yr]), method="previous")[0]); new = float(ts1.interpolate(np.array([yr]), method="previous")[0])
                if attr == "capacity_constraint":
                    ctx.count("reconcile.capacity_constraint_present")
                if not frac_ok(new, old, b or 0.0):
                    bad.append(f"{attr} of {nm}: {old!r} -> {new!r} (bound +-{b})")
        for kk, c0 in progset.covouts.items():
            c1 = new_progset.covouts[kk]
            if not frac_ok(float(c1.baseline), float(c0.baseline), spec["baseline_bounds"] or 0.0):
                bad.append(f"baseline of {kk}: {float(c0.baseline)!r} -> {float(c1.baseline)!r} (bound +-{spec['baseline_bounds']})")
            for pn, o0 in c0.progs.items():
                if not frac_ok(float(c1.progs[pn]), float(o0), spec["outcome_bounds"] or 0.0):
                    bad.append(f"outcome of {pn} on {kk}: {float(o0)!r} -> {float(c1.progs[pn])!r} (bound +-{spec['outcome_bounds']})")
        # ... and the box handed to the optimiser must be exactly those bounds (as a multiset of (start, lower, upper): the order of the quantities is the library's business)
        want = []
        for nm, prog0 in progset.programs.items():
            for attr, b in (("unit_cost", spec["unit_cost_bounds"]), ("capacity_constraint", spec["capacity_bounds"])):
                ts0 = getattr(prog0, attr)
                if b and ts0.has_data:
                    v0 = float(ts0.interpolate(np.array([yr]), method="previous")[0])
                    want.append((v0, v0 * (1 - b), v0 * (1 + b)))
        for kk, c0 in progset.covouts.items():
            if spec["baseline_bounds"]:
                want.append((float(c0.baseline), float(c0.baseline) * (1 - spec["baseline_bounds"]), float(c0.baseline) * (1 + spec["baseline_bounds"])))
            if spec["outcome_bounds"]:
                for pn, o0 in c0.progs.items():
                    want.append((float(o0), float(o0) * (1 - spec["outcome_bounds"]), float(o0) * (1 + spec["outcome_bounds"])))
        got = sorted(zip(rec["x0"].tolist(), rec["xmin"].tolist(), rec["xmax"].tolist())) if rec.get("xmin") is not None and rec.get("xmax") is not None else None
        if got is not None and len(got) == len(want):
            ctx.count("reconcile.box_compared")
            for (a0, a1, a2), (b0, b1, b2) in zip(got, sorted(want)):
                if max(abs(a0 - b0), abs(a1 - b1), abs(a2 - b2)) > 1e-9 * max(1.0, abs(b0)):
                    bad.append(f"the optimiser was given the box ({a1!r}, {a2!r}) around {a0!r}; the caller's bounds give ({b1!r}, {b2!r}) around {b0!r}")
                    break
        if bad:
            ctx.violation({"api": api, "case": "value-outside-the-callers-bounds"}, "reconcile moved a quantity further than the bound given for it: " + "; ".join(bad[:3]), replay)
    return key, accepted


def check_optimize_result(ctx, at, spec, ref, rec, api, key, replay):
    P, parset, progset = ref["P"], ref["parset"], ref["progset"]
    if spec.get("via_project"):
        unopt_res, opt_res = ref["result"]
        ins_end = opt_res.model.program_instructions
        _, ins0 = build_optimization(at, P, spec)
    else:
        ins_end = ref["result"]
        ins0 = ref["instructions"]
        if ins_end is ins0:
            ctx.violation({"api": api, "case": "returns-caller-object"}, "optimize returned the caller's ProgramInstructions object", replay)
    ms = spec["measurables"]
    if spec.get("constraint") is not None:
        ctx.count("problem.total_spend_constraint")
    if any(m_is_hard(m) for m in ms):
        ctx.count("problem.hard_target")
    # the simulations are re-run here with the end year the optimisation used
    P2 = M.build_project(spec["model"])
    if spec["via_project"]:
        P2.settings.sim_end = spec["end_year"]
    try:
        m_start = processed_model(P2, P2.parsets[0], P2.progsets[0], ins0)
        m_end = processed_model(P2, P2.parsets[0], P2.progsets[0], ins_end)
        baselines = []
        for m in ms:
            baselines.append(indep_measure(m_start, m)[0] if m["cls"] in ("IncreaseBy", "DecreaseBy") else None)
        o_start, s_start, h_start = indep_objective(m_start, ms, baselines)
        o_end, s_end, h_end = indep_objective(m_end, ms, baselines)
    except KeyError as e:
        ctx.brk("correspondence", f"{api}: independent objective could not be evaluated ({e})", key=key)
        return
    scale = max(s_start, s_end, 1e-300)
    f0, fbest = float(rec["log"][0][1]), rec["fval"]
    ambiguous = any(h and h["ambiguous"] for h in h_start + h_end)
    identity = all(a.get("initial") is None for a in spec["adjustments"]) and not (spec.get("constraint") or {}).get("budget_factor") and not (spec.get("constraint") or {}).get("total_spend")
    # (a) what asd reported for the end is the documented objective of the returned instructions
    if not _close_obj(o_end, fbest, scale) and not ambiguous:
        ctx.disagreements_checked += 1
        ctx.violation({"api": api, "case": "reported-objective-differs-from-documented-sum", "which": "end"},
                      f"{api}: objective of the returned instructions recomputed from the Result = {o_end!r}, value asd kept = {fbest!r}", replay)
    if identity and not _close_obj(o_start, f0, scale) and not ambiguous:
        ctx.disagreements_checked += 1
        ctx.violation({"api": api, "case": "reported-objective-differs-from-documented-sum", "which": "start"},
                      f"{api}: objective of the initial instructions recomputed from the Result = {o_start!r}, first evaluation = {f0!r}", replay)
    # (b) no worse than the start
    ref_start = o_start if identity else f0
    if not (o_end <= ref_start + TOL * scale) and not ambiguous:
        ctx.violation({"api": api, "case": "objective-worse-than-start"}, f"{api}: objective(end)={o_end!r} > objective(start)={ref_start!r}", replay)
    # (c) hard targets met at the start are met at the end
    for m, hs, he in zip(ms, h_start, h_end):
        if hs and not hs["missed"] and he["missed"] and not (hs["ambiguous"] or he["ambiguous"]) and identity:
            ctx.violation({"api": api, "case": "hard-target-lost"}, f"{api}: {m['cls']}({m['name']}) met at the start, missed at the end", replay)
    # (d) adjusted values within the bounds given
    for (prog, t), (lo, hi, x0) in bounds_of_adjustments(at, P2, spec, P2.progsets[0], ins0).items():
        v = float(ins_end.alloc[prog].get(t))
        tol = 1e-9 * max(abs(lo), abs(hi) if math.isfinite(hi) else 0.0, abs(v), 1.0)
        if not (lo - tol <= v <= hi + tol):
            ctx.violation({"api": api, "case": "value-outside-bounds"}, f"{api}: spending on {prog} in {t} = {v!r} outside [{lo!r}, {hi!r}]", replay)
    # (e) settings during the optimisation (run_optimization shortens/extends the end year on purpose) and after
    if spec["via_project"] and rec.get("in_settings") is not None:
        want = spec["end_year"]
        if abs(rec["in_settings"] - want) > 1e-9:
            ctx.brk("correspondence", f"run_optimization: end year during optimisation {rec['in_settings']} != requested {want}", key=key)


def _close_obj(a, b, scale):
    if math.isinf(a) or math.isinf(b):
        return a == b
    return abs(a - b) <= TOL * max(scale, abs(a), abs(b), 1e-300)


def check_calibrate_result(ctx, at, spec, ref, rec, api, key, replay):
    P, parset = ref["P"], ref["parset"]
    new = ref["result"]
    if new is parset:
        ctx.violation({"api": api, "case": "returns-caller-object"}, "calibrate returned the caller's ParameterSet object", replay)
    shared = [n for n in parset.pars if new.pars[n] is parset.pars[n]]
    if shared:
        ctx.violation({"api": api, "case": "result-shares-parameters-with-caller"}, f"calibrated parset shares Parameter objects {shared[:3]} with the caller's parset", replay)
    pa, oq = expand_cal(P, parset, spec)
    # bounds
    x0_inside = True
    for (par, pop, lo, hi), x0v in zip(pa, rec["x0"]):
        if not (lo <= x0v <= hi):
            x0_inside = False
    ctx.count("problem.calibrate_start_inside" if x0_inside else "problem.calibrate_start_outside")
    for par, pop, lo, hi in pa:
        v = new.pars[par].meta_y_factor if pop == "all" else new.pars[par].y_factor[pop]
        if not (lo <= v <= hi):
            if not x0_inside:
                ctx.violation({"api": "calibrate", "case": "start-outside-bounds-not-projected"},
                              f"calibrate: y_factor of {par}/{pop} = {v!r} after calibration, bounds given [{lo}, {hi}] (the initial value 1.0 lies outside and is never projected)", replay)
            else:
                ctx.violation({"api": "calibrate", "case": "value-outside-bounds"}, f"calibrate: y_factor of {par}/{pop} = {v!r} outside [{lo}, {hi}]", replay)
            break
    # objective recomputed independently from Results (full-length simulations)
    oq_used = oq
    P2 = M.build_project(spec["model"])
    try:
        r_start = P2.run_sim(parset=P2.parsets[0], store_results=False)
        r_end = P2.run_sim(parset=new, store_results=False)
    except Exception as e:
        ctx.notes.append(f"calibrate re-run failed: {e}"[:100])
        return
    o_start, s_start, _ = indep_calobj(P2, r_start, oq_used)
    o_end, s_end, _ = indep_calobj(P2, r_end, oq_used)
    scale = max(s_start, s_end, 1e-300)
    f0, fbest = float(rec["log"][0][1]), rec["fval"]
    if not _close_obj(o_start, f0, scale):
        ctx.disagreements_checked += 1
        ctx.violation({"api": api, "case": "reported-objective-differs-from-documented-sum", "which": "start"}, f"calibrate: objective of the caller's parset recomputed = {o_start!r}, first evaluation = {f0!r}", replay)
    if not _close_obj(o_end, fbest, scale):
        ctx.disagreements_checked += 1
        ctx.violation({"api": api, "case": "reported-objective-differs-from-documented-sum", "which": "end"}, f"calibrate: objective of the returned parset recomputed = {o_end!r}, value asd kept = {fbest!r}", replay)
    if not (o_end <= o_start + TOL * scale):
        ctx.violation({"api": api, "case": "objective-worse-than-start"}, f"calibrate: objective(end)={o_end!r} > objective(start)={o_start!r}", replay)
    if rec.get("in_settings") is not None:
        want = min(float(P2.data.tvec[-1]), float(P2.settings.sim_end))
        if rec["in_settings"] > float(P2.settings.sim_end) + 1e-9:
            ctx.brk("correspondence", f"calibrate: end year during calibration {rec['in_settings']} beyond the project's {P2.settings.sim_end}", key=key)
        elif abs(rec["in_settings"] - want) < 1e-9 and want < float(P2.settings.sim_end):
            ctx.count("problem.calibrate_shortened_end_year")


def crash_points(ctx, n, quick_cap):
    if n <= quick_cap or not ctx.quick:
        return list(range(1, n + 1)) if n <= 60 else sorted(set(list(range(1, 21)) + ctx.rng.sample(range(21, n + 1), 30) + [n]))
    pts = {1, 2, 3, n - 1, n}
    while len(pts) < quick_cap:
        pts.add(ctx.rng.randint(1, n))
    return sorted(p for p in pts if p >= 1)


def run_one_problem(ctx, spec, verdicts):
    kind = spec["kind"]
    api = api_name(spec)
    ctx.count("problem." + {"Project.run_optimization": "run_optimization", "Project.calibrate": "project_calibrate"}.get(api, kind))
    if spec.get("maxtime") == 0.0 or spec.get("max_time") == 0.0:
        ctx.count("problem.maxtime_zero")
    ref = run_problem(spec)
    key, accepted = check_reference(ctx, spec, ref)
    n_sims = ref["calls"]
    ctx.case({**key, "spec": spec}, nontrivial=accepted > 0, sample={"api": api, "model": key["model"], "status": ref["status"], "sims": n_sims, "accepted": accepted,
                                                                      "evals": len(ref["records"][0]["log"]) if ref["records"] else 0})
    # --- crash injection: at every simulation of the reference run (reconcile: also at every progset outcome evaluation)
    targets = [("sim", n_sims)]
    if kind == "reconcile":
        from atomica.programs import ProgramSet
        with CrashAt(ProgramSet, "get_outcomes", None) as cnt:
            run_problem(spec)
        targets.append(("outcomes", cnt.calls))
    skname = "runOptimization" if api == "Project.run_optimization" else kind
    predicted_leak = verdicts.get(skname, {}).get("restores") is False
    leak_seen = False
    for target, n in targets:
        for k in crash_points(ctx, n, ctx.n(10, 10**6)):
            out = run_problem(spec, crash=(target, k))
            ctx.evaluations += 1
            if not out["fired"]:
                # the run ended before reaching the k-th call (non-deterministic budget, e.g. maxtime): nothing to check
                ctx.count("crash.not_reached")
                continue
            n_rec = len(out["records"])
            n_eval = len(out["records"][0]["log"]) if n_rec else 0
            where = "before_asd" if n_rec == 0 else ("during_asd" if "x" not in out["records"][0] else "after_asd")
            ctx.count("crash." + where)
            ctx.nontrivial_keys.add(f"crash:{api}:{key['model']}:{spec['seed']}:{target}:{k}"[:64]) if k > 1 else None
            if out["status"] != "Injected":
                # the injected exception was swallowed or replaced
                if out["status"] == "ok":
                    ctx.violation({"api": api, "case": "injected-failure-swallowed"}, f"{api}: exception injected at {target} #{k} did not propagate (run returned normally)", {"part": "crash", "spec": spec, "crash": [target, k]})
                else:
                    ctx.count("crash.replaced_by_" + out["status"])
            for w, d in out["changes"]:
                if w == "project.results":
                    continue
                leak_seen = leak_seen or w == "project.settings"
                case = "sim_end-not-restored-after-exception" if w == "project.settings" else "caller-object-changed-after-exception"
                ctx.violation({"api": api, "case": case, "where": w},
                              f"{api}: exception at {target} #{k} of {n} ({where.replace('_', ' ')}): {d}", {"part": "crash", "spec": spec, "crash": [target, k]})
    visible = api != "Project.run_optimization" or abs(spec["end_year"] - float(M.build_project(spec["model"]).settings.sim_end)) > 1e-9
    if predicted_leak and not leak_seen and n_sims > 0 and visible:
        ctx.brk("correspondence", f"skeleton of {skname} predicts a settings leak on exception but none of the {n_sims} crash points leaked", key=key)
    if leak_seen and not predicted_leak:
        ctx.brk("correspondence", f"settings leaked on exception in {api} but the skeleton {skname} was accepted by the static check", key=key)


def problem_specs(ctx):
    """(kind, model spec, via Project.run_optimization, forced feature)"""
    r = ctx.rng
    specs = []
    n_gen = ctx.n(8, 22)
    gens = [M.gen_model_spec(r) for _ in range(n_gen)]
    libs = [{"kind": "lib", "name": n} for n in (["udt", "hiv", "tb_simple"] if ctx.quick else ["udt", "usdt", "hiv", "tb_simple", "hypertension", "hiv_dyn", "hypertension_dyn", "tb_simple_dyn", "tb"])]
    forced = ["hard", "invalid", "maxtime", "nopops", "hard", None, "nopops", None]
    for i, ms in enumerate(gens):
        f = forced[i % len(forced)]
        specs.append(("optimize", ms, False, f))
        specs.append(("calibrate", ms, False, {5: "maxtime", 2: "outside", 3: "meansquare"}.get(i % 8)))
        if i % 3 == 0 or not ctx.quick:
            specs.append(("optimize", ms, True, "nopops" if i % 2 == 0 else None))
        if i % 3 == 1 or not ctx.quick:
            specs.append(("reconcile", ms, False, None))
        if not ctx.quick:
            specs.append(("calibrate", ms, False, None))
    for i, ms in enumerate(libs):
        specs.append(("optimize", ms, i % 2 == 0, "nopops"))
        specs.append(("calibrate", ms, False, None))
        if ms["name"] in ("tb_simple", "udt", "hypertension_dyn") and (not ctx.quick or i == 0):
            specs.append(("reconcile", ms, False, None))
    # directed: a program whose capacity constraint binds, reconciled with a capacity bound that differs from the unit-cost bound
    capped = [ms for ms in gens if any(d.get("capacity") is not None for d in ms.get("progs", {}).values())]
    for ms in capped[: (1 if ctx.quick else 4)]:
        specs.append(("reconcile", ms, False, "capacity"))
    return specs


def run_problems(ctx, verdicts):
    for kind, mspec, via, force in problem_specs(ctx):
        if mspec.get("name") == "tb" and kind != "calibrate":
            mspec = dict(mspec, end=2025.0)
        try:
            if kind == "optimize":
                spec = gen_optimize_spec(ctx, mspec, via_project=via, force=force)
            elif kind == "calibrate":
                spec = gen_calibrate_spec(ctx, mspec, force=force)
            else:
                spec = gen_reconcile_spec(ctx, mspec, force=force)
            if spec is None:
                continue
            if mspec.get("name") == "tb":
                spec["maxiters"] = min(spec["maxiters"], 6)
            run_one_problem(ctx, spec, verdicts)
        except Exception:
            ctx.brk("machinery", f"problem {kind} on {mspec.get('name', 'generated')} failed in the harness: {traceback.format_exc()[-400:]}")


# ==================================================================================================================
def probe_empty_adjustables(ctx):
    """calibrate with nothing to adjust: whatever the library does (it may refuse), the caller's parameter set is left alone -- it is not returned as the result,
    not renamed, not stored a second time in the project"""
    import atomica as at

    for name in (["udt"] if ctx.quick else ["udt", "tb_simple"]):
        try:
            P = M.build_project({"kind": "lib", "name": name})
        except Exception as e:
            ctx.notes.append(f"empty-adjustables probe: {name} not built: {e!r}"[:160])
            continue
        ps = P.parsets[0]
        name0, n0, before = ps.name, len(P.parsets), canon(ps)
        outs = cal_quantities(P, ps)[0][:1]
        for via in ("project", "function"):
            try:
                meas = [(v, p_, 1.0, "fractional") for (v, p_) in outs]
                out = P.calibrate(parset=ps, adjustables=[], measurables=meas, max_time=1, save_to_project=True) if via == "project" else at.calibrate(P, ps, [], meas, max_time=1)
                status = "returned"
            except Exception as e:
                out, status = None, type(e).__name__
            ctx.count("probe.empty_adjustables." + ("returned" if status == "returned" else "raised"))
            ctx.case({"probe": "empty-adjustables", "demo": name, "via": via}, nontrivial=True)
            problems = []
            if out is ps:
                problems.append("the caller's ParameterSet object itself is returned as the calibrated one")
            if ps.name != name0:
                problems.append(f"the caller's ParameterSet was renamed {name0!r} -> {ps.name!r}")
            if canon(ps) != before:
                problems.append("the caller's ParameterSet changed")
            if sum(1 for x in P.parsets.values() if x is ps) > 1:
                problems.append("the same ParameterSet object is stored twice in the project")
            if problems:
                ctx.violation({"api": "calibrate", "case": "empty-adjustables-touches-caller-object", "via": via}, f"{name}: calibrate with an empty list of adjustables ({status}): " + "; ".join(problems), {"part": "empty_adjustables", "demo": name, "via": via})
                break


def run(ctx):
    logging.getLogger("atomica").setLevel(logging.CRITICAL)
    np.seterr(all="ignore")
    t0 = time.time()
    verdicts = run_skeletons(ctx)
    run_objective(ctx)
    t1 = time.time()
    run_calobj(ctx)
    probe_empty_adjustables(ctx)
    t2 = time.time()
    run_problems(ctx, verdicts)
    summary = {}
    for v in ctx.violations:
        k = " ".join(f"{a}={b}" for a, b in sorted(v["key"].items()))
        summary[k] = summary.get(k, 0) + 1
    ctx.extra["violation_keys"] = summary
    ctx.extra["break_list"] = [b["what"][:200] for b in ctx.breaks[:20]]
    ctx.extra["timing_s"] = {"objective": round(t1 - t0, 1), "calobj": round(t2 - t1, 1), "problems": round(time.time() - t2, 1)}
    ctx.exhaustive = False


def replay(ctx, data):
    import atomica as at

    logging.getLogger("atomica").setLevel(logging.CRITICAL)
    np.seterr(all="ignore")
    rp = data["replay"]
    part = rp.get("part")
    print("key:", data.get("key"))
    print("what:", data.get("what"))
    if part in ("problem", "crash"):
        spec = rp["spec"]
        crash = tuple(rp["crash"]) if part == "crash" else None
        out = run_problem(spec, crash=crash)
        print("status:", out["status"], out.get("exc", ""))
        print("caller changes:", out["changes"])
        if out["records"]:
            rec = out["records"][0]
            print("asd: evaluations", len(rec["log"]), "x0", rec["x0"].tolist(), "xmin", None if rec["xmin"] is None else rec["xmin"].tolist(), "xmax", None if rec["xmax"] is None else rec["xmax"].tolist())
            if "x" in rec:
                print("asd: x", rec["x"].tolist(), "f", rec["fval"], "f0", float(rec["log"][0][1]))
                req = asd_request(rec)
                print("model:", core.drive([req])[0] if req else "log unusable")
        sub = core.Ctx(PROPERTY, ctx.tier, ctx.seed)
        if crash is None:
            check_reference(sub, spec, out)
        for v in sub.violations:
            print("VIOLATION", v["key"], v["what"])
        return 1 if (sub.violations or (crash and [c for c in out["changes"] if c[0] != "project.results"])) else 0
    if part == "objective":
        P = M.build_project(rp["model"])
        progset = P.progsets[0]
        ins = at.ProgramInstructions(start_year=float(P.settings.sim_start + 2))
        model = processed_model(P, P.parsets[0], progset, ins)
        ms = rp["measurables"]
        objs = [measurable_obj(at, m) for m in ms]
        print("impl:", impl_objective(at, objs, rp["baselines"], model))
        try:
            print("documented sum:", indep_objective(model, ms, rp["baselines"])[0])
        except KeyError as e:
            print("documented sum:", e)
        req = objective_request(model, ms, rp["baselines"])
        rep = core.drive([req])[0]
        print("model:", rep[:300])
        sub = core.Ctx(PROPERTY, ctx.tier, ctx.seed)
        check_objective_case(sub, at, rp["model"], ms, objs, rp["baselines"], model, rep)
        for v in sub.violations:
            print("VIOLATION", v["key"], v["what"])
        return 1 if sub.violations or sub.breaks else 0
    if part == "calobj":
        from atomica import calibration

        P = M.build_project(rp["model"])
        parset = P.parsets[0]
        pa = [tuple(x) for x in rp["pars"]]
        oq = [tuple(x) for x in rp["outputs"]]
        res = P.run_sim(parset=apply_factors(parset, pa, rp["factors"]), store_results=False)
        ind, scale, _ = indep_calobj(P, res, oq)
        try:
            impl = float(calibration._calculate_objective(np.array(rp["factors"]), pa, oq, parset.copy(), P))
        except Exception as e:
            print("impl raised:", type(e).__name__, e)
            return 1
        rep = core.drive([calobj_request(P, res, oq)])[0]
        print("impl:", impl, "documented sum:", ind, "model:", rep[:200])
        return 0 if _close_obj(impl, ind, scale) else 1
    print(rp)
    return 0


if __name__ == "__main__":
    core.main(sys.modules[__name__])
