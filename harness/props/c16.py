"""
C16 -- Round trips preserve content and behaviour; objects behave as their visible data.

Mode A (pure pieces, against the Lean model in AtomicaModel/Tables.lean and AtomicaModel/Protocol/Cache.lean)
  * `run_tdve`  : TimeDependentValuesEntry.write / from_rows   vs  Tables.encode / Tables.decode   (kind `tdve`)
  * `run_yfac`  : ParameterSet.calibration_spreadsheet / load_calibration  vs  Tables.YF.save / load (kind `yfac`)
  * `run_cache` : Covout after remove_program / _update_progset / sample / copy  vs  Protocol.Cache  (kind `cache`)
Mode E (the property as stated, on the implementation only; see c16_modee.py)
  * library and generated frameworks / databooks / program books: to_spreadsheet -> from_spreadsheet, Project.save/load,
    Result save/load, calibration save/load; content and paired simulations; sequences of editing operations.
"""
import io
import json
import math
import sys
import time
from fractions import Fraction

import numpy as np

from vlib import core
from vlib.core import q

import c16_util as U
from c16_util import Toks, es

PROPERTY = "C16"
LEAN_MODS = ["AtomicaProofs.Properties.C16"]
_T = "Atomica.C16."
THEOREMS = [_T + n for n in [
    # Covout cache (Protocol.Cache)
    "init_coherent", "reimport_coherent", "step_spec_coherent", "cache_coherent", "cache_coherent_partial",
    "current_eq_spec_on_safe", "behaves_as_visible", "behaves_as_reimport", "current_keeps_interactions", "update_outcomes_repairs",
    "remove_program_breaks", "remove_program_keyerror", "update_progset_breaks", "update_progset_changes_outcome",
    "update_outcomes_does_not_repair_interactions", "remove_program_leaves_bad_interaction",
    # y-factor table (Tables.YF)
    "yfactor_roundtrip", "yfactor_transfer", "load_skips_unknown", "load_keeps_missing", "load_keeps_blank", "load_preserves_shape",
    "load_current_unbound", "load_current_unknown_last",
    # TDVE table (Tables)
    "tdve_roundtrip", "tdve_content", "tdve_idempotent", "tdve_assumption_heading_witness", "tdve_drop_witness",
    "tdve_units_none_witness", "cell_get_number_na_witness",
]]
TRUSTED = [
    "xlsxwriter/openpyxl/pandas cell I/O and number formatting ('%.16G'), pickle and migration: sampled by mode E, not modelled",
    "Python str.strip/lower/title modelled on ASCII; generated names keep non-ASCII characters away from the places that are lower-cased against constants",
    "extraction of the visible content of ProjectData/ProgramSet/ParameterSet/ProjectFramework objects (harness/props/c16_util.py, c16_modee.py)",
]
ASSUMPTIONS = [
    "TDVE model: tvec without duplicates, TimeSeries.t sorted and distinct (the invariant TimeSeries.insert keeps); strings that do not start with '=' or a URL scheme (xlsxwriter would write a formula / hyperlink); no dates in the header row",
    "content = values, years, assumptions, uncertainties, units (standard units case-insensitively), names, targets, effects; not: layout flags, comments taken from the framework, lists of available parameters/compartments rebuilt from the framework, names of copies, timestamps, versions",
    "a population / program / transfer name is stripped, unique case-insensitively and not a reserved keyword (the library rejects or normalises the others)",
    "the parameter set 'rebuilt from its own exported spreadsheet' is ParameterSet(framework, re-imported databook) + load_calibration(calibration_spreadsheet())",
]
RULE = (
    "mode A: generated TDVE entries (75% well-formed, 25% with one departure: value dated outside tvec, unnormalised units, value behind a "
    "switched-off column, no value column, unsorted years) written by the real write() and read by the real from_rows(), cells and decoded "
    "objects compared with Tables.encode/decode; hand-made tables with one fault (N.A., dashes, text in numeric cell, duplicate year/heading/row, "
    "#ignore, numeric names, extra attribute, assumption-only); y-factor files derived from the file the library writes (own, missing rows, blank "
    "cells, unknown rows first/middle/last, unknown source population, unknown column, duplicate row, wrong kind, reordered) loaded by the real "
    "load_calibration; Covouts with 0-4 programs (ties on a binary grid), explicit interactions, 0-4 operations (remove_program, _update_progset "
    "baseline/outcome, update_outcomes, copy, sample) compared with Protocol.Cache and with the Covout rebuilt from the visible data at every vertex "
    "of the coverage cube. mode E: library projects (framework, databook, progbook -> to_spreadsheet -> from_spreadsheet twice, Project.save/load, "
    "Result save/load, calibration file), the three project files of old versions in /repo/tests (migration on load: save/load, export/re-import, validate/add_pop/add_transfer on the loaded vs the rebuilt databook), generated databooks+progbooks on 6 library frameworks (arbitrary names, 1-3 population types, transfers, "
    "interactions, dense/sparse/single/fractional years, assumptions, uncertainties, change_tvec), all sequences of the 11 editing operations up to "
    "length 2 (quick) / 4 (thorough) followed by the export/re-import of databook, progbook and calibration and paired simulations (1e-9). "
    "non-trivial = table with at least one series and one value column / file that differs from the library's own / Covout with >=1 program and >=1 "
    "operation / every mode E case except the empty operation sequence"
)
EXPECTED_BRANCHES = [
    "tdve.wf", "tdve.not_wf", "tdve.years=0", "tdve.decode=ok", "tdve.fault=na", "tdve.fault=dupyear", "tdve.fault=duprow", "tdve.fault=onlyassump",
    "yfac.own", "yfac.unknown_first", "yfac.unknown_last", "yfac.missing", "yfac.blank", "yfac.duplicate", "yfac.wrongkind", "yfac.unknown_pop",
    "cache.op.rm", "cache.op.base", "cache.op.out", "cache.op.upd", "cache.with_interactions", "cache.outcome_modelled", "cache.n_progs=0", "cache.n_progs=4",
    "library.projects", "library.sim_pairs", "migrated.files", "generated.poptypes=3", "generated.transfers=2", "generated.years=sparse", "generated.sim_pairs",
    "generated.variant=change_tvec_list", "generated.progbook_years=none",
    "ops.len=2", "ops.op.reconcile", "ops.op.remove_pop", "ops.op.load_calibration", "ops.held",
]

ERR_TAGS = [
    ("name of the table is missing", "name"),
    ("name of the quantity assigned to this table needs to be a string", "name"),
    ("Duplicate heading", "dup"),
    ("Duplicate year", "dup"),
    ("Could not find an assumption or time-specific value", "novalues"),
    ("name of the entry was expected to be a string", "rowname"),
    ("needs to contain a string", "needstring"),
    ("needs to contain a number", "neednumber"),
]


def err_tag(ex) -> str:
    m = str(ex)
    for sub, tag in ERR_TAGS:
        if sub in m:
            return tag
    return "other:" + type(ex).__name__ + ":" + m[:80]


# ==================================================================================================
# mode A: TDVE
# ==================================================================================================
def gen_tdve_spec(rng, wf=True):
    used = set()
    name = U.gen_name(rng, used)
    attrs = ["Provenance"] + [U.gen_name(rng, used, lo=3, hi=10) for _ in range(rng.choice([0, 0, 0, 1, 2]))]
    tvec = U.gen_years(rng)
    flag = lambda: rng.choice([None, None, True, True, False])
    wu, wunc, wa = flag(), flag(), flag()
    ahead = rng.choice(["c", "c", "a"])
    nrows = rng.choice([0, 1, 1, 2, 3, 4])
    rows = []
    for _ in range(nrows):
        rname = U.gen_name(rng, used)
        units = U.gen_unit(rng, normal=True) if rng.random() < 0.8 else None
        assumption = U.gen_value(rng) if rng.random() < 0.5 else None
        sigma = U.gen_value(rng, "pos") if rng.random() < 0.3 else None
        dens = rng.choice([0.0, 0.3, 0.7, 1.0])
        pts = [(t, U.gen_value(rng)) for t in tvec if rng.random() < dens]
        cells = [rng.choice([None, None, U.gen_name(rng, lo=1, hi=10), U.gen_value(rng)]) for _ in attrs]
        rows.append({"name": rname, "units": units, "assumption": assumption, "sigma": sigma, "pts": pts, "attrs": cells})
    e = {"name": name, "attrs": attrs, "tvec": tvec, "wu": wu, "wunc": wunc, "wa": wa, "ahead": ahead, "rows": rows}
    if wf:
        eff_u = wu if wu is not None else any(r["units"] is not None for r in rows)
        eff_s = wunc if wunc is not None else any(r["sigma"] is not None for r in rows)
        eff_a = wa if wa is not None else any(r["assumption"] is not None for r in rows)
        for r in rows:
            if eff_u and r["units"] is None:
                r["units"] = U.gen_unit(rng)
            if not eff_u:
                r["units"] = None
            if not eff_s:
                r["sigma"] = None
            if not eff_a:
                r["assumption"] = None
        if not tvec and not (eff_a and ahead == "c"):
            e["wa"], e["ahead"] = True, "c"
    else:
        # one deliberate departure from well-formedness
        k = rng.choice(["outside", "units", "hidden", "novalues", "unsorted"])
        if k == "outside" and rows:
            r = rng.choice(rows)
            r["pts"] = sorted(set(r["pts"] + [((tvec[-1] if tvec else 2000.0) + rng.choice([1, 0.5, 7]), U.gen_value(rng))]))
        elif k == "units" and rows:
            rng.choice(rows)["units"] = rng.choice([None, "Number", " rate ", "PROBABILITY", "", " x "])
            e["wu"] = True
        elif k == "hidden" and rows:
            r = rng.choice(rows)
            which = rng.choice(["wu", "wunc", "wa"])
            e[which] = False
            r["units"], r["sigma"], r["assumption"] = "number", 0.5, 0.25
        elif k == "novalues":
            e["tvec"] = []
            for r in rows:
                r["pts"] = []
            e["wa"], e["ahead"] = rng.choice([(False, "c"), (True, "a"), (None, "a")])
        elif k == "unsorted" and len(tvec) >= 2:
            e["tvec"] = list(reversed(tvec))
    return e


def write_tables(specs):
    """Write every TDVE with the real `TimeDependentValuesEntry.write` into one sheet; return the openpyxl rows of each."""
    import openpyxl
    import xlsxwriter
    from atomica.excel import standard_formats

    f = io.BytesIO()
    wb = xlsxwriter.Workbook(f, {"in_memory": True})
    fmts = standard_formats(wb)
    ws = wb.add_worksheet("T")
    spans = []
    row = 0
    for e in specs:
        tdve = U.spec_to_tdve(e)
        nxt = tdve.write(ws, row, fmts, references=None, widths={})
        spans.append((row, nxt - 1))
        row = nxt
    wb.close()
    f.seek(0)
    book = openpyxl.load_workbook(f, read_only=True, data_only=True)
    allrows = list(book["T"].rows)
    return [allrows[a:b] for a, b in spans]


def impl_decode(rows):
    from atomica.excel import TimeDependentValuesEntry

    try:
        return "ok", U.tdve_to_spec(TimeDependentValuesEntry.from_rows(rows))
    except Exception as ex:  # noqa
        return "err", err_tag(ex)


def parse_decode_one(t: Toks):
    st = t.next()
    if st == "err":
        return "err", t.next()
    return "ok", U.ptdve(t)


def parse_decode_reply(rep: str):
    """(specification-shaped decode, decode as the code is written)"""
    a, b = rep.split(" | ")
    return parse_decode_one(Toks(a)), parse_decode_one(Toks(b))


def decode_same(m, i) -> bool:
    if m[0] == "ok" and i[0] == "ok":
        return U.norm_tdve(m[1]) == U.norm_tdve(i[1])
    return m == i


NOYEARS_KEY = {"api": "TimeDependentValuesEntry.from_rows", "case": "program book without year columns ('Assumption' heading) is rejected"}


def content_same16(a, b) -> bool:
    """content equality of two TDVE specs up to 16 significant digits, attributes without value ignored"""
    if a["name"] != b["name"] or len(a["tvec"]) != len(b["tvec"]) or len(a["rows"]) != len(b["rows"]):
        return False
    if any(not U.same16(x, y) for x, y in zip(a["tvec"], b["tvec"])):
        return False
    for ra, rb in zip(a["rows"], b["rows"]):
        if ra["name"] != rb["name"] or ra["units"] != rb["units"] or len(ra["pts"]) != len(rb["pts"]):
            return False
        if not U.same16(ra["assumption"], rb["assumption"]) or not U.same16(ra["sigma"], rb["sigma"]):
            return False
        if any(not (U.same16(p[0], r[0]) and U.same16(p[1], r[1])) for p, r in zip(ra["pts"], rb["pts"])):
            return False
        da = {n: c for n, c in zip(a["attrs"], ra["attrs"]) if c is not None}
        db = {n: c for n, c in zip(b["attrs"], rb["attrs"]) if c is not None}
        if set(da) != set(db):
            return False
        for n in da:
            x, y = da[n], db[n]
            if isinstance(x, str) or isinstance(y, str):
                if x != y:
                    return False
            elif not U.same16(x, y):
                return False
    return True


def r16_spec(e):
    """the entry as a spreadsheet can hold it (numbers rounded to 16 significant digits)"""
    r = U.r16
    cell = lambda c: c if c is None or isinstance(c, str) else r(c)
    return {**e, "tvec": [r(x) for x in e["tvec"]], "rows": [{**x, "assumption": r(x["assumption"]), "sigma": r(x["sigma"]), "pts": [(r(a), r(b)) for a, b in x["pts"]], "attrs": [cell(c) for c in x["attrs"]]} for x in e["rows"]]}


def run_tdve(ctx):
    rng = ctx.rng
    n = ctx.n(250, 4000)
    specs = [gen_tdve_spec(rng, wf=(rng.random() < 0.75)) for _ in range(n)]
    tables = []
    for i in range(0, n, 200):
        tables += write_tables(specs[i : i + 200])
    specs16 = [r16_spec(e) for e in specs]
    reps_enc = core.drive(["tdve enc " + U.etdve(e) for e in specs16])
    reps_rt = core.drive(["tdve rt " + U.etdve(e) for e in specs16])
    impl_grids = [U.cells_of_rows(rows) for rows in tables]
    reps_dec = core.drive(["tdve dec " + U.egrid(U.strip_trailing(g)) for g in impl_grids])
    for e, e16, rows, g, rep_enc, rep_rt, rep_dec in zip(specs, specs16, tables, impl_grids, reps_enc, reps_rt, reps_dec):
        key = {"api": "TimeDependentValuesEntry.write/from_rows", "spec": U.etdve(e)}
        # 1. the cells the real writer produced == encode
        model_grid = U.pgrid(Toks(rep_enc))
        enc_ok = U.grid_eq(model_grid, g)
        # 2. the real reader on the real cells == decode on the same cells
        st_i, val_i = impl_decode(rows)
        spec_d, cur_d = parse_decode_reply(rep_dec)
        (st_m, val_m) = spec_d
        dec_ok = decode_same(spec_d, (st_i, val_i))
        # 3. hypotheses of tdve_roundtrip and the model's own round trip
        t = Toks(rep_rt.split(" | ")[0])
        wf = t.next() == "1"
        same = t.next() == "same"
        ctx.hyp_checked += 1
        ctx.hyp_held += int(wf)
        ctx.count("tdve.wf" if wf else "tdve.not_wf")
        ctx.count("tdve.years=%s" % ("0" if not e["tvec"] else "n"))
        ctx.count("tdve.decode=" + (st_i if st_i == "ok" else str(val_i).split(":")[0]))
        nontrivial = bool(e["rows"]) and (len(e["tvec"]) > 0 or any(r["assumption"] is not None for r in e["rows"]))
        ctx.case(key, nontrivial, sample={"tdve": e["name"], "rows": len(e["rows"]), "years": len(e["tvec"]), "wf": wf})
        ctx.traces += 1
        if wf and not same:
            ctx.brk("proof", "model: WF entry whose decode(encode e) differs from canon e (theorem tdve_roundtrip would be false)", spec=U.etdve(e16))
        # direct oracle: a well-formed entry comes back with the same content
        oracle_bad = None
        if wf:
            if st_i != "ok":
                oracle_bad = f"from_rows raised on a table written by write(): {val_i}"
            elif not content_same16(e, val_i):
                oracle_bad = "content changed by write() -> from_rows()"
        if oracle_bad:
            ctx.disagreements_checked += 1
            key_v = NOYEARS_KEY if (st_i == "err" and val_i == "novalues" and not e["tvec"] and decode_same(cur_d, (st_i, val_i))) else {"api": "TimeDependentValuesEntry.write/from_rows", "case": "well-formed entry does not round-trip"}
            ctx.violation(key_v, oracle_bad + "; entry " + repr(e)[:300], {"kind": "tdve", "spec": e})
        elif enc_ok and not dec_ok and (st_i, val_i) == ("err", "novalues") and decode_same(cur_d, (st_i, val_i)):
            ctx.disagreements_checked += 1
            ctx.violation(NOYEARS_KEY, "from_rows raised on a table written by write() (only value column headed 'Assumption', no years); entry " + repr(e)[:300], {"kind": "tdve", "spec": e})
        elif not enc_ok or not dec_ok:
            ctx.disagreements_checked += 1
            ctx.brk("correspondence", ("encode" if not enc_ok else "decode") + " differs from the model", spec=e, impl_cells=repr(U.strip_trailing(g))[:600], model_cells=repr(U.strip_trailing(model_grid))[:600], impl_decode=repr((st_i, val_i))[:600], model_decode=repr((st_m, val_m))[:600])
    run_tdve_bad(ctx)


def gen_bad_grid(rng):
    """A hand-made table (cells) with at most one fault, to exercise the reader's branches."""
    used = set()
    name = U.gen_name(rng, used)
    years = [float(y) for y in range(2000, 2000 + rng.randint(0, 4))]
    head = [name, "Provenance", "Units", "Uncertainty", rng.choice(["Constant", "Assumption", "constant", " ASSUMPTION "]), None] + years
    rows = []
    for _ in range(rng.randint(1, 3)):
        rows.append([U.gen_name(rng, used), rng.choice([None, "x"]), rng.choice(["Number", "number", None, "N.A.", "$/yr"]), rng.choice([None, 0.1]), rng.choice([None, 0.5, 3]), "OR" if years else None] + [rng.choice([None, 1.0, 0.25, 7]) for _ in years])
    fault = rng.choice(["none", "none", "na", "dash", "text", "dupyear", "duphead", "ignorecol", "ignorerow", "numname", "numunits", "noname", "blankrow", "extraattr", "lowerhead", "onlyassump", "numtable", "duprow"])
    r = rng.choice(rows)
    col = rng.randrange(3, len(head))
    if fault == "na":
        r[col] = rng.choice(["N.A.", "n.a.", " N.A. "])
    elif fault == "dash":
        r[col] = rng.choice(["-", "--", " - ", "—"])
    elif fault == "text":
        r[col] = rng.choice(["abc", "1.0", "0,5"])
    elif fault == "dupyear" and years:
        head.append(years[0])
        for x in rows:
            x.append(None)
    elif fault == "duphead":
        head.append(rng.choice(["Units", "units", "Provenance", "Uncertainty", "CONSTANT"]))
        for x in rows:
            x.append(None)
    elif fault == "ignorecol":
        k = rng.randrange(1, len(head))
        head[k] = "#ignore this"
    elif fault == "ignorerow":
        r[0] = "#ignore " + r[0]
    elif fault == "numname":
        r[0] = 2020
    elif fault == "numunits":
        r[2] = 5
    elif fault == "noname":
        head[0] = rng.choice([None, 3])
    elif fault == "blankrow":
        r[0] = None
    elif fault == "extraattr":
        head.insert(2, "Source")
        for x in rows:
            x.insert(2, rng.choice([None, "WHO", 2019]))
    elif fault == "lowerhead":
        head[1] = "provenance"
    elif fault == "onlyassump":
        head = head[:6]
        rows = [x[:6] for x in rows]
        for x in rows:
            x[5] = None
    elif fault == "numtable":
        head[rng.randrange(1, 5)] = 1999
    elif fault == "duprow":
        rows.append([rows[0][0]] + [rng.choice([None, 0.75]) if not isinstance(c, str) else c for c in rows[0][1:]])
    return fault, [head] + rows


def write_grids(grids):
    import openpyxl
    import xlsxwriter

    f = io.BytesIO()
    wb = xlsxwriter.Workbook(f, {"in_memory": True})
    ws = wb.add_worksheet("T")
    spans, row = [], 0
    for g in grids:
        for i, cells in enumerate(g):
            for j, c in enumerate(cells):
                if c is None:
                    continue
                if isinstance(c, str):
                    ws.write_string(row + i, j, c)
                else:
                    ws.write_number(row + i, j, c)
        spans.append((row, row + len(g)))
        row += len(g) + 1
    wb.close()
    f.seek(0)
    book = openpyxl.load_workbook(f, read_only=True, data_only=True)
    allrows = list(book["T"].rows)
    allrows += [()] * (row - len(allrows))
    return [allrows[a:b] for a, b in spans]


def run_tdve_bad(ctx):
    rng = ctx.rng
    n = ctx.n(150, 2500)
    cases = [gen_bad_grid(rng) for _ in range(n)]
    tables = write_grids([g for _, g in cases])
    impl_grids = [U.cells_of_rows(rows) for rows in tables]
    reps = core.drive(["tdve dec " + U.egrid(U.strip_trailing(g)) for g in impl_grids])
    for (fault, g0), rows, g, rep in zip(cases, tables, impl_grids, reps):
        st_i, val_i = impl_decode(rows)
        spec_d, cur_d = parse_decode_reply(rep)
        (st_m, val_m) = spec_d
        ctx.count("tdve.fault=" + fault)
        ctx.case({"api": "from_rows", "grid": repr(g0)}, nontrivial=(fault != "none"))
        ctx.traces += 1
        if st_i == "ok" and st_m == "ok":
            ok = U.norm_tdve(val_i) == U.norm_tdve(val_m)
        elif st_i == "err" and st_m == "err" and val_m == "dup" and str(val_i).startswith("other:KeyError"):
            # observation (outside C16): for a duplicated attribute heading the code that formats the "Duplicate heading"
            # message itself raises KeyError (headings[v.lower()]); the table is rejected either way
            ctx.count("tdve.obs.dup_attr_heading_keyerror")
            ok = True
        else:
            ok = (st_i, val_i) == (st_m, val_m)
        if not ok and (st_i, val_i) == ("err", "novalues") and decode_same(cur_d, (st_i, val_i)):
            # the table has an "Assumption" column and no years: the documented format, rejected by the code as written
            ctx.disagreements_checked += 1
            ctx.violation(NOYEARS_KEY, f"from_rows rejects a table whose only value column is headed 'Assumption': {g0!r}"[:400], {"kind": "grid", "grid": g0})
            continue
        if not ok:
            ctx.disagreements_checked += 1
            ctx.brk("correspondence", f"from_rows differs from Tables.decode on a hand-made table (fault={fault})", grid=repr(g0)[:500], impl=repr((st_i, val_i))[:500], model=repr((st_m, val_m))[:500])


# ==================================================================================================
# projects used by mode A (y-factors, cache) and mode E
# ==================================================================================================
_PROJ = {}


def load_framework(name):
    """Library framework; all-empty columns are dropped first (with pandas 3 an all-empty spreadsheet column is read as a
    string column, which the framework validation of several library files cannot digest -- an environment matter)."""
    import atomica as at

    f = at.ProjectFramework(at.LIBRARY_PATH / f"{name}_framework.xlsx", validate=False)
    for k, dfs in f.sheets.items():
        if k in ("transitions", "cascades"):
            continue
        for i, df in enumerate(dfs):
            dfs[i] = df.drop(columns=[c for c in df.columns if df[c].isna().all()])
    f._validate()
    return f


def get_project(name):
    """A fresh copy of a library project (framework, databook, default parset, progbook if there is one), not run."""
    import atomica as at
    import sciris as sc

    if name not in _PROJ:
        lib = name.split("+")[0]
        fw = load_framework(lib)
        P = at.Project(framework=fw, databook=at.LIBRARY_PATH / f"{lib}_databook.xlsx", do_run=False)
        if name.endswith("+transfers"):
            # the library databook of `combined` declares two transfers but leaves them empty: fill them in
            from atomica.utils import TimeSeries

            for tdc in P.data.transfers:
                pops = tdc.from_pops
                for a, b in zip(pops[:-1], pops[1:]):
                    ts = TimeSeries(units=tdc.allowed_units[1])
                    ts.insert(None, 0.05)
                    tdc.ts[(a, b)] = ts
            P.parsets[0] = at.ParameterSet(fw, P.data, P.parsets[0].name)
        pb = at.LIBRARY_PATH / f"{lib}_progbook.xlsx"
        if pb.exists():
            P.load_progbook(pb)
        _PROJ[name] = P
    return sc.dcp(_PROJ[name])


# ==================================================================================================
# mode A: y-factor table
# ==================================================================================================
def parset_entries(ps):
    """[(par, pop|None, meta, [(pop, y)])] in the order of ParameterSet.y_factors"""
    out = []
    for name, par in ps.pars.items():
        out.append((name, None, float(par.meta_y_factor), [(k, float(v)) for k, v in par.y_factor.items()]))
    for name, d in list(ps.interactions.items()) + list(ps.transfers.items()):
        for src, par in d.items():
            out.append((name, src, float(par.meta_y_factor), [(k, float(v)) for k, v in par.y_factor.items()]))
    return out


def eentries(ents):
    return U.elist(ents, lambda e: " ".join([es(e[0]), U.eopt(e[1], es), q(e[2]), U.elist(e[3], lambda kv: es(kv[0]) + " " + q(kv[1]))]))


def etable(rows):
    return U.elist(rows, lambda r: " ".join([es(r[0]), U.eopt(r[1], es), U.elist(r[2], lambda kv: es(kv[0]) + " " + U.eopt(kv[1], q))]))


def pentries(t: Toks):
    return t.lst(lambda: (t.s(), t.opt(t.s), t.rat(), t.lst(lambda: (t.s(), t.rat()))))


def ptable(t: Toks):
    return t.lst(lambda: (t.s(), t.opt(t.s), t.lst(lambda: (t.s(), t.opt(t.rat)))))


def pload(t: Toks):
    st = t.next()
    if st == "err":
        return ("err", t.next())
    return ("ok", pentries(t))


def table_to_spreadsheet(rows, cols):
    import pandas as pd
    import sciris as sc

    recs = []
    for par, pop, cells in rows:
        d = {"par": par, "pop": np.nan if pop is None else pop}
        for k, v in cells:
            d[k] = np.nan if v is None else v
        recs.append(d)
    df = pd.DataFrame(recs, columns=["par", "pop"] + cols)
    f = io.BytesIO()
    df.to_excel(f, sheet_name="Y-factors", index=False)
    f.seek(0)
    return sc.Spreadsheet(f)


def spreadsheet_to_table(ss):
    import pandas as pd

    df = pd.read_excel(ss.pandas(), "Y-factors")
    cols = [c for c in df.columns if c not in ("par", "pop")]
    rows = []
    for _, r in df.iterrows():
        rows.append((r["par"], None if pd.isna(r["pop"]) else r["pop"], [(c, None if pd.isna(r[c]) else float(r[c])) for c in cols]))
    return rows, cols


def randomise_y(ps, rng):
    for par in ps.all_pars():
        if rng.random() < 0.5:
            par.meta_y_factor = rng.choice([0.5, 2.0, 1.25, round(rng.uniform(0.1, 3), 3)])
        for k in par.y_factor.keys():
            if rng.random() < 0.5:
                par.y_factor[k] = rng.choice([0.0, 0.5, 2.0, round(rng.uniform(0.1, 3), 4), rng.uniform(0.1, 3)])


def ents_equal(a, b):
    if len(a) != len(b):
        return False
    for x, y in zip(a, b):
        if x[0] != y[0] or x[1] != y[1] or Fraction(x[2]) != Fraction(y[2]) or [k for k, _ in x[3]] != [k for k, _ in y[3]]:
            return False
        if any(Fraction(u) != Fraction(v) for (_, u), (_, v) in zip(x[3], y[3])):
            return False
    return True


def _fr_or_bad(v):
    """exact rational of a float; a NaN / infinite factor (never a legitimate calibration factor) becomes a value no model reply can equal"""
    v = float(v)
    return Fraction(*v.as_integer_ratio()) if math.isfinite(v) else Fraction(-987654321, 7)


def fr_ents(ents):
    return [(a, b, _fr_or_bad(c), [(k, _fr_or_bad(v)) for k, v in d]) for a, b, c, d in ents]


def run_yfac(ctx):
    import sciris as sc

    rng = ctx.rng
    names = ["tb_simple", "hypertension", "combined"] + ([] if ctx.quick else ["tb", "udt_dyn"])
    n_per = ctx.n(20, 80)
    for name in names:
        P = get_project(name)
        base = P.parsets[0]
        reqs, cases = [], []
        for _i in range(n_per):
            src = sc.dcp(base)
            randomise_y(src, rng)
            dst = sc.dcp(base)
            randomise_y(dst, rng)
            # the file the library itself writes for `src`
            ss = src.calibration_spreadsheet()
            rows, cols = spreadsheet_to_table(ss)
            src_ents = parset_entries(src)
            kinds_ = ["own", "missing", "blank", "unknown_first", "unknown_mid", "unknown_last", "unknown_pop", "unknown_col", "duplicate", "wrongkind", "reorder", "mixed", "own"]
            kind = kinds_[(_i + names.index(name) * 5) % len(kinds_)]
            rows = [(a, b, list(c)) for a, b, c in rows]
            unknown_rows = []
            if kind in ("missing", "mixed") and len(rows) > 1:
                rows = [r for r in rows if rng.random() < 0.6] or rows[:1]
            if kind in ("blank", "mixed"):
                rows = [(a, b, [(k, None if rng.random() < 0.4 else v) for k, v in c]) for a, b, c in rows]
            if kind in ("reorder", "mixed"):
                rng.shuffle(rows)
            if kind.startswith("unknown_") and kind not in ("unknown_pop", "unknown_col") or kind == "mixed":
                u = (U.gen_name(rng, plain=True), rng.choice([None, None, "adults"]), [(k, rng.choice([None, 2.0, 0.5])) for k in cols])
                pos = {"unknown_first": 0, "unknown_mid": len(rows) // 2, "unknown_last": len(rows)}.get(kind, rng.randint(0, len(rows)))
                rows.insert(pos, u)
                unknown_rows.append(u)
            if kind == "unknown_pop":
                tdc = [r for r in rows if r[1] is not None]
                if tdc:
                    t0 = rng.choice(tdc)
                    u = (t0[0], "no such pop", [(k, 3.0) for k in cols])
                    rows.insert(rng.choice([0, len(rows)]), u)
                    unknown_rows.append(u)
            if kind == "unknown_col":
                cols = cols + ["ghost pop"]
                rows = [(a, b, c + [("ghost pop", rng.choice([None, 9.0]))]) for a, b, c in rows]
            if kind == "duplicate" and rows:
                rows.insert(rng.randint(0, len(rows)), rng.choice(rows))
            if kind == "wrongkind" and rows:
                i = rng.randrange(len(rows))
                a, b, c = rows[i]
                rows[i] = (a, ("adults" if b is None else None), c)
            ss2 = table_to_spreadsheet(rows, cols)
            rows_file, _ = spreadsheet_to_table(ss2)  # what the file holds (16 significant digits)
            dst_before = parset_entries(dst)
            try:
                dst.load_calibration(ss2)
                impl = ("ok", parset_entries(dst))
            except Exception as ex:  # noqa
                tag = {"UnboundLocalError": "unbound", "AssertionError": "assertion"}.get(type(ex).__name__, "duplicate" if "duplicate entries" in str(ex) else "other:" + type(ex).__name__ + ":" + str(ex)[:80])
                impl = ("err", tag)
            reqs.append("yfac save " + eentries(src_ents))
            reqs.append("yfac load " + etable(rows_file) + " " + eentries(dst_before))
            cases.append((kind, src_ents, rows_file, dst_before, impl, spreadsheet_to_table(ss)[0], unknown_rows, rows, cols))
        reps = core.drive(reqs)
        for i, (kind, src_ents, rows_file, dst_before, impl, saved_rows, unknown_rows, rows, cols) in enumerate(cases):
            rep_save, rep_load = reps[2 * i], reps[2 * i + 1]
            key = {"api": "ParameterSet.load_calibration", "project": name, "kind": kind, "i": i}
            ctx.case(key, nontrivial=(kind != "own"))
            ctx.count("yfac." + kind)
            ctx.traces += 1
            # save: the sheet written by calibration_spreadsheet == YF.save
            model_saved = ptable(Toks(rep_save))
            save_ok = len(model_saved) == len(saved_rows) and all(a[0] == b[0] and a[1] == b[1] and [k for k, _ in a[2]] == [k for k, _ in b[2]] and all(U.same16(None if u is None else float(u), v) for (_, u), (_, v) in zip(a[2], b[2])) for a, b in zip(model_saved, saved_rows))
            if not save_ok:
                ctx.disagreements_checked += 1
                ctx.brk("correspondence", "calibration_spreadsheet differs from YF.save", project=name, model=repr(model_saved)[:400], impl=repr(saved_rows)[:400])
            spec_s, cur_s = rep_load.split(" | ")
            spec, cur = pload(Toks(spec_s)), pload(Toks(cur_s))
            ctx.count("yfac.impl=" + (impl[0] if impl[0] == "ok" else impl[1].split(":")[0]))

            def same(m, im):
                if m[0] != im[0]:
                    return False
                return m[1] == im[1] if m[0] == "err" else ents_equal(m[1], fr_ents(im[1]))

            if same(spec, impl):
                # oracle: round trip of the library's own file
                if kind == "own" and not ents_equal(fr_ents(src_ents), fr_ents(impl[1])) and all(U.r16(v) == v for e in src_ents for _, v in e[3]):
                    ctx.violation({"api": "ParameterSet.load_calibration", "case": "own file does not restore the y-factors"}, f"{name}: load_calibration(calibration_spreadsheet()) changed the y-factors", {"kind": "yfac", "project": name, "rows": rows, "cols": cols})
                continue
            ctx.disagreements_checked += 1
            # direct oracle: the documented behaviour -- unknown entries are skipped, missing ones keep their value
            if impl[0] == "err" and spec[0] == "ok":
                case = "unknown entry before any known entry" if (impl[1] == "unbound" and unknown_rows) else "raises on a table the documentation accepts"
                ctx.violation({"api": "ParameterSet.load_calibration", "case": case}, f"{name}: load_calibration raised {impl[1]} for a calibration file with an entry the ParameterSet does not know ({kind}); the docstring says such entries are skipped", {"kind": "yfac", "project": name, "rows": rows, "cols": cols, "matches_current_code_model": same(cur, impl)})
            else:
                bad = None
                if impl[0] == "ok":
                    # the documented behaviour as a predicate on (before, file, after): a value without a cell is kept, a value with a cell is taken
                    table = {(a, b): dict(c) for a, b, c in rows_file}
                    for (pn, pp, m0, y0), (_, _, m1, y1) in zip(dst_before, impl[1]):
                        cells = table.get((pn, pp), {})
                        exp_m = cells.get("meta_y_factor")
                        if (exp_m is None and m1 != m0) or (exp_m is not None and m1 != exp_m):
                            bad = f"meta_y_factor of {pn}/{pp}: before {m0}, file {exp_m}, after {m1}"
                        for (k, v0), (_, v1) in zip(y0, y1):
                            exp = cells.get(k)
                            if (exp is None and v1 != v0) or (exp is not None and v1 != exp):
                                bad = f"y-factor of {pn}/{pp} in {k}: before {v0}, file {exp}, after {v1}"
                if bad:
                    ctx.violation({"api": "ParameterSet.load_calibration", "case": "value without a cell not kept / cell not taken"}, f"{name} ({kind}): {bad}", {"kind": "yfac", "project": name, "rows": rows, "cols": cols})
                else:
                    ctx.brk("correspondence", "load_calibration differs from YF.load", project=name, row_kind=kind, impl=repr(impl)[:300], model=repr(spec)[:300], current=repr(cur)[:300], rows=repr(rows)[:600])


# ==================================================================================================
# mode A: Covout cache
# ==================================================================================================
def parse_inter(string):
    """the explicit interaction outcomes of an `imp_interaction` string, as Covout.__init__ parses them"""
    out = []
    if string and string.lower() not in ("best", "synergistic"):
        for term in string.split(","):
            combo, val = term.split("=")
            out.append(([x.strip() for x in combo.split("+")], float(val)))
    return out


def evisible(baseline, cov_int, progs, inter):
    return " ".join([q(baseline), {"additive": "a", "nested": "n", "random": "r"}[cov_int], U.elist(progs, lambda kv: es(kv[0]) + " " + q(kv[1])), U.elist(inter, lambda c: U.elist(c[0], es) + " " + q(c[1]))])


def eops(ops):
    def one(op):
        if op[0] == "rm":
            return "rm " + es(op[1])
        if op[0] == "base":
            return "base " + q(op[1])
        if op[0] == "out":
            return "out " + es(op[1]) + " " + q(op[2])
        return op[0]

    return U.elist(ops, one)


def pstate(t: Toks):
    if t.peek() == "err":
        t.next()
        t.next()
        return None
    st = {"baseline": t.rat(), "progs": t.lst(lambda: (t.s(), t.rat())), "inter": t.lst(lambda: (t.lst(t.s), t.rat())), "cached": t.lst(t.s), "deltas": t.lst(t.rat), "comb": t.lst(t.rat), "inv": t.next() == "1"}
    o = t.next()
    st["outcome"] = o if o in ("keyerror", "indexerror", "na") else Fraction(o)
    return st


def covout_state(c):
    return {"baseline": float(c.baseline), "progs": [(k, float(v)) for k, v in c.progs.items()], "cached": list(c._cached_progs.keys()), "deltas": [float(x) for x in c._deltas], "comb": [float(x) for x in np.asarray(c._combination_outcomes).ravel()]}


def state_matches(model, impl) -> bool:
    if model is None:
        return False
    f = lambda x: Fraction(*float(x).as_integer_ratio())
    return (
        model["baseline"] == f(impl["baseline"])
        and [(k, v) for k, v in model["progs"]] == [(k, f(v)) for k, v in impl["progs"]]
        and model["cached"] == impl["cached"]
        and len(model["deltas"]) == len(impl["deltas"])
        and all(core.close(m, i, rtol=1e-12, atol=1e-15) for m, i in zip(model["deltas"], impl["deltas"]))
        and len(model["comb"]) == len(impl["comb"])
        and all(core.close(m, i, rtol=1e-12, atol=1e-15) for m, i in zip(model["comb"], impl["comb"]))
    )


def rebuilt_covout(c):
    """what ProgramSet.from_spreadsheet builds from the row this Covout is exported to"""
    from atomica.programs import Covout

    return Covout(par=c.par, pop=c.pop, cov_interaction=c.cov_interaction, imp_interaction=c.imp_interaction, uncertainty=c.sigma, baseline=c.baseline, progs=dict(c.progs))


def impl_outcome(c, cov):
    try:
        return ("ok", float(c.get_outcome({k: np.array([v]) for k, v in cov})))
    except KeyError:
        return ("keyerror", None)
    except IndexError:
        return ("indexerror", None)
    except Exception as ex:  # noqa
        return ("other:" + type(ex).__name__, None)


def step_oracle(cur, prog_names, rng):
    """the property's own predicate on one Covout: it gives the outcomes of the Covout rebuilt from its visible data, at
    every vertex of the coverage cube (exposes any difference in deltas / combination outcomes) and a few interior points"""
    import itertools

    try:
        rb = rebuilt_covout(cur)
    except AssertionError:
        return "export cannot be re-imported: imp_interaction still names a removed program"
    names = list(prog_names)
    covs = [list(zip(names, map(float, v))) for v in itertools.product([0, 1], repeat=len(names))] if len(names) <= 4 else []
    covs += [[(p, rng.choice([0.0, 0.2, 0.5, 1.0, round(rng.uniform(0, 1), 2)])) for p in names] for _t in range(4)]
    for cv in covs:
        a, b = impl_outcome(cur, cv), impl_outcome(rb, cv)
        if a[0] != b[0] or (a[0] == "ok" and abs(a[1] - b[1]) > 1e-9 * max(1, abs(b[1]))):
            return f"get_outcome {a} but the Covout rebuilt from the same visible data gives {b} (coverage {cv})"
    return None


OP_API = {"rm": "ProgramSet.remove_program", "base": "reconciliation._update_progset", "out": "reconciliation._update_progset", "upd": "Covout.update_outcomes", "copy": "copy"}


def run_cache(ctx):
    import sciris as sc
    from atomica.programs import Covout
    from atomica.reconciliation import _update_progset

    rng = ctx.rng
    P = get_project("tb_simple")
    base_ps = P.progsets[0]
    prog_names = list(base_ps.programs.keys())
    key0 = list(base_ps.covouts.keys())[0]
    n = ctx.n(300, 6000)
    reqs, cases = [], []
    for _ in range(n):
        ps = sc.dcp(base_ps)
        k = rng.choice([0, 1, 1, 2, 2, 2, 3, 3, 4])
        names = rng.sample(prog_names, k)
        dyadic = rng.random() < 0.7  # values on a binary grid: float arithmetic is exact, so ties are real ties
        gridv = lambda: rng.randint(0, 64) / 64
        baseline = rng.choice([0.0, 0.125, 0.5, gridv()]) if dyadic else rng.choice([0.0, 0.1, 0.5, round(rng.uniform(0, 1), 2)])
        vals = []
        for _i in names:
            r = rng.random()
            if dyadic and r < 0.3 and vals:  # tie in |outcome - baseline| (stable sort)
                d = abs(vals[-1] - baseline)
                vals.append(baseline + rng.choice([d, -d]))
            elif dyadic:
                vals.append(gridv())
            else:
                vals.append(round(rng.uniform(0, 1), rng.choice([1, 2, 3])))
        progs = dict(zip(names, vals))
        inter_str = None
        if k >= 2 and rng.random() < 0.4:
            terms = []
            for _j in range(rng.randint(1, 2)):
                combo = rng.sample(names, rng.randint(2, k))
                terms.append("+".join(combo) + "=" + repr(round(rng.uniform(0, 1), 2)))
            inter_str = ",".join(terms)
        elif rng.random() < 0.1:
            inter_str = "best"
        cov_int = rng.choice(["additive", "additive", "random", "nested"])
        sigma = None if (inter_str and inter_str != "best") or rng.random() < 0.5 else 0.0
        c = Covout(par=key0[0], pop=key0[1], progs=progs, cov_interaction=cov_int, imp_interaction=inter_str, uncertainty=sigma, baseline=baseline)
        ps.covouts[key0] = c
        vis0 = (baseline, cov_int, list(progs.items()), parse_inter(inter_str))
        # a sequence of operations, each followed by the step oracle (object vs rebuilt object)
        nops = rng.choice([0, 1, 1, 2, 2, 3, 4])
        ops, first_bad = [], None
        live = list(names)
        for _j in range(nops):
            kind = rng.choice(["copy", "upd", "rm", "base", "out", "sample"])
            if kind == "rm":
                if not live:
                    continue
                nm = rng.choice(live)
                live.remove(nm)
                ps.remove_program(nm)
                ops.append(("rm", nm))
            elif kind == "base":
                x = gridv() if dyadic else round(rng.uniform(0, 1), 2)
                _update_progset([x], [("baseline", key0[0], key0[1])], ps)
                ops.append(("base", x))
            elif kind == "out":
                if not live:
                    continue
                nm = rng.choice(live)
                x = gridv() if dyadic else round(rng.uniform(0, 1), 2)
                _update_progset([x], [("outcome", key0[0], key0[1], nm)], ps)
                ops.append(("out", nm, x))
            elif kind == "upd":
                ps.covouts[key0].update_outcomes()
                ops.append(("upd",))
            elif kind == "copy":
                ps = sc.dcp(ps)
                ops.append(("copy",))
            elif kind == "sample":
                ps.covouts[key0].sample()  # sigma None: nothing; sigma 0: same values, update_outcomes
                ops.append(("copy",) if ps.covouts[key0].sigma is None else ("upd",))
            cur = ps.covouts[key0]
            if first_bad is None:
                first_bad_here = step_oracle(cur, list(ps.programs.keys()), rng)
                if first_bad_here:
                    first_bad = (len(ops) - 1, first_bad_here)
        cur = ps.covouts[key0]
        cov = [(p, rng.choice([0.0, 0.3, 1.0, round(rng.uniform(0, 1), 2)])) for p in ps.programs.keys()]
        reqs.append("cache " + evisible(*vis0) + " " + eops(ops) + " " + U.elist(cov, lambda kv: es(kv[0]) + " " + q(kv[1])))
        cases.append((vis0, inter_str, ops, cov, covout_state(cur), impl_outcome(cur, cov), first_bad))
    reps = core.drive(reqs)
    for (vis0, inter_str, ops, cov, impl, impl_out, first_bad), rep in zip(cases, reps):
        parts = rep.split(" | ")
        spec, cur, reimp = (pstate(Toks(x)) for x in parts)
        key = {"api": "Covout", "vis": repr(vis0), "ops": repr(ops)}
        unsafe = [o[0] for o in ops if o[0] in ("rm", "base", "out")]
        ctx.case(key, nontrivial=bool(ops) and len(vis0[2]) >= 1)
        ctx.traces += 1
        ctx.count("cache.n_progs=%d" % len(vis0[2]))
        ctx.count("cache.ops=%d" % len(ops))
        for o in ops:
            ctx.count("cache.op." + o[0])
        if vis0[3]:
            ctx.count("cache.with_interactions")
        # |outcome - baseline| of two programs can be equal (or ordered differently) in double arithmetic while the exact values of the
        # same doubles differ: the sort order is then decided by rounding -- accepted either way (values on the binary grid never do this)
        fb = Fraction(*float(vis0[0]).as_integer_ratio())
        allv = [Fraction(*float(v).as_integer_ratio()) for _, v in vis0[2]] + [Fraction(*float(v).as_integer_ratio()) for _, v in impl["progs"]] + [Fraction(*float(o[-1]).as_integer_ratio()) for o in ops if o[0] in ("out",)]
        bases = [fb, Fraction(*float(impl["baseline"]).as_integer_ratio())] + [Fraction(*float(o[1]).as_integer_ratio()) for o in ops if o[0] == "base"]
        ds_ = sorted({abs(v - b) for v in allv for b in bases})
        near_tie = any(0 < (b - a) < Fraction(1, 10**12) for a, b in zip(ds_, ds_[1:]))

        def matches(m):
            if m is None or not state_matches(m, impl):
                return False
            if isinstance(m["outcome"], Fraction):
                return impl_out[0] == "ok" and core.close(m["outcome"], impl_out[1], rtol=1e-10, atol=1e-13)
            if m["outcome"] in ("keyerror", "indexerror"):
                return impl_out[0] == m["outcome"]
            return True

        if spec is not None and isinstance(spec["outcome"], Fraction):
            ctx.count("cache.outcome_modelled")
        ctx.hyp_checked += 1
        ctx.hyp_held += int(cur is not None and cur["inv"])
        agrees = matches(spec)
        ctx.count("cache.agrees_with_spec" if agrees else "cache.differs_from_spec")
        if first_bad is not None:
            ctx.disagreements_checked += 1
            op = [o for o in ops[: first_bad[0] + 1] if o[0] in ("rm", "base", "out")][-1:] or [ops[first_bad[0]]]
            op = op[0]
            case = "stale Covout cache" if "get_outcome" in first_bad[1] else "imp_interaction still names a removed program"
            ctx.violation({"api": OP_API[op[0]], "case": case}, f"after {ops[:first_bad[0] + 1]} on Covout(baseline={vis0[0]}, progs={vis0[2]}, imp_interaction={inter_str!r}, {vis0[1]}): {first_bad[1]}", {"kind": "cache", "baseline": vis0[0], "cov_interaction": vis0[1], "progs": vis0[2], "imp_interaction": inter_str, "ops": ops[: first_bad[0] + 1], "matches_current_code_model": matches(cur)})
        elif agrees:
            pass
        elif near_tie:
            ctx.ambiguous += 1
        elif matches(cur):
            # the private cache is not derive(visible) (it is what the code as written leaves), but the outcomes are those of
            # the rebuilt Covout at every vertex of the coverage cube: stale entries that cannot be observed
            ctx.count("cache.stale_but_behaviour_equal")
        else:
            ctx.disagreements_checked += 1
            ctx.brk("correspondence", "Covout after the operations differs from Protocol.Cache.runSpec (and from runCurrent) with no observable outcome difference", vis=repr(vis0), ops=repr(ops), impl=repr(impl)[:500], impl_outcome=repr(impl_out), spec=repr(spec)[:700], current=repr(cur)[:300])


# ==================================================================================================
# mode E orchestration
# ==================================================================================================
def _init_worker():
    import c16_modee as E

    E.quiet()


def run_pool(ctx, jobs, label):
    import multiprocessing as mp

    import c16_modee as E

    if not jobs:
        return []
    t0 = time.time()
    out = []
    nproc = min(16, max(1, len(jobs)))
    with mp.get_context("fork").Pool(nproc, initializer=_init_worker) as pool:
        for job, rec in pool.imap_unordered(E.run_job, jobs, chunksize=1 if len(jobs) < 200 else 4):
            out.append((job, rec))
    out.sort(key=lambda jr: repr(jr[0]))
    for job, rec in out:
        E.merge(ctx, rec)
    ctx.notes.append("%s: %d jobs %.1fs" % (label, len(jobs), time.time() - t0))
    return out


def run_modee(ctx):
    import itertools

    import c16_modee as E

    E.quiet()
    rng = ctx.rng
    lib_q = ["tb_simple", "udt", "combined", "hypertension", "usdt", "dt"]
    lib_t = lib_q + ["hiv", "diabetes", "cervicalcancer", "udt_dyn", "hiv_dyn", "hypertension_dyn", "tb_simple_dyn", "service", "tb"]
    libs = lib_q if ctx.quick else lib_t
    ops_projects = ["udt", "hypertension", "combined+transfers"]
    for name in set(libs + ops_projects + E.GEN_FRAMEWORKS):
        get_project(name)  # load once in the parent; the forked workers copy from this cache
    jobs = [("library", n) for n in libs] + [("migrated", f) for f in E.MIGRATION_FILES]
    jobs += [("generated", ctx.seed * 100003 + i) for i in range(ctx.n(60, 800))]
    jobs += [("genfw", ctx.seed * 100019 + i) for i in range(ctx.n(12, 200))]
    jobs += [("substring", n) for n in (["udt"] if ctx.quick else ["udt", "hypertension"])]
    jobs += [("versions", n) for n in (["udt", "tb_simple"] if ctx.quick else ["udt", "tb_simple", "hypertension", "combined"])]
    run_pool(ctx, sorted(jobs, key=lambda j: j[0] != "library" or j[1] != "tb"), "library+generated")
    # operation sequences: phase 1 (length <= 2, every failure shrunk), phase 2 (longer; known minimal failures are not shrunk again)
    seqs = lambda n: [list(s) for k in range(n + 1) for s in itertools.product(E.OPS, repeat=k)]
    seed = ctx.seed * 7919 + 11
    p1 = [("ops", "udt", s, seed) for s in seqs(2)]
    p1 += [("ops", "hypertension", s, seed) for s in (seqs(2) if not ctx.quick else seqs(1) + [s for s in seqs(2)[12:] if rng.random() < 0.15])]
    p1 += [("ops", "combined+transfers", s, seed) for s in seqs(1) + [s for s in seqs(2)[12:] if rng.random() < (0.05 if ctx.quick else 1.0)]]
    res = run_pool(ctx, p1, "ops<=2")
    known = {}
    for _job, rec in res:
        for n in rec.notes:
            if n[0] == "minimal":
                known.setdefault(n[1], [])
                if n[2] not in known[n[1]]:
                    known[n[1]].append(n[2])
    ctx.extra["ops_minimal_failing"] = {k: v[:6] for k, v in known.items()}
    if not ctx.quick:
        l3 = [list(s) for s in itertools.product(E.OPS, repeat=3)]
        l4 = [list(s) for s in itertools.product(E.OPS, repeat=4)]
        # every sequence of length 3 on two projects; the 14641 sequences of length 4 are split into three thirds by
        # VERIF_SEED mod 3, so that seeds 0, 1, 2 together enumerate all of them
        l4 = [s for i, s in enumerate(l4) if i % 3 == ctx.seed % 3]
        p2 = [("ops", "udt", s, seed, known) for s in l3 + l4]
        p2 += [("ops", ["hypertension", "combined+transfers"][i % 2], s, seed, known) for i, s in enumerate(l3)]
        run_pool(ctx, p2, "ops 3..4")
        ctx.exhaustive = False
        ctx.extra["ops_enumeration"] = "all sequences of length <= 3; length 4: the third with index = seed mod 3 (seeds 0,1,2 together: all 14641)"
    else:
        ctx.exhaustive = False


def run(ctx):
    import os

    parts = [x for x in os.environ.get("C16_PARTS", "tdve,yfac,cache,modee").split(",") if x]  # development aid; default: everything
    for name, fn in (("tdve", run_tdve), ("yfac", run_yfac), ("cache", run_cache), ("modee", run_modee)):
        if name in parts:
            t0 = time.time()
            fn(ctx)
            ctx.notes.append("%s %.1fs" % (name, time.time() - t0))
    if parts != ["tdve", "yfac", "cache", "modee"]:
        ctx.notes.append("PARTIAL RUN: C16_PARTS=" + ",".join(parts))
    summary, examples = {}, {}
    for v in ctx.violations:
        k = json.dumps(v["key"], sort_keys=True)
        summary[k] = summary.get(k, 0) + 1
        examples.setdefault(k, {"what": v["what"][:600], "replay": v["replay"]})
    ctx.extra["violation_keys"] = summary
    ctx.extra["violation_examples"] = examples
    ctx.extra["breaks_examples"] = [{k: (str(x)[:600]) for k, x in b.items()} for b in ctx.breaks[:5]]


def replay(ctx, data):
    """./check C16 --replay FILE : re-run one recorded failing input against the current code; exit 1 if it still fails"""
    import c16_modee as E

    E.quiet()
    r = data.get("replay", {})
    kind = r.get("kind")
    print("replaying", data.get("key"), "--", str(data.get("what"))[:300])
    if kind == "ops":
        res = E.run_sequence(r["project"], [(int(i), o) for i, o in r["ops"]], r["seed"], get_project)
        print("result:", res if res else "held")
        return 1 if res else 0
    if kind == "generated":
        rec = E.job_generated(r["seed"], get_project)
        for v in rec.violations:
            print("violation:", v[0], v[1][:400])
        return 1 if rec.violations else 0
    if kind in ("genfw", "versions", "substring_programs"):
        rec = E.job_genfw(r["seed"]) if kind == "genfw" else (E.job_versions(r["project"], get_project) if kind == "versions" else E.job_substring_programs(r["project"], get_project))
        for v in rec.violations:
            print("violation:", v[0], v[1][:400])
        print("replay:", "FAILS" if rec.violations else "passes")
        return 1 if rec.violations else 0
    if kind == "migrated":
        rec = E.job_migrated(r["file"])
        for v in rec.violations:
            print("violation:", v[0], v[1][:400])
        return 1 if rec.violations else 0
    if kind == "library":
        rec = E.job_library(r["project"], get_project)
        for v in rec.violations:
            print("violation:", v[0], v[1][:400])
        return 1 if rec.violations else 0
    if kind == "yfac":
        import random

        import sciris as sc

        P = get_project(r["project"])
        ps = sc.dcp(P.parsets[0])
        randomise_y(ps, random.Random(1))
        before = parset_entries(ps)
        rows = [(a, b, [tuple(kv) for kv in c]) for a, b, c in r["rows"]]
        ss = table_to_spreadsheet(rows, r["cols"])
        rows_file, _ = spreadsheet_to_table(ss)
        try:
            ps.load_calibration(ss)
        except Exception as ex:  # noqa
            print("load_calibration raised", type(ex).__name__, ex)
            return 1
        table = {(a, b): dict(c) for a, b, c in rows_file}
        bad = 0
        for (pn, pp, m0, y0), (_, _, m1, y1) in zip(before, parset_entries(ps)):
            cells = table.get((pn, pp), {})
            for what, v0, v1, exp in [("meta_y_factor", m0, m1, cells.get("meta_y_factor"))] + [(k, a, b, cells.get(k)) for (k, a), (_, b) in zip(y0, y1)]:
                if (exp is None and v1 != v0) or (exp is not None and v1 != exp):
                    print(f"{pn}/{pp} {what}: before {v0}, file {exp}, after {v1}")
                    bad += 1
        print("load_calibration:", "documented behaviour holds" if not bad else f"{bad} values wrong")
        return 1 if bad else 0
    if kind == "cache":
        import sciris as sc
        from atomica.programs import Covout
        from atomica.reconciliation import _update_progset

        P = get_project("tb_simple")
        ps = sc.dcp(P.progsets[0])
        key0 = list(ps.covouts.keys())[0]
        ps.covouts[key0] = Covout(par=key0[0], pop=key0[1], progs=dict(map(tuple, r["progs"])), cov_interaction=r["cov_interaction"], imp_interaction=r["imp_interaction"], baseline=r["baseline"], uncertainty=None)
        for op in r["ops"]:
            if op[0] == "rm":
                ps.remove_program(op[1])
            elif op[0] == "base":
                _update_progset([op[1]], [("baseline", key0[0], key0[1])], ps)
            elif op[0] == "out":
                _update_progset([op[2]], [("outcome", key0[0], key0[1], op[1])], ps)
            elif op[0] == "upd":
                ps.covouts[key0].update_outcomes()
            elif op[0] == "copy":
                ps = sc.dcp(ps)
        bad = step_oracle(ps.covouts[key0], list(ps.programs.keys()), ctx.rng)
        print("result:", bad or "held")
        return 1 if bad else 0
    if kind == "tdve":
        e = r["spec"]
        for row in e["rows"]:
            row["pts"] = [tuple(p) for p in row["pts"]]
        st = impl_decode(write_tables([e])[0])
        ok = st[0] == "ok" and content_same16(e, st[1])
        print("from_rows(write(e)):", "content preserved" if ok else st)
        return 0 if ok else 1
    if kind == "grid":
        st = impl_decode(write_grids([r["grid"]])[0])
        print("from_rows:", st[0], st[1] if st[0] == "err" else "")
        return 1 if st[0] == "err" else 0
    print(json.dumps(data, indent=1)[:3000])
    return 0


if __name__ == "__main__":
    core.main(sys.modules[__name__])
