"""
vlib.genfw -- generated model specifications -> real atomica objects (framework, data, parset, settings), in memory.

A *spec* is a plain JSON-able dict (so that every case replays exactly):

  comps:   [{name, kind: normal|source|sink|junction, init: {pop: value}|None, databook: bool}]
  characs: [{name, components: [..], denominator: name|None, databook: bool, init: {pop: value}|None}]
  pars:    [{name, format, timescale: float|None, function: str|None, min, max, timed: bool, targetable: bool,
             databook: bool, value: {pop: number | {"t": [...], "v": [...], "assumption": x|None}}}]
  transitions: [[src, dst, parname | ">"], ...]
  pops:    [name, ...]
  transfers: [{name, units: "rate"|"number"|"probability"|"duration", pairs: [[from, to, value], ...]}]
  settings: [start, end, dt]
  programs: (optional) {"start": year, "progs": [{name, target_comps, spend, unit_cost, continuous: bool}],
                        "covouts": [{par, pop, baseline, progs: {prog: outcome}}]}   -> ProgramSet + ProgramInstructions (see `build_programs`)
  pop_types: (optional) ["ta", "tb"] several population types (see `build_typed`): "pop_type_of": {pop: type}; comps / characs / pars /
             transfers entries carry "pop_type"; interactions carry "from_type" / "to_type" (default: the first type)
  scenarios: (optional) [{"par", "pop", "t": [...], "y": [...], "interp": "linear"|"previous", "group": id|None, "hi": year|None}]
             parameter scenarios applied to the parset through `ParameterScenario.get_parset` (entries with the same "group" form
             ONE scenario); "hi" closes the skip window of a function parameter at that year (`Parameter.skip_function = (lo, hi)`)
"""
from __future__ import annotations

import math

import numpy as np
import pandas as pd

UNITS_LABEL = {"rate": "Rate (per year)", "number": "Number (per year)", "probability": "Probability (per year)", "duration": "Duration (years)"}


def _df(cols, rows):
    return pd.DataFrame(rows, columns=cols)


def build_framework(spec):
    import atomica as at

    fw = at.ProjectFramework()
    fw.sheets["databook pages"] = [_df(["datasheet code name", "datasheet title"], [["stocks", "Stocks"], ["flows", "Flows"]])]
    rows = []
    for c in spec["comps"]:
        k = c["kind"]
        db = "stocks" if c.get("databook") else None
        rows.append([c["name"], c["name"].upper() + " comp", "y" if k == "source" else "n", "y" if k == "sink" else "n", "y" if k == "junction" else "n", 1 if c.get("databook") else 0, None, db])
    fw.sheets["compartments"] = [_df(["code name", "display name", "is source", "is sink", "is junction", "setup weight", "default value", "databook page"], rows)]
    names = [c["name"] for c in spec["comps"]]
    tm = pd.DataFrame(None, index=names, columns=names, dtype=object)
    for s, d, p in spec["transitions"]:
        cur = tm.loc[s, d]
        tm.loc[s, d] = p if (cur is None or (isinstance(cur, float) and math.isnan(cur))) else f"{cur},{p}"
    tm = tm.reset_index().rename(columns={"index": "Transition Matrix"})
    tm.columns.name = None
    fw.sheets["transitions"] = [tm]
    rows = []
    for c in spec.get("characs", []):
        rows.append([c["name"], c["name"].upper() + " charac", ",".join(c["components"]), c.get("denominator"), 1 if c.get("databook") else 0, None, "stocks" if c.get("databook") else None])
    if rows:
        fw.sheets["characteristics"] = [_df(["code name", "display name", "components", "denominator", "setup weight", "default value", "databook page"], rows)]
    rows = []
    for p in spec["pars"]:
        rows.append([p["name"], p["name"].upper() + " par", p["format"], None, p.get("min"), p.get("max"), p.get("function"), "flows" if p.get("databook", True) else None,
                     "y" if p.get("targetable") else "n", p.get("timescale"), "y" if p.get("derivative") else "n", "y" if p.get("timed") else "n"])
    fw.sheets["parameters"] = [_df(["code name", "display name", "format", "default value", "minimum value", "maximum value", "function", "databook page", "targetable", "timescale", "is derivative", "timed"], rows)]
    if spec.get("interactions"):
        fw.sheets["interactions"] = [_df(["code name", "display name"], [[i["name"], i["name"].upper() + " interaction"] for i in spec["interactions"]])]
    if spec.get("cascades"):
        fw.sheets["cascades"] = []
        for cname, stages in spec["cascades"].items():
            fw.sheets["cascades"].append(_df([cname, "constituents"], [[s, ",".join(cs)] for s, cs in stages]))
    fw._validate()
    return fw


def _set_ts(ts, val):
    """val: number | {"t": [...], "v": [...], "assumption": x}"""
    ts.t = []
    ts.vals = []
    ts.assumption = None
    if isinstance(val, dict):
        if val.get("assumption") is not None:
            ts.assumption = float(val["assumption"])
        for t, v in zip(val.get("t", []), val.get("v", [])):
            ts.insert(float(t), float(v))
    else:
        ts.assumption = float(val)


def build_data(spec, fw):
    import atomica as at
    from atomica.utils import TimeSeries

    start, end, dt = spec["settings"]
    years = np.arange(math.floor(start), math.floor(start) + 3, 1.0)
    pops = {p: p.upper() + " pop" for p in spec["pops"]}
    data = at.ProjectData.new(fw, years, pops=pops, transfers={t["name"]: t["name"].upper() + " transfer" for t in spec.get("transfers", [])} or 0)
    for c in spec["comps"]:
        if c.get("databook"):
            for pop in spec["pops"]:
                _set_ts(data.tdve[c["name"]].ts[pop], (c.get("init") or {}).get(pop, 0.0))
    for c in spec.get("characs", []):
        if c.get("databook"):
            for pop in spec["pops"]:
                _set_ts(data.tdve[c["name"]].ts[pop], (c.get("init") or {}).get(pop, 0.0))
    for p in spec["pars"]:
        if p.get("databook", True):
            for pop in spec["pops"]:
                v = (p.get("value") or {}).get(pop, None)
                if v is None:
                    if p.get("function"):
                        ts = data.tdve[p["name"]].ts[pop]
                        ts.t, ts.vals, ts.assumption = [], [], None
                        continue
                    v = 0.0
                _set_ts(data.tdve[p["name"]].ts[pop], v)
            if p.get("all_row"):   # one databook row "All" that applies to every population
                tdve = data.tdve[p["name"]]
                ts_all = tdve.ts[spec["pops"][0]]
                tdve.ts.clear()
                tdve.ts["All"] = ts_all
    for t in spec.get("transfers", []):
        tdc = next(x for x in data.transfers if x.code_name == t["name"])
        tdc.ts.clear()
        for a, b, v in t["pairs"]:
            ts = TimeSeries(units=UNITS_LABEL[t["units"]])
            _set_ts(ts, v)
            tdc.ts[(a, b)] = ts
    for it in spec.get("interactions", []):
        tdc = next(x for x in data.interpops if x.code_name == it["name"])
        tdc.ts.clear()
        for a, b, v in it["pairs"]:
            ts = TimeSeries(units="N.A.")
            _set_ts(ts, v)
            tdc.ts[(a, b)] = ts
    return data


def _type_of(spec, item):
    return item.get("pop_type") or spec["pop_types"][0]


def pops_of_type(spec, t):
    if not spec.get("pop_types"):
        return list(spec["pops"])
    pt = spec.get("pop_type_of") or {}
    return [p for p in spec["pops"] if (pt.get(p) or spec["pop_types"][0]) == t]


def pops_of_item(spec, item):
    """the populations a compartment / characteristic / parameter entry of the spec exists in"""
    return pops_of_type(spec, _type_of(spec, item)) if spec.get("pop_types") else list(spec["pops"])


def build_framework_typed(spec):
    """framework with several population types: every compartment / characteristic / parameter belongs to one type, one transition
    matrix per type, interactions from one type to another"""
    import atomica as at

    types = spec["pop_types"]
    fw = at.ProjectFramework()
    fw.sheets["population types"] = [_df(["code name", "description"], [[t, t.upper() + " type"] for t in types])]
    fw.sheets["databook pages"] = [_df(["datasheet code name", "datasheet title"], [["stocks", "Stocks"], ["flows", "Flows"]])]
    rows = []
    for c in spec["comps"]:
        k = c["kind"]
        rows.append([c["name"], c["name"].upper() + " comp", "y" if k == "source" else "n", "y" if k == "sink" else "n", "y" if k == "junction" else "n",
                     1 if c.get("databook") else 0, None, "stocks" if c.get("databook") else None, _type_of(spec, c)])
    fw.sheets["compartments"] = [_df(["code name", "display name", "is source", "is sink", "is junction", "setup weight", "default value", "databook page", "population type"], rows)]
    fw.sheets["transitions"] = []
    for t in types:
        names = [c["name"] for c in spec["comps"] if _type_of(spec, c) == t]
        if not names:
            continue
        tm = pd.DataFrame(None, index=names, columns=names, dtype=object)
        for s_, d_, p_ in spec["transitions"]:
            if s_ not in names:
                continue
            cur = tm.loc[s_, d_]
            tm.loc[s_, d_] = p_ if (cur is None or (isinstance(cur, float) and math.isnan(cur))) else f"{cur},{p_}"
        tm = tm.reset_index().rename(columns={"index": t})
        tm.columns.name = None
        fw.sheets["transitions"].append(tm)
    rows = []
    for c in spec.get("characs", []):
        rows.append([c["name"], c["name"].upper() + " charac", ",".join(c["components"]), c.get("denominator"), 1 if c.get("databook") else 0, None,
                     "stocks" if c.get("databook") else None, _type_of(spec, c)])
    if rows:
        fw.sheets["characteristics"] = [_df(["code name", "display name", "components", "denominator", "setup weight", "default value", "databook page", "population type"], rows)]
    rows = []
    for p in spec["pars"]:
        rows.append([p["name"], p["name"].upper() + " par", p["format"], None, p.get("min"), p.get("max"), p.get("function"), "flows" if p.get("databook", True) else None,
                     "y" if p.get("targetable") else "n", p.get("timescale"), "y" if p.get("derivative") else "n", "y" if p.get("timed") else "n", _type_of(spec, p)])
    fw.sheets["parameters"] = [_df(["code name", "display name", "format", "default value", "minimum value", "maximum value", "function", "databook page", "targetable", "timescale", "is derivative", "timed", "population type"], rows)]
    # with several types the automatic fallback cascade is refused: one explicit single-stage cascade per type
    fw.sheets["cascades"] = []
    for t in types:
        names = [c["name"] for c in spec["comps"] if _type_of(spec, c) == t and c["kind"] == "normal"]
        if names:
            fw.sheets["cascades"].append(_df(["cascade_" + t, "constituents"], [["everybody_" + t, ",".join(names)]]))
    if spec.get("interactions"):
        fw.sheets["interactions"] = [_df(["code name", "display name", "from population type", "to population type"],
                                         [[i["name"], i["name"].upper() + " interaction", i.get("from_type") or types[0], i.get("to_type") or types[0]] for i in spec["interactions"]])]
    fw._validate()
    return fw


def build_data_typed(spec, fw):
    import atomica as at
    from atomica.utils import TimeSeries

    start, end, dt = spec["settings"]
    years = np.arange(math.floor(start), math.floor(start) + 3, 1.0)
    types = spec["pop_types"]
    pt = spec.get("pop_type_of") or {}
    pops = {p: {"label": p.upper() + " pop", "type": pt.get(p) or types[0]} for p in spec["pops"]}
    transfers = {t["name"]: {"label": t["name"].upper() + " transfer", "type": t.get("pop_type") or types[0]} for t in spec.get("transfers", [])} or 0
    data = at.ProjectData.new(fw, years, pops=pops, transfers=transfers)
    for c in list(spec["comps"]) + list(spec.get("characs", [])):
        if c.get("databook"):
            for pop in pops_of_item(spec, c):
                _set_ts(data.tdve[c["name"]].ts[pop], (c.get("init") or {}).get(pop, 0.0))
    for p in spec["pars"]:
        if p.get("databook", True):
            for pop in pops_of_item(spec, p):
                v = (p.get("value") or {}).get(pop, None)
                if v is None:
                    if p.get("function"):
                        ts = data.tdve[p["name"]].ts[pop]
                        ts.t, ts.vals, ts.assumption = [], [], None
                        continue
                    v = 0.0
                _set_ts(data.tdve[p["name"]].ts[pop], v)
    for t in spec.get("transfers", []):
        tdc = next(x for x in data.transfers if x.code_name == t["name"])
        tdc.ts.clear()
        for a, b, v in t["pairs"]:
            ts = TimeSeries(units=UNITS_LABEL[t["units"]])
            _set_ts(ts, v)
            tdc.ts[(a, b)] = ts
    for it in spec.get("interactions", []):
        tdc = next(x for x in data.interpops if x.code_name == it["name"])
        tdc.ts.clear()
        for a, b, v in it["pairs"]:
            ts = TimeSeries(units="N.A.")
            _set_ts(ts, v)
            tdc.ts[(a, b)] = ts
    return data


def build(spec, with_settings=True):
    """-> (framework, data, parset, settings)"""
    import atomica as at

    if spec.get("pop_types"):
        fw = build_framework_typed(spec)
        data = build_data_typed(spec, fw)
    else:
        fw = build_framework(spec)
        data = build_data(spec, fw)
    parset = at.ParameterSet(fw, data, "default")
    for pname, yf in (spec.get("y_factors") or {}).items():
        for pop, f in yf.items():
            if pop == "_meta":
                parset.pars[pname].meta_y_factor = float(f)
            else:
                parset.pars[pname].y_factor[pop] = float(f)
    for tname, yf in (spec.get("transfer_y_factors") or {}).items():
        # calibration factors of a transfer: one Parameter per source population, y_factor per destination population, one all-population factor
        for frm, par in parset.transfers[tname].items():
            if "_meta" in yf:
                par.meta_y_factor = float(yf["_meta"])
            for to in list(par.y_factor.keys()):
                if f"{frm}>{to}" in yf:
                    par.y_factor[to] = float(yf[f"{frm}>{to}"])
    start, end, dt = spec["settings"]
    settings = at.ProjectSettings(sim_start=start, sim_end=end, sim_dt=dt)
    if spec.get("scenarios"):
        parset = apply_scenarios(spec["scenarios"], parset, fw, settings)
    return fw, data, parset, settings


def apply_scenarios(scen, parset, fw, settings):
    """parameter scenarios through the public API (`ParameterScenario.get_parset`); entries that carry the same "group" belong to one
    scenario; an entry with "hi" gets its skip window closed at that year afterwards (`skip_function = (lo, hi)`)"""
    import types

    import atomica as at

    stub = types.SimpleNamespace(settings=settings, framework=fw)
    done = set()
    for k, s in enumerate(scen):
        if k in done:
            continue
        members = [j for j, s2 in enumerate(scen) if j >= k and s.get("group") is not None and s2.get("group") == s.get("group")] or [k]
        done.update(members)
        values = {}
        for j in members:
            values.setdefault(scen[j]["par"], {})[scen[j]["pop"]] = {"t": list(scen[j]["t"]), "y": list(scen[j]["y"])}
        parset = at.ParameterScenario(name="sc%d" % k, scenario_values=values, interpolation=s.get("interp", "linear")).get_parset(parset, stub)
        for j in members:
            if scen[j].get("hi") is not None:
                sk = parset.pars[scen[j]["par"]].skip_function.get(scen[j]["pop"])
                if sk:
                    parset.pars[scen[j]["par"]].skip_function[scen[j]["pop"]] = (sk[0], float(scen[j]["hi"]))
    return parset


def build_programs(spec, fw, data):
    """spec["programs"] -> (ProgramSet, ProgramInstructions): program outcomes overwrite the targeted parameters from `start` on"""
    import atomica as at

    ps_ = spec["programs"]
    start = spec["settings"][0]
    pset = at.ProgramSet.new(framework=fw, data=data, progs={g["name"]: g["name"].upper() + " program" for g in ps_["progs"]}, tvec=np.array([start]))
    for g in ps_["progs"]:
        prog = pset.programs[g["name"]]
        prog.target_pops = list(spec["pops"])
        prog.target_comps = list(g["target_comps"])
        prog.spend_data.insert(start, float(g["spend"]))
        prog.unit_cost.insert(start, float(g["unit_cost"]))
        if g.get("continuous", True):
            prog.unit_cost.units = "$/person/year"
    for c in ps_["covouts"]:
        pset.covouts[(c["par"], c["pop"])] = at.programs.Covout(par=c["par"], pop=c["pop"], progs=dict(c["progs"]), baseline=float(c["baseline"]))
    pset.validate()
    return pset, at.ProgramInstructions(start_year=float(ps_["start"]))


def run(spec, progset=None, instructions=None, capture_preflush=False):
    """Build and process a Model; returns the processed Model (kept linked, with _exec_order)."""
    from atomica.model import Model

    fw, data, parset, settings = build(spec)
    if progset is None and spec.get("programs"):
        progset, instructions = build_programs(spec, fw, data)
    m = Model(settings, fw, parset, progset, instructions)
    m._verif_parset = parset
    pre = {}
    if capture_preflush:
        orig = m.flush_junctions

        def wrapped():
            pre["stock"] = snapshot_stock(m, 0)
            pre["pv"] = {par.id: float(par.vals[0]) for pop in m.pops for par in pop.pars if par.vals is not None}
            orig()

        m.flush_junctions = wrapped
    m.process()
    if capture_preflush:
        m._verif_preflush = pre
    return m


# ----------------------------------------------------------------------------------------------
# random specs
# ----------------------------------------------------------------------------------------------
DTS = [1.0, 0.5, 0.25, 0.2, 0.1, 1 / 12, 1 / 52, 0.3, 0.7, 1 / 365]
TSCALES = [None, 1.0, 1 / 12, 1 / 52, 1 / 365, 7 / 365]


def _val(r, regime, fmt):
    """a parameter value by format and regime"""
    if fmt in ("rate", "probability"):
        if regime == "extreme":
            return r.choice([0.0, 5.0, 40.0, 500.0, r.random() * 3, -0.5])
        if regime == "boundary":
            return r.choice([0.0, 1.0, 0.5, 0.25, 2.0, 4.0])
        return round(r.random() * 0.8, 3)
    if fmt == "duration":
        if regime == "extreme":
            return r.choice([0.001, 0.01, 0.05, 30.0, r.random() * 2 + 0.01])
        if regime == "boundary":
            return r.choice([1.0, 0.5, 0.25, 2.0, 3 * 0.1, 5 / 12, 0.1])
        return round(0.2 + r.random() * 5, 3)
    if fmt == "number":
        if regime == "extreme":
            return r.choice([0.0, 1e4, 1e6, 3.0, -2.0])
        if regime == "boundary":
            return r.choice([0.0, 10.0, 100.0, 400.0])
        return round(r.random() * 50, 2)
    if fmt == "proportion":
        if regime == "boundary":
            return r.choice([0.0, 1.0, 0.5, 0.25, 0.75])
        return round(r.random(), 3)
    return round(r.random(), 3)


def _series(r, regime, fmt, start):
    """sometimes a time-varying series instead of a constant"""
    x = r.random()
    if x < 0.6:
        return _val(r, regime, fmt)
    n = r.choice([1, 2, 3, 4])
    ts = sorted(r.sample([start - 3, start - 1, start, start + 0.5, start + 1, start + 2, start + 4, start + 10], n))
    return {"t": ts, "v": [_val(r, regime, fmt) for _ in ts], "assumption": None}


def random_spec(r, regime="calibrated", features=None):
    """
    features (all optional, default random): junctions, residual, timed, source, sinks, transfers, functions, npops, chain
    junction-specific (C04; consume random numbers only when given, so other streams are unchanged):
      jinit   probability that a junction is initialised through the databook (default 0.3)
      jtv     probability that a junction proportion is a time-varying series
      jfunc   probability that a junction proportion is a function of model state
      jgroup  True: add 1-2 junctions INSIDE duration group 0 (inflow and outflows within the group; needs timed >= 1)
      jshape  "chain" | "fan" | "diamond": force that shape on the first junctions (needs junctions >= 2 / 1 / 4)
      progs   True: a ProgramSet whose outcomes overwrite 1-2 junction proportions from some index on (spec["programs"])
      max_rows  clamp durations so that timed compartments have at most this many rows
    duration-group specific (C05): group_size, duration, dur_function, group_junction (probability of a junction inside each group),
      gj_rich   probability that such a junction is drawn from the rich family (1-2 chained junctions, several timed inflows, 1-3 outflows
                with proportions summing to < 1 / = 1 / > 1 / varying in time, residual outflow)
      stay_in_group  probability that an ordinary transition out of a timed compartment stays inside its duration group (default 0.5)
    """
    f = dict(features or {})
    n_norm = f.get("n_norm", r.randint(2, 5))
    n_pops = f.get("npops", r.choice([1, 1, 2, 3]))
    has_source = f.get("source", r.random() < 0.5)
    n_sink = f.get("sinks", r.choice([0, 1, 1, 2]))
    n_junc = f.get("junctions", r.choice([0, 0, 1, 2, 3]))
    n_groups = f.get("timed", r.choice([0, 0, 1, 2]))
    start = f.get("start", r.choice([2000, 2000, 2010, 2015.5]))
    dt = f.get("dt", r.choice(DTS))
    nsteps = f.get("nsteps", r.randint(6, 24))
    end = start + nsteps * dt
    pops = ["pa", "pb", "pc"][:n_pops]

    comps, pars, trans = [], [], []
    norm = [f"c{i}" for i in range(n_norm)]
    pcount = [0]

    def newpar(fmt, **kw):
        name = f"{fmt[:2]}{pcount[0]}"
        pcount[0] += 1
        p = {"name": name, "format": fmt, "timescale": None, "function": None, "min": None, "max": None, "timed": False, "targetable": False, "databook": True, "value": {}}
        if fmt in ("rate", "probability", "number", "duration") and not kw.get("timed"):
            p["timescale"] = r.choice(TSCALES) if r.random() < 0.4 else None
        p.update(kw)
        for pop in pops:
            p["value"][pop] = _series(r, regime, fmt, start) if not p["timed"] else _val(r, regime, fmt)
        pars.append(p)
        return p

    def popvals(lo, hi, zero_p=0.15):
        return {pop: (0.0 if r.random() < zero_p else round(lo + r.random() * (hi - lo), 2)) for pop in pops}

    for c in norm:
        comps.append({"name": c, "kind": "normal", "databook": True, "init": popvals(10, 1000, f.get("zero_init", 0.15))})
    # duration groups
    timed_comps = {}
    groups = []
    for g in range(n_groups):
        n_mem = r.choice([1, 1, 2])
        if f.get("group_size"):  # C05: force the number of compartments per duration group
            n_mem = f["group_size"]
        members = [f"t{g}{i}" for i in range(n_mem)]
        if f.get("jgroup") and g == 0 and len(members) < 2:
            members = [f"t{g}0", f"t{g}1"] + ([f"t{g}2"] if r.random() < 0.3 else [])
        groups.append(members)
        dpar = newpar("duration", timed=True, timescale=r.choice([None, None, 1 / 12, 1 / 52]))
        if f.get("duration") is not None:
            # C05: the duration is given in years (formed in floating point by the caller), so no timescale;
            # a list gives one duration per population (groups whose length differs between populations)
            dpar["timescale"] = None
            dv = f["duration"]
            dpar["value"] = {pop: (dv[i % len(dv)] if isinstance(dv, (list, tuple)) else dv) for i, pop in enumerate(pops)}
        elif regime != "extreme":
            # make it a handful of steps
            k = r.choice([1, 2, 3, 4, 6])
            ts = dpar["timescale"] or 1.0
            dpar["value"] = {pop: (k * dt) / ts * r.choice([1.0, 1.0, 1.3, 0.6]) for pop in pops}
        if f.get("max_rows"):
            # keep the keyring short (C04 does not need thousands of rows; one exact model step costs ~7 s CPU for 10^4 rows)
            ts_ = dpar["timescale"] or 1.0
            for pop in pops:
                if dpar["value"][pop] * ts_ / dt > f["max_rows"]:
                    dpar["value"][pop] = f["max_rows"] * dt / ts_ * r.choice([1.0, 0.9, 0.5])
        if f.get("dur_function") and r.random() < f["dur_function"]:
            # C05: the duration is given by a function of another (non-transition) parameter and ALSO has a databook value, which the function supersedes
            base = newpar("duration", timescale=dpar["timescale"])
            base["name"] = f"xb{g}"
            base["value"] = {pop: dpar["value"][pop] / 2 for pop in pops}
            dpar["function"] = f"2*xb{g}"
            dpar["value"] = {pop: dpar["value"][pop] * 1.6 for pop in pops}
        for mname in members:
            comps.append({"name": mname, "kind": "normal", "databook": True, "init": popvals(5, 300)})
            timed_comps[mname] = dpar["name"]
    # sinks / source / junctions
    sinks = [f"k{i}" for i in range(n_sink)]
    for s in sinks:
        comps.append({"name": s, "kind": "sink"})
    if has_source:
        comps.append({"name": "src", "kind": "source"})
    juncs = [f"j{i}" for i in range(n_junc)]
    jcomps = []
    for j in juncs:
        jinit = r.random() < f.get("jinit", 0.3)
        jcomps.append({"name": j, "kind": "junction", "databook": jinit, "init": popvals(5, 100, 0.3) if jinit else None})
    if f.get("jreverse"):
        jcomps.reverse()   # the feeding junction stands BELOW the junction it feeds in the compartments sheet: the order of evaluation must come from the links, not from the listing
    comps.extend(jcomps)

    stocks = norm + list(timed_comps)
    # ordinary transitions
    n_tr = r.randint(max(1, len(stocks) - 1), len(stocks) + 3) + f.get("n_tr_extra", 0)
    for _ in range(n_tr):
        fmt = r.choice(f.get("formats", ["rate", "probability", "duration", "number", "rate"]))
        p = newpar(fmt)
        srcs = r.sample(stocks, r.choice([1, 1, 1, 2]) if len(stocks) > 1 else 1)
        for s in srcs:
            if timed_comps.get(s) and r.random() < f.get("stay_in_group", 0.5):
                # stay in group when possible (TimedLink); C05 groups: `stay_in_group` = 1 makes duration groups closed
                same = [x for x in timed_comps if timed_comps[x] == timed_comps[s] and x != s]
                cand = same or [x for x in stocks + sinks if x != s and timed_comps.get(x) != timed_comps.get(s)]
            else:
                cand = [x for x in stocks + sinks + juncs if x != s]
            if not cand:
                continue
            d = r.choice(cand)
            trans.append([s, d, p["name"]])
    # flush links of timed compartments (must leave the group)
    for tcomp, dname in timed_comps.items():
        cand = [x for x in norm + sinks + [j for j in juncs] if True] + [x for x in timed_comps if timed_comps[x] != dname]
        trans.append([tcomp, r.choice(cand), dname])
    # source
    if has_source:
        p = newpar("number")
        trans.append(["src", r.choice(stocks), p["name"]])
    # junction outflows (acyclic: only to later junctions)
    def jprop(share):
        """a proportion parameter for a junction out-link: constant, time-varying series or function of model state"""
        p = newpar("proportion")
        p["value"] = {pop: round(share, 4) for pop in pops}
        if "jtv" in f or "jfunc" in f:
            x = r.random()
            if x < f.get("jfunc", 0.0):
                a, b = r.choice(stocks), r.choice(stocks)
                forms = [f"{a}/({a}+{b}+1)", f"max(0,1-{b}/(alive+1))", f"{round(share, 3)}+0*t", f"{round(share, 3)}*{a}/({a}+1)", f"min(1,{b}/(alive+1))"]
                if regime != "calibrated":
                    forms += [f"2*{a}/(alive+1)", f"0*{a}"]
                p["function"] = r.choice(forms)
                p["databook"] = False
                p["value"] = {}
            elif x < f.get("jfunc", 0.0) + f.get("jtv", 0.0):
                for pop in pops:
                    n = r.choice([2, 3, 4])
                    ts = sorted(r.sample([start - 1, start, start + dt, start + 2 * dt, start + 0.5, start + 1, start + 2, start + 4], n))
                    if regime == "calibrated":
                        vs = [round(min(1.0, max(0.0, share * r.choice([0.5, 1.0, 1.5]))), 4) for _ in ts]
                    else:
                        vs = [r.choice([0.0, round(share, 4), 1.0, round(share * 0.5, 4), 0.25]) for _ in ts]
                    p["value"][pop] = {"t": ts, "v": vs, "assumption": None}
        return p

    def joutflows(j, dests, residual):
        shares = [r.random() + 0.05 for _ in dests]
        tot = sum(shares)
        mode = r.choice(["eq1", "lt1", "gt1", "zero_some", "near1", "near1"]) if regime != "calibrated" else r.choice(["eq1", "eq1", "lt1", "gt1", "near1"])
        if f.get("zero_props") and not residual and r.random() < f["zero_props"]:
            mode = "zero_all"
        for k, d in enumerate(dests):
            if residual and k == len(dests) - 1:
                trans.append([j, d, ">"])
                continue
            share = shares[k] / tot
            if mode == "lt1":
                share *= 0.6
            elif mode == "gt1":
                share *= 1.7
            elif mode == "zero_some" and k == 0 and len(dests) > 1:
                share = 0.0
            elif mode == "zero_all":
                share = 0.0
            p = jprop(share)
            if mode == "near1" and not p.get("function"):
                # proportions entered with limited precision: sum within 1e-6 of 1 but not exactly 1 (thirds as 0.3333333, sevenths ...)
                nd = len(dests) - (1 if residual else 0)
                p["value"] = {pop: round(1.0 / max(nd, 1), 7) + (1e-7 if (k == 0 and nd in (1, 2, 4, 5)) else 0.0) for pop in pops}
            trans.append([j, d, p["name"]])

    shape = f.get("jshape")
    for i, j in enumerate(juncs):
        # ensure some inflow
        if not any(t[1] == j for t in trans):
            p = newpar(r.choice(["rate", "probability"]))
            trans.append([r.choice(stocks), j, p["name"]])
        later = juncs[i + 1:]
        forced = None
        if shape == "chain" and later and i < 3:
            forced = [later[0]]  # j_i -> j_{i+1} (chains up to 4 junctions), plus possibly other destinations
        elif shape == "diamond" and len(juncs) >= 4:
            forced = {0: [juncs[1], juncs[2]], 1: [juncs[3]], 2: [juncs[3]]}.get(i)
        elif shape == "fan" and i == 0:
            forced = later[:2]
        if forced is not None:
            others = [x for x in stocks + sinks if True]
            extra = r.sample(others, min(len(others), r.choice([0, 1, 1, 2]) if shape != "fan" else r.choice([1, 2])))
            dests = forced + extra
            r.shuffle(dests)
        else:
            n_out = r.choice([1, 2, 2, 3])
            pool = [x for x in stocks + sinks + later]
            dests = r.sample(pool, min(n_out, len(pool)))
        residual = f.get("residual", r.random() < 0.4) and len(dests) >= 2
        joutflows(j, dests, residual)
    # junctions inside duration group 0 (all inflows and outflows within the group => TimedLinks, row-wise balancing)
    if f.get("jgroup") and n_groups >= 1:
        g0par = next(iter(timed_comps.values()))
        g0 = [c for c in timed_comps if timed_comps[c] == g0par]
        gj = [f"g{i}" for i in range(r.choice([1, 1, 2]))]
        for i, j in enumerate(gj):
            jinit = r.random() < f.get("jinit", 0.3)
            comps.append({"name": j, "kind": "junction", "databook": jinit, "init": popvals(5, 100, 0.3) if jinit else None})
            if i == 0 or r.random() < 0.5:
                p = newpar(r.choice(["rate", "probability", "duration"]))
                for s_ in r.sample(g0, r.choice([1, 1, 2])):
                    trans.append([s_, j, p["name"]])
            pool = g0 + gj[i + 1:]
            dests = r.sample(pool, min(len(pool), r.choice([1, 2, 2, 3])))
            if i + 1 < len(gj) and gj[i + 1] not in dests:
                dests.append(gj[i + 1])  # chain inside the group
            residual = f.get("residual", r.random() < 0.4) and len(dests) >= 2
            joutflows(j, dests, residual)
        juncs = juncs + gj
    # C05: a junction inside a duration group (all inflows and outflows in the same group -> TimedLinks through it)
    if f.get("group_junction"):
        for g, members in enumerate(groups):
            if r.random() < f.get("group_junction"):
                if f.get("gj_rich") and r.random() < f["gj_rich"]:
                    # C05 (groups with junctions inside): 1-2 junctions chained inside the group, several timed inflows into one
                    # junction, 1-3 outflows whose stated proportions sum to < 1, = 1, > 1 (normalised by the junction), residual outflow
                    jn = [f"g{g}"] + ([f"h{g}"] if r.random() < 0.35 else [])
                    for i, jname in enumerate(jn):
                        comps.append({"name": jname, "kind": "junction", "databook": False, "init": None})
                        if i == 0 or r.random() < 0.4:
                            srcs = r.sample(members, r.choice([1, min(2, len(members)), len(members)]))
                            shared = r.random() < 0.3
                            p = None
                            for s_ in srcs:
                                if p is None or not shared:
                                    p = newpar(r.choice(["rate", "probability"]))
                                trans.append([s_, jname, p["name"]])
                        dests = r.sample(members, min(r.choice([1, 2, 2, 3]), len(members)))
                        if i + 1 < len(jn):
                            dests.insert(r.randrange(len(dests) + 1), jn[i + 1])  # chain inside the group
                        residual = len(dests) >= 2 and r.random() < 0.4
                        nd = len(dests) - (1 if residual else 0)
                        mode = r.choice(["eq1", "lt1", "gt1", "eq1", "lt1", "gt1", "zero_some", "tv"])
                        shares = [r.random() + 0.05 for _ in range(nd)]
                        tot_ = sum(shares)
                        k_par = 0
                        for k, d in enumerate(dests):
                            if residual and k == len(dests) - 1:
                                trans.append([jname, d, ">"])
                                continue
                            share = r.choice([1.0 / nd, shares[k_par] / tot_])
                            if mode == "lt1":
                                share *= r.choice([0.6, 0.25])
                            elif mode == "gt1":
                                share *= r.choice([1.7, 4.0])
                            elif mode == "zero_some" and k_par == 0 and nd > 1:
                                share = 0.0
                            p = newpar("proportion")
                            if mode == "tv":
                                # the sum of the stated proportions moves through < 1, = 1, > 1 during the run
                                tsv = [start, start + 2 * dt, start + 5 * dt, start + 9 * dt]
                                p["value"] = {pop: {"t": tsv, "v": [share * x_ for x_ in r.sample([0.5, 1.0, 1.0, 2.0, 0.25], 4)], "assumption": None} for pop in pops}
                            else:
                                p["value"] = {pop: share for pop in pops}
                            k_par += 1
                            trans.append([jname, d, p["name"]])
                    continue
                jname = f"g{g}"
                comps.append({"name": jname, "kind": "junction", "databook": False, "init": None})
                for s_ in r.sample(members, r.choice([1, len(members)])):
                    p = newpar(r.choice(["rate", "probability"]))
                    trans.append([s_, jname, p["name"]])
                dests = r.sample(members, r.choice([1, len(members)]))
                for k, d in enumerate(dests):
                    p = newpar("proportion")
                    # calibrated: mostly the exact split, but also proportions that sum to less / more than 1 (the junction normalises them)
                    p["value"] = {pop: (1.0 / len(dests) * r.choice([1.0, 1.0, 0.6, 1.7]) if regime == "calibrated" else r.choice([1.0, 0.5, 0.25, 2.0])) for pop in pops}
                    trans.append([jname, d, p["name"]])
    # dedupe: a parameter at most once per source; no duplicate (src,dst,par)
    seen = set()
    trans2 = []
    for s, d, p in trans:
        if (s, p) in seen:
            continue
        seen.add((s, p))
        trans2.append([s, d, p])
    trans = trans2
    used = {t[2] for t in trans}
    used |= {p["function"][2:] for p in pars if p.get("timed") and p.get("function") and p["name"] in used}  # the base parameter of a duration given by a function (dur_function)
    # functions on some transition parameters
    characs = [{"name": "alive", "components": stocks, "denominator": None, "databook": False}]
    if f.get("functions", r.random() < 0.6):
        cand = [p for p in pars if p["name"] in used and not p["timed"] and p["format"] != "proportion" and not p["name"].startswith("xb")]  # xb*: base of a duration given by a function -- a duration must be constant
        for p in r.sample(cand, min(len(cand), r.choice([1, 2, 3]))):
            a, b = r.choice(stocks), r.choice(stocks)
            k = _val(r, regime if regime != "extreme" else "calibrated", p["format"])
            forms = [f"{k}*{a}/max(alive,1)", f"{k}*(1+{a}/(alive+1))", f"{k}*max(0,1-{b}/(alive+1))", f"{k}+0*t", f"{k}*({a}-{b})/(alive+1)" if regime == "extreme" else f"{k}*{a}/({a}+{b}+1)"]
            if f.get("neg_fn"):
                forms = forms + [f"{k}*({a}-{b})/(alive+1)", f"{k}*(1-2*{b}/(alive+1))"] * 2
            p["function"] = r.choice(forms)
            p["databook"] = False
            p["value"] = {}
            if r.random() < 0.5:
                p["min"] = 0
            if r.random() < 0.3 and p["format"] in ("rate", "probability"):
                p["max"] = 2.0
    # population aggregation through an interaction (SRC/TGT_POP_AVG/SUM), feeding a transition parameter
    interactions = []
    if n_pops > 1 and f.get("aggregation", r.random() < 0.35):
        pairs = [[a, b, round(r.random() * 2, 3)] for a in pops for b in pops if r.random() < 0.8]
        if pairs:
            interactions.append({"name": "w0", "pairs": pairs})
            a, b = r.choice(stocks), r.choice(stocks)
            forms = [f"SRC_POP_AVG({a}, w0, {b})", f"SRC_POP_SUM({a}, w0)", f"TGT_POP_AVG({a}, w0)", f"SRC_POP_AVG({a})", f"TGT_POP_SUM({a}, w0)", f"SRC_POP_AVG({a}, w0)"]
            wpar = f.get("agg_weight_par") and r.random() < f["agg_weight_par"]
            if wpar:
                # weighting by a function PARAMETER that is declared after the aggregation and itself depends on a data parameter (its place in the execution order matters)
                forms = [f"SRC_POP_AVG({a}, w0, zw0)", f"TGT_POP_AVG({a}, w0, zw0)", f"SRC_POP_SUM({a}, w0, zw0)"]
            agg = {"name": "agg0", "format": "number", "timescale": None, "function": r.choice(forms), "min": None, "max": None, "timed": False, "targetable": False, "databook": False, "value": {}}
            pars.append(agg)
            used.add("agg0")
            if wpar:
                pars.append(dict(agg, name="zw0", function=f"zq0*{b}/(alive+1)"))
                pars.append(dict(agg, name="zq0", format="probability", function=None, databook=True, value={pop: r.choice([0.5, 0.75, 1.0]) for pop in pops}))
                used.update(["zw0", "zq0"])
            if r.random() < 0.6:  # a second aggregation sharing the same interaction
                agg1 = dict(agg, name="agg1", function=r.choice(forms))
                pars.append(agg1)
                used.add("agg1")
            cand = [p for p in pars if p["name"] in used and not p["timed"] and p["format"] in ("rate", "probability") and not p.get("function")]
            if cand:
                p = r.choice(cand)
                p["function"] = f"{round(r.random(), 3)}*agg0/(alive+1)" + ("+0.01*agg1/(alive+1)" if "agg1" in used else "")
                p["databook"] = False
                p["value"] = {}
                p["min"] = 0
    # transfers
    transfers = []
    if n_pops > 1 and f.get("transfers", r.random() < 0.6):
        units = r.choice(["rate", "number", "probability", "duration"])
        pairs = []
        for a in pops:
            for b in pops:
                if a != b and r.random() < 0.6:
                    pairs.append([a, b, _val(r, regime if units != "duration" else "calibrated", units)])
        if pairs:
            transfers.append({"name": "tra0", "units": units, "pairs": pairs})
    spec = {"comps": comps, "characs": characs, "pars": [p for p in pars if p["name"] in used or p.get("timed")], "transitions": trans, "pops": pops, "transfers": transfers, "interactions": interactions, "settings": [start, end, dt], "regime": regime}
    # programs overwriting junction proportions (C04: "program-driven")
    if f.get("progs"):
        jnames = {c["name"] for c in comps if c["kind"] == "junction"}
        cand = [p for p in pars if p["format"] == "proportion" and p["name"] in used and not p["function"] and any(t[0] in jnames and t[2] == p["name"] for t in trans)]
        if cand:
            targets = r.sample(cand, min(len(cand), r.choice([1, 1, 2])))
            progs = []
            for i in range(r.choice([1, 1, 2])):
                progs.append({"name": f"prg{i}", "target_comps": r.sample(norm, r.choice([1, 1, min(2, len(norm))])), "spend": r.choice([0.0, 50.0, 500.0, 5000.0]),
                              "unit_cost": r.choice([1.0, 2.5, 10.0]), "continuous": r.random() < 0.7})
            covouts = []
            for p in targets:
                p["targetable"] = True
                for pop in pops:
                    outs = {g["name"]: (r.choice([0.0, 1.0, 0.5]) if regime != "calibrated" else round(r.random(), 3)) for g in progs if r.random() < 0.8} or {progs[0]["name"]: 0.5}
                    covouts.append({"par": p["name"], "pop": pop, "baseline": r.choice([0.0, 0.1, round(r.random(), 3)]), "progs": outs})
            spec["programs"] = {"start": start + r.choice([0, 1, 2, 3]) * dt, "progs": progs, "covouts": covouts}
    # timed flag bookkeeping: a timed parameter that lost its link is dropped
    spec["pars"] = [p for p in spec["pars"] if p["name"] in used]
    return spec


REJECT_LOG: list = []


def random_model(r, regime="calibrated", features=None, tries=30, **kw):
    """Rejection-sample a spec that atomica accepts and can run. Returns (spec, model, n_rejected)."""
    import atomica as at
    from atomica.model import BadInitialization

    rej = 0
    last = None
    for _ in range(tries):
        spec = random_spec(r, regime, features)
        try:
            m = run(spec, **kw)
            return spec, m, rej
        except (at.InvalidFramework, BadInitialization) as e:  # generator produced something the library refuses: fine, try again
            rej += 1
            last = e
        except (AssertionError, at.ModelError) as e:  # accepted by the validator but refused later by an assert: noted for C18
            rej += 1
            last = e
            REJECT_LOG.append({"type": type(e).__name__, "msg": str(e)[:200], "spec": spec})
    raise RuntimeError(f"generator could not produce an acceptable model in {tries} tries; last: {type(last).__name__}: {last}")


# ----------------------------------------------------------------------------------------------
# extraction: built Model -> net description and per-step traces
# ----------------------------------------------------------------------------------------------
def extract_net(m):
    """Returns a dict describing the flattened net of a built+processed Model (see AtomicaModel/EngineIO.lean)."""
    from atomica import model as M
    from atomica.system import FrameworkSettings as FS

    comps, links, pars = [], [], []
    for pop in m.pops:
        comps += pop.comps
        links += pop.links
    cidx = {id(c): i for i, c in enumerate(comps)}
    # parameters that matter: those driving links, in order of first appearance
    pidx = {}
    for l in links:
        if l.parameter is not None and id(l.parameter) not in pidx:
            pidx[id(l.parameter)] = len(pars)
            pars.append(l.parameter)

    def kind(c):
        if isinstance(c, M.ResidualJunctionCompartment):
            return "r"
        if isinstance(c, M.JunctionCompartment):
            return "j"
        if isinstance(c, M.TimedCompartment):
            return "t"
        if isinstance(c, M.SourceCompartment):
            return "s"
        if isinstance(c, M.SinkCompartment):
            return "k"
        return "n"

    def units(p):
        u = p.units
        if u in (FS.QUANTITY_TYPE_RATE, FS.QUANTITY_TYPE_PROBABILITY):
            return "f"
        if u == FS.QUANTITY_TYPE_DURATION:
            return "d"
        if u == FS.QUANTITY_TYPE_NUMBER:
            return "n"
        if u == FS.QUANTITY_TYPE_PROPORTION:
            return "p"
        raise ValueError(f"unknown units {u!r} on a link-driving parameter {p.id}")

    net = {
        "comps": comps, "links": links, "pars": pars,
        "kinds": [kind(c) for c in comps],
        "nrows": [c._vals.shape[0] if isinstance(c, M.TimedCompartment) else 1 for c in comps],
        "src": [cidx[id(l.source)] for l in links],
        "dst": [cidx[id(l.dest)] for l in links],
        "par": [pidx[id(l.parameter)] if l.parameter is not None else -1 for l in links],
        "tlink": [1 if isinstance(l, M.TimedLink) else 0 for l in links],
        "lrows": [],
        "isflush": [1 if (isinstance(l.source, M.TimedCompartment) and l.source.flush_link is l) else 0 for l in links],
        "jgroup": [1 if (isinstance(c, M.JunctionCompartment) and c.duration_group) else 0 for c in comps],
        "units": [units(p) for p in pars],
        "tscale": [(1.0 if (units(p) == "p" and not np.isfinite(float(p.timescale))) else float(p.timescale)) for p in pars],
        "jorder": [cidx[id(j)] for j in m._exec_order["junctions"]],
    }
    for l in links:
        if isinstance(l.source, M.TimedCompartment):
            net["lrows"].append(l.source._vals.shape[0])
        elif isinstance(l, M.TimedLink):
            net["lrows"].append(l._vals.shape[0])
        else:
            net["lrows"].append(1)
    return net


def net_tokens(net):
    from .core import q

    t = [len(net["kinds"]), len(net["src"]), len(net["units"])]
    t += net["kinds"] + net["nrows"] + net["src"] + net["dst"] + net["par"] + net["tlink"] + net["lrows"] + net["isflush"] + net["jgroup"] + net["units"]
    t += [q(x) for x in net["tscale"]]
    t += [len(net["jorder"])] + net["jorder"]
    return " ".join(str(x) for x in t)


def snapshot_stock(m, ti):
    """list (per comp) of list (per row) of floats at time index ti"""
    from atomica import model as M

    out = []
    for pop in m.pops:
        for c in pop.comps:
            if isinstance(c, M.TimedCompartment):
                out.append([float(v) for v in c._vals[:, ti]])
            else:
                out.append([float(c.vals[ti])])
    return out


def snapshot_flows(m, net, ti):
    """per link: list of recorded values (per row for TimedLinks, else [scalar])"""
    from atomica import model as M

    out = []
    for l in net["links"]:
        if isinstance(l, M.TimedLink):
            out.append([float(v) for v in l._vals[:, ti]])
        else:
            out.append([float(l.vals[ti])])
    return out


def pv_at(net, ti):
    return [float(p.vals[ti]) for p in net["pars"]]
