"""
vlib.core -- shared machinery of every check (see DESIGN.md section 3).

A property module (harness/props/cXX.py) defines

    PROPERTY   = "C12"
    THEOREMS   = ["Atomica.C12.weights_total", ...]      # obligations (Lean names, in AtomicaProofs)
    LEAN_MODS  = ["AtomicaProofs.Properties.C12"]        # lake targets holding them
    TRUSTED    = [...]                                   # per-property trusted-base additions
    def translate(ctx): ...            (optional) regenerate lean/AtomicaModel/Generated/*.lean from /repo
    def run(ctx): ...                  correspondence + oracles; records into ctx
    def search(ctx, breaks): ...       (optional) focused failing-input search when something broke

and calls `core.main(sys.modules[__name__])`.
"""
from __future__ import annotations

import fcntl
import hashlib
import json
import math
import os
import random
import re
import subprocess
import sys
import time
import traceback
from fractions import Fraction
from pathlib import Path

VERIF = Path(__file__).resolve().parents[2]
LEAN = VERIF / "lean"
REPO = Path(os.environ.get("ATOMICA_REPO", "/repo"))
DRIVER_BIN = LEAN / ".lake" / "build" / "bin" / "driver"
STD_AXIOMS = {"propext", "Classical.choice", "Quot.sound"}
FORBIDDEN = re.compile(r"\bsorry\b|\badmit\b|^\s*axiom\s|native_decide|bv_decide|implemented_by|\bunsafe\s|maxHeartbeats\s+0\b")

BASE_TRUSTED = [
    "Lean 4.33 kernel; axioms allowed: propext, Classical.choice, Quot.sound (audited by #print axioms on every run)",
    "statement of each theorem as a rendering of the property (lean/AtomicaProofs/Properties/*.lean)",
    "correspondence check (harness/: generators, extraction of implementation behaviour, exact float->rational conversion, driver parser, comparator and tolerances) -- differential testing, reach = what this evidence file counts",
    "numpy/scipy/LAPACK floating point, pandas/openpyxl, pickle, multiprocessing: observed, not modelled",
]


# ----------------------------------------------------------------------------------------------
# numbers
# ----------------------------------------------------------------------------------------------
def q(x) -> str:
    """Exact wire form of a number: p/q (floats are converted to the dyadic rational they are)."""
    if isinstance(x, Fraction):
        f = x
    elif isinstance(x, (int,)) or (hasattr(x, "dtype") and "int" in str(getattr(x, "dtype", ""))):
        return str(int(x))
    else:
        x = float(x)
        if math.isnan(x):
            return "nan"
        if math.isinf(x):
            return "inf" if x > 0 else "-inf"
        f = Fraction(*x.as_integer_ratio())
    return str(f.numerator) if f.denominator == 1 else f"{f.numerator}/{f.denominator}"


def unq(s: str):
    """Parse a driver number: returns Fraction or None for nan."""
    if s in ("nan", "none"):
        return None
    if s == "inf":
        return math.inf
    if s == "-inf":
        return -math.inf
    return Fraction(s)


def close(model, impl, scale=1.0, rtol=1e-11, atol=0.0) -> bool:
    """Compare an exact model value (Fraction or None) with an implementation float."""
    if model is None:
        return impl is None or (isinstance(impl, float) and not math.isfinite(impl))
    if impl is None:
        return False
    impl = float(impl)
    if not math.isfinite(impl):
        return isinstance(model, float) and model == impl
    if isinstance(model, float):  # inf
        return model == impl
    d = abs(float(model - Fraction(*impl.as_integer_ratio())))
    return d <= atol + rtol * max(abs(scale), abs(impl), 1e-300) or d == 0


# ----------------------------------------------------------------------------------------------
# driver
# ----------------------------------------------------------------------------------------------
class DriverError(Exception):
    pass


def drive(lines: list[str], timeout=600) -> list[str]:
    """Send request lines to the compiled Lean driver, return reply lines (same length)."""
    if not lines:
        return []
    if not DRIVER_BIN.exists():
        raise DriverError(f"driver binary missing: {DRIVER_BIN}")
    data = ("\n".join(lines) + "\n").encode()
    p = subprocess.run([str(DRIVER_BIN)], input=data, capture_output=True, timeout=timeout)
    if p.returncode != 0:
        raise DriverError(f"driver exit {p.returncode}: {p.stderr.decode()[:500]}")
    out = p.stdout.decode().split("\n")
    if out and out[-1] == "":
        out.pop()
    if len(out) != len(lines):
        raise DriverError(f"driver returned {len(out)} replies for {len(lines)} requests")
    return out


# ----------------------------------------------------------------------------------------------
# Lean build and audit
# ----------------------------------------------------------------------------------------------
class BuildResult:
    def __init__(self):
        self.ok = True
        self.failed_modules: list[str] = []
        self.log = ""
        self.cmd = ""
        self.wall = 0.0


def _lock():
    f = open(LEAN / ".build.lock", "w")
    fcntl.flock(f, fcntl.LOCK_EX)
    return f


def lake_build(targets: list[str]) -> BuildResult:
    r = BuildResult()
    t0 = time.time()
    r.cmd = "cd lean && lake build " + " ".join(targets)
    lk = _lock()
    try:
        p = subprocess.run(["lake", "build", *targets], cwd=LEAN, capture_output=True, text=True, timeout=3000)
    finally:
        lk.close()
    r.wall = time.time() - t0
    r.log = p.stdout + p.stderr
    if p.returncode != 0:
        r.ok = False
        for m in re.finditer(r"^[✖✗x] \[\d+/\d+\] (?:Building|Built|Running) (\S+)", r.log, re.M):
            r.failed_modules.append(m.group(1))
        for m in re.finditer(r"^- (\S+)$", r.log, re.M):
            if m.group(1) not in r.failed_modules:
                r.failed_modules.append(m.group(1))
    return r


def audit(theorems: list[str], imports: list[str], tag: str) -> dict:
    """#print axioms for every theorem; returns {thm: set(axioms) | None (missing)}."""
    aud = LEAN / ".audit"
    aud.mkdir(exist_ok=True)
    f = aud / f"Audit_{tag}.lean"
    src = "".join(f"import {m}\n" for m in imports) + "".join(f"#print axioms {t}\n" for t in theorems)
    f.write_text(src)
    p = subprocess.run(["lake", "env", "lean", str(f)], cwd=LEAN, capture_output=True, text=True, timeout=1200)
    out = p.stdout + p.stderr
    res: dict = {t: None for t in theorems}
    # "'X' depends on axioms: [a, b]"  or "'X' does not depend on any axioms"
    for m in re.finditer(r"'([^']+)' depends on axioms: \[([^\]]*)\]", out, re.S):
        res[m.group(1)] = {a.strip() for a in m.group(2).replace("\n", " ").split(",") if a.strip()}
    for m in re.finditer(r"'([^']+)' does not depend on any axioms", out):
        res[m.group(1)] = set()
    return {"axioms": res, "raw": out, "cmd": f"cd lean && lake env lean .audit/Audit_{tag}.lean"}


def grep_forbidden(mods: list[str]) -> list[str]:
    """Scan every Lean source file of the project (not only `mods`) for forbidden tokens outside comments."""
    hits = []
    for path in list((LEAN / "AtomicaModel").rglob("*.lean")) + list((LEAN / "AtomicaProofs").rglob("*.lean")) + list((LEAN / "Driver").rglob("*.lean")):
        txt = path.read_text()
        txt = re.sub(r"/-.*?-/", lambda m: "\n" * m.group(0).count("\n"), txt, flags=re.S)
        for i, line in enumerate(txt.split("\n"), 1):
            line = line.split("--")[0]
            if FORBIDDEN.search(line):
                hits.append(f"{path.relative_to(LEAN)}:{i}: {line.strip()[:80]}")
    return hits


# ----------------------------------------------------------------------------------------------
# context, findings, evidence
# ----------------------------------------------------------------------------------------------
class Ctx:
    def __init__(self, prop: str, tier: str, seed: int):
        self.prop = prop
        self.tier = tier
        self.seed = seed
        self.rng = random.Random(seed * 1000003 + int(hashlib.sha256(prop.encode()).hexdigest()[:8], 16))
        self.t0 = time.time()
        self.evaluations = 0
        self.nontrivial_keys: set = set()
        self.samples: list = []
        self.branches: dict = {}
        self.traces = 0
        self.disagreements_checked = 0
        self.hyp_checked = 0
        self.hyp_held = 0
        self.ambiguous = 0
        self.breaks: list[dict] = []      # correspondence / proof breaks (not verdicts)
        self.violations: list[dict] = []  # concrete failing inputs on the implementation
        self.notes: list[str] = []
        self.extra: dict = {}
        self.rule = ""
        self.exhaustive = None

    @property
    def quick(self):
        return self.tier == "quick"

    def n(self, quick: int, thorough: int) -> int:
        return quick if self.quick else thorough

    # --- recording -----------------------------------------------------------------------------
    def count(self, branch: str, k: int = 1):
        self.branches[branch] = self.branches.get(branch, 0) + k

    def case(self, key, nontrivial: bool, sample=None):
        """Register one evaluated case. `key` is hashed for distinctness."""
        self.evaluations += 1
        if nontrivial:
            h = hashlib.sha256(json.dumps(key, sort_keys=True, default=str).encode()).hexdigest()[:16]
            self.nontrivial_keys.add(h)
        if sample is not None and len(self.samples) < 3:
            self.samples.append(sample)

    def brk(self, kind: str, what: str, **data):
        """A proof obligation or a correspondence that no longer checks."""
        self.breaks.append({"kind": kind, "what": what, **data})

    def violation(self, key: dict, what: str, replay: dict):
        """A concrete input/history on which the implementation fails the property."""
        self.violations.append({"key": key, "what": what, "replay": replay})


    # --- parallel helpers ----------------------------------------------------------------------
    def export(self) -> dict:
        return {"evaluations": self.evaluations, "nontrivial_keys": list(self.nontrivial_keys), "samples": self.samples, "branches": self.branches, "traces": self.traces,
                "disagreements_checked": self.disagreements_checked, "hyp_checked": self.hyp_checked, "hyp_held": self.hyp_held, "ambiguous": self.ambiguous,
                "breaks": self.breaks, "violations": self.violations, "notes": self.notes, "extra": self.extra}

    def merge(self, d: dict):
        self.evaluations += d["evaluations"]
        self.nontrivial_keys |= set(d["nontrivial_keys"])
        self.samples += d["samples"]
        for k, v in d["branches"].items():
            self.branches[k] = self.branches.get(k, 0) + v
        self.traces += d["traces"]
        self.disagreements_checked += d["disagreements_checked"]
        self.hyp_checked += d["hyp_checked"]
        self.hyp_held += d["hyp_held"]
        self.ambiguous += d["ambiguous"]
        self.breaks += d["breaks"]
        self.violations += d["violations"]
        self.notes += d["notes"]
        for k, v in d["extra"].items():
            if isinstance(v, (int, float)) and isinstance(self.extra.get(k, 0), (int, float)):
                self.extra[k] = self.extra.get(k, 0) + v
            else:
                self.extra.setdefault(k, v)


def parallel(ctx: "Ctx", worker, n_items: int, n_workers: int = 12, **kw):
    """Run `worker(sub_ctx, n, **kw)` in forked processes, each with its own seeded sub-context; merge the results into ctx."""
    import multiprocessing as mp

    n_workers = max(1, min(n_workers, n_items))
    shares = [n_items // n_workers + (1 if i < n_items % n_workers else 0) for i in range(n_workers)]
    seeds = [ctx.rng.randrange(1 << 30) for _ in range(n_workers)]
    if n_workers == 1:
        worker(ctx, n_items, **kw)
        return
    global _PAR_JOB
    _PAR_JOB = (worker, kw)  # inherited by the forked children (closures/lambdas need not be picklable)
    with mp.get_context("fork").Pool(n_workers) as pool:
        res = [pool.apply_async(_par_entry, (ctx.prop, ctx.tier, sd, sh)) for sd, sh in zip(seeds, shares)]
        for r in res:
            ctx.merge(r.get(timeout=7200))


_PAR_JOB = None


def _par_entry(prop, tier, seed, n):
    worker, kw = _PAR_JOB
    sub = Ctx(prop, tier, seed)
    try:
        worker(sub, n, **kw)
    except Exception as e:
        if not impl_raised(sub, e):
            raise
    return sub.export()


def impl_raised(ctx, exc) -> bool:
    """An exception that escapes from atomica's own code into the harness at a place where the unchanged library does not raise is behaviour of the
    implementation, not a fault of the machinery: it is recorded as a broken correspondence (the run continues to the verdict; without a concrete
    failing input the verdict is `no-failing-input-found`). Anything raised by the harness itself stays a machinery error (exit 2)."""
    frames = traceback.extract_tb(exc.__traceback__)
    harness_dir, impl_dir = str((VERIF / "harness").resolve()), str((REPO / "atomica").resolve())
    last_h = max([i for i, f in enumerate(frames) if os.path.realpath(f.filename).startswith(harness_dir)] or [-1])
    impl = [i for i, f in enumerate(frames) if os.path.realpath(f.filename).startswith(impl_dir)]
    if not impl or impl[-1] < last_h:
        return False
    f = frames[impl[-1]]
    hf = frames[last_h] if last_h >= 0 else None
    ctx.brk("correspondence", f"the implementation raised {type(exc).__name__} ({str(exc)[:200]}) in {f.name} (atomica/{os.path.basename(f.filename)}:{f.lineno}) where the unchanged library does not raise"
            + (f"; called from {os.path.basename(hf.filename)}:{hf.lineno} ({hf.name}); the rest of that part of the check was not run" if hf else ""),
            stage="impl-exception", traceback="".join(traceback.format_exception(type(exc), exc, exc.__traceback__))[-1500:])
    return True


def load_findings() -> list[dict]:
    f = VERIF / "known_findings.json"
    if not f.exists():
        return []
    return json.loads(f.read_text()).get("entries", [])


def _match(entry_match: dict, key: dict) -> bool:
    for k, v in entry_match.items():
        if k not in key:
            return False
        if isinstance(v, list):
            if key[k] not in v:
                return False
        elif isinstance(v, dict) and "regex" in v:
            if not re.search(v["regex"], str(key[k])):
                return False
        elif key[k] != v:
            return False
    return True


def jsonable(o):
    if isinstance(o, Fraction):
        return q(o)
    if isinstance(o, (set, frozenset)):
        return sorted(map(str, o))
    if isinstance(o, Path):
        return str(o)
    try:
        import numpy as np
        if isinstance(o, np.ndarray):
            return o.tolist()
        if isinstance(o, np.generic):
            return o.item()
    except Exception:
        pass
    return repr(o)


def write_json(path: Path, obj):
    path.parent.mkdir(parents=True, exist_ok=True)
    tmp = path.with_suffix(path.suffix + ".tmp")
    tmp.write_text(json.dumps(obj, indent=1, default=jsonable))
    tmp.replace(path)


# ----------------------------------------------------------------------------------------------
# main flow
# ----------------------------------------------------------------------------------------------
def main(mod):
    import argparse

    ap = argparse.ArgumentParser()
    ap.add_argument("--tier", default=os.environ.get("VERIF_TIER", "quick"), choices=["quick", "thorough"])
    ap.add_argument("--seed", type=int, default=int(os.environ.get("VERIF_SEED", "0") or 0))
    ap.add_argument("--replay", default=None)
    args = ap.parse_args()
    prop = mod.PROPERTY
    ctx = Ctx(prop, args.tier, args.seed)
    try:
        rc = _main(mod, ctx, args)
    except subprocess.TimeoutExpired as e:
        print(f"INTERNAL: timeout in check machinery: {e}")
        rc = 2
    except Exception:
        traceback.print_exc()
        print("INTERNAL: error in check machinery (not a verdict)")
        rc = 2
    sys.stdout.flush()
    os._exit(rc)


def _main(mod, ctx: Ctx, args) -> int:
    prop = ctx.prop
    import atomica  # noqa
    import logging
    logging.getLogger("atomica").setLevel(logging.ERROR)
    atomica.logger.setLevel(logging.ERROR)
    assert str(Path(atomica.__file__).resolve()).startswith(str(REPO.resolve())), f"atomica imported from {atomica.__file__}, expected under {REPO}"

    if args.replay:
        data = json.loads(Path(args.replay).read_text())
        if hasattr(mod, "replay"):
            return mod.replay(ctx, data)
        print("replay not supported by this check; file content:")
        print(json.dumps(data, indent=1)[:4000])
        return 0

    theorems = list(getattr(mod, "THEOREMS", []))
    lean_mods = list(getattr(mod, "LEAN_MODS", []))

    # 1. translators
    if hasattr(mod, "translate"):
        mod.translate(ctx)

    # 2. build (model + this property's proof modules + driver)
    br = lake_build(["AtomicaModel", "driver"] + lean_mods)
    proof_ok = True
    if not br.ok:
        proof_ok = False
        tail = "\n".join(br.log.strip().split("\n")[-40:])
        # a failure in the driver/model is machinery failure unless caused by generated tables
        ctx.brk("proof", "lake build failed", modules=br.failed_modules, log_tail=tail)
        # try to at least get the driver for the failing-input search
        if not DRIVER_BIN.exists():
            lake_build(["driver"])

    # 3. audit
    discharged = 0
    axioms_seen: dict = {}
    if theorems and br.ok:
        au = audit(theorems, lean_mods, prop)
        for t, ax in au["axioms"].items():
            if ax is None:
                proof_ok = False
                ctx.brk("proof", f"theorem {t} not found / not checked", theorem=t)
            elif not ax <= STD_AXIOMS:
                proof_ok = False
                ctx.brk("proof", f"theorem {t} depends on non-standard axioms {sorted(ax - STD_AXIOMS)}", theorem=t)
            else:
                discharged += 1
            axioms_seen[t] = sorted(ax) if ax is not None else None
    # thorough tier: independent re-check of the compiled proof modules with leanchecker (replays the declarations through the kernel)
    checker = None
    if ctx.tier == "thorough" and lean_mods and br.ok:
        t1 = time.time()
        lk = _lock()
        try:
            pc = subprocess.run(["lake", "env", "leanchecker", *lean_mods], cwd=LEAN, capture_output=True, text=True, timeout=2400)
        finally:
            lk.close()
        checker = {"cmd": "cd lean && lake env leanchecker " + " ".join(lean_mods), "rc": pc.returncode, "wall_s": round(time.time() - t1, 1), "out_tail": (pc.stdout + pc.stderr)[-300:]}
        if pc.returncode != 0:
            proof_ok = False
            ctx.brk("proof", "leanchecker rejected the compiled proof modules", out=(pc.stdout + pc.stderr)[-600:])
    hits = grep_forbidden(lean_mods)
    if hits:
        proof_ok = False
        ctx.brk("proof", "forbidden token in Lean sources", hits=hits[:10])

    # 4-5. correspondence + oracles
    try:
        mod.run(ctx)
    except Exception as e:
        if not impl_raised(ctx, e):
            raise

    # 6. focused failing-input search when something broke and no concrete violation yet
    if ctx.breaks and not ctx.violations and hasattr(mod, "search"):
        try:
            mod.search(ctx, ctx.breaks)
        except Exception:
            traceback.print_exc()
            ctx.notes.append("search raised: " + traceback.format_exc()[-400:])

    # 7. findings
    findings = [e for e in load_findings() if e.get("property") == prop and e.get("kind") == "finding"]
    matched: dict = {}
    unlisted = []
    for v in ctx.violations:
        hit = next((e for e in findings if _match(e["match"], v["key"])), None)
        if hit is not None:
            matched.setdefault(hit["id"], (hit, 0))
            matched[hit["id"]] = (hit, matched[hit["id"]][1] + 1)
        else:
            unlisted.append(v)
    # breaks explained entirely by known findings (a break may name the finding id that causes it)
    open_breaks = []
    for b in ctx.breaks:
        fid = b.get("finding")
        hit = next((e for e in findings if e["id"] == fid), None) if fid else None
        if hit is not None:
            matched.setdefault(hit["id"], (hit, 0))
            matched[hit["id"]] = (hit, matched[hit["id"]][1] + 1)
        else:
            open_breaks.append(b)

    rc = 0
    lines = []
    for fid, (e, nhit) in sorted(matched.items()):
        lines.append(f"KNOWN-FINDING: property={prop} {e['what']} [{fid}; {nhit} occurrence(s) this run]")
    if unlisted:
        rc = 1
        # group by key, one replay per distinct key (cap 5)
        seen = set()
        for v in unlisted:
            k = json.dumps(v["key"], sort_keys=True, default=str)
            if k in seen:
                continue
            seen.add(k)
            if len(seen) > 5:
                break
            rp = VERIF / "replays" / f"{prop}_{hashlib.sha256(k.encode()).hexdigest()[:10]}.json"
            write_json(rp, {"property": prop, "kind": "failing-input", "key": v["key"], "what": v["what"], "replay": v["replay"], "seed": ctx.seed, "tier": ctx.tier})
            lines.append(f"VIOLATION property={prop} replay={rp.relative_to(VERIF)}")
            lines.append(f"  what: {v['what'][:300]}")
    elif open_breaks:
        rc = 1
        rp = VERIF / "replays" / f"{prop}_broken_{ctx.seed}.json"
        write_json(rp, {"property": prop, "kind": "no-failing-input-found", "broken": open_breaks[:20], "n_broken": len(open_breaks), "seed": ctx.seed, "tier": ctx.tier,
                        "note": "a theorem or correspondence no longer checks; the search on model and implementation found no concrete failing input"})
        lines.append(f"VIOLATION property={prop} replay={rp.relative_to(VERIF)} no-failing-input-found")
        for b in open_breaks[:5]:
            lines.append(f"  broken: {b['kind']}: {b['what'][:300]}")

    # 8. evidence
    wall = time.time() - ctx.t0
    obligations = len(theorems)
    cov = {
        "obligations": obligations,
        "discharged": discharged,
        "checker_cmd": br.cmd + (" && lake env lean .audit/Audit_%s.lean  (#print axioms)" % prop),
        "trusted_base": BASE_TRUSTED + list(getattr(mod, "TRUSTED", [])),
        "theorems": axioms_seen,
        "evaluations": ctx.evaluations,
        "distinct_nontrivial": len(ctx.nontrivial_keys),
        "rule": ctx.rule or getattr(mod, "RULE", ""),
        "samples": ctx.samples[:3],
        "traces_validated_against_impl": ctx.traces,
        "disagreements_checked": ctx.disagreements_checked,
        "hypotheses_checked": ctx.hyp_checked,
        "hypotheses_held": ctx.hyp_held,
        "ambiguous": ctx.ambiguous,
        "branches": dict(sorted(ctx.branches.items())),
        "branches_unreached": sorted(b for b in getattr(mod, "EXPECTED_BRANCHES", []) if not ctx.branches.get(b)),
        "correspondence_breaks": len(ctx.breaks),
        "known_findings_matched": sorted(matched),
        "build_wall_s": round(br.wall, 2),
        "leanchecker": checker,
        "notes": ctx.notes[:20],
    }
    if ctx.exhaustive is not None:
        cov["exhaustive"] = bool(ctx.exhaustive)
    cov.update(ctx.extra)
    ev = {
        "property_id": prop,
        "tier": ctx.tier,
        "seed": ctx.seed,
        "level": "proof",
        "coverage": cov,
        "assumptions": list(getattr(mod, "ASSUMPTIONS", [])),
        "wall_s": round(wall, 2),
        "violations": len(unlisted) if unlisted else (len(open_breaks) if rc else 0),
    }
    # seeded-change trials (tools/seeded_run_wt.sh) must not overwrite the evidence of the real tree
    write_json(VERIF / "evidence" / f"{prop}{os.environ.get('VERIF_EVIDENCE_SUFFIX', '')}.json", ev)
    for ln in lines:
        print(ln)
    print(f"[{prop}] tier={ctx.tier} seed={ctx.seed} obligations={discharged}/{obligations} evaluations={ctx.evaluations} nontrivial={len(ctx.nontrivial_keys)} breaks={len(ctx.breaks)} violations={len(ctx.violations)} (unlisted {len(unlisted)}) wall={wall:.1f}s -> exit {rc}")
    return rc
