"""
vlib.agg_corr -- independent recomputation of population-aggregation parameters (SRC/TGT_POP_AVG/SUM with interaction weights and
an optional weighting variable) from the ParameterSet's interaction data and the finished Model's arrays (C03, C06).

Documented rule (docs/general/Parameters.rst, model.py update_pars): for the parameter in population i
  SRC_*: sum over source populations j of W[j -> i] * (weight_var_j) * value_j     (interaction from j to i)
  TGT_*: sum over target populations j of W[i -> j] * (weight_var_j) * value_j     (interaction from i to j)
  *_AVG divides by the sum of the weights (1 if that sum is 0); without an interaction all weights are 1.
"""
import numpy as np


def _val(v, ti):
    return float(v[ti])


def check(ctx, props, spec, m, parset, case_key):
    """Returns number of aggregated parameters checked; records ctx.violation for each property in `props` on mismatch."""
    n = 0
    T = len(m.t)
    pops = [p.name for p in m.pops]
    for par_name, pars in m._vars_by_pop.items():
        p0 = pars[0]
        if not getattr(p0, "pop_aggregation", None):
            continue
        agg = p0.pop_aggregation
        fn, var = agg[0], agg[1]
        inter = agg[2] if len(agg) > 2 else None
        wvar = agg[3] if len(agg) > 3 else None
        to_pars = {p.pop.name: p for p in pars}
        src_vars = {v.pop.name: v for v in m._vars_by_pop[var]}
        w_vars = {v.pop.name: v for v in m._vars_by_pop[wvar]} if wvar else None
        n += 1
        ctx.count("agg." + fn + (".weighted" if wvar else "") + (".interaction" if inter else ""))
        for ti in range(T):
            t = m.t[ti]
            for i_name, par in to_pars.items():
                if par.skip_function is not None and par.skip_function[0] <= t <= par.skip_function[1]:
                    continue
                num = 0.0
                den = 0.0
                ws, vs = [], []
                for j_name, sv in src_vars.items():
                    if inter is None:
                        w = 1.0
                    else:
                        frm, to = (j_name, i_name) if fn.startswith("SRC") else (i_name, j_name)
                        ts_owner = parset.interactions[inter].get(frm) if hasattr(parset.interactions[inter], "get") else None
                        w = 0.0
                        if ts_owner is not None and to in ts_owner.pops:
                            w = float(ts_owner.interpolate(np.array([t]), to)[0] * ts_owner.y_factor[to] * ts_owner.meta_y_factor)
                    if w_vars is not None:
                        w *= _val(w_vars[j_name], ti)
                    ws.append(w)
                    vs.append(_val(sv, ti))
                # weights that are floating-point dust (1e-300 people ...) are scaled by the largest one first, so that w*v does not underflow to 0 while sum(w) does not
                wmax = max([abs(w_) for w_ in ws if np.isfinite(w_)] + [0.0])
                sc_ = wmax if (fn.endswith("AVG") and 0 < wmax < 1e-150) else 1.0
                for w_, v_ in zip(ws, vs):
                    num += (w_ / sc_) * v_
                    den += w_ / sc_
                if fn.endswith("AVG"):
                    expect = num / (den if den != 0 else 1.0)
                else:
                    expect = num
                expect *= par.scale_factor
                if par.limits is not None:
                    expect = min(max(expect, par.limits[0]), par.limits[1])
                got = float(par.vals[ti])
                tol = 1e-9 * max(1.0, abs(expect), abs(num))
                if not (abs(got - expect) <= tol):
                    for prop in props:
                        ctx.violation({"api": "Model.update_pars", "oracle": "aggregation", "fn": fn, "weighted": bool(wvar)},
                                      f"aggregated parameter {par_name} in population {i_name} at index {ti}: value {got!r}, documented rule gives {expect!r} ({p0.fcn_str})",
                                      {"spec": spec, "case": case_key, "how": "vlib.genfw.run(spec); vlib.agg_corr.check"})
                    return n
    return n
